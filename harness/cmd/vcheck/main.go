// vcheck <Cxx> [quick|thorough] [--replay file]
package main

import (
	"encoding/json"
	"fmt"
	"os"
	"strconv"

	"verif/harness/checks"
	"verif/harness/internal/core"
)

func main() {
	if len(os.Args) < 2 {
		fmt.Println("usage: vcheck <Cxx> [quick|thorough] [--replay file]")
		os.Exit(2)
	}
	if os.Args[1] == "worker" && len(os.Args) == 5 {
		os.Exit(core.WorkerMain(os.Args[2], os.Args[3], os.Args[4]))
	}
	id := os.Args[1]
	tier := "quick"
	replay := ""
	for i := 2; i < len(os.Args); i++ {
		switch os.Args[i] {
		case "quick", "thorough":
			tier = os.Args[i]
		case "--replay":
			if i+1 < len(os.Args) {
				replay = os.Args[i+1]
				i++
			}
		}
	}
	if t := os.Getenv("VERIF_TIER"); t == "quick" || t == "thorough" {
		tier = t
	}
	var seed int64 = 1
	if s := os.Getenv("VERIF_SEED"); s != "" {
		if n, err := strconv.ParseInt(s, 10, 64); err == nil {
			seed = n
		}
	}
	ck, ok := checks.All[id]
	if !ok {
		fmt.Printf("unknown check %s\n", id)
		os.Exit(2)
	}
	c := core.NewCtx(id, tier, seed)
	if replay != "" {
		b, err := os.ReadFile(replay)
		if err != nil {
			fmt.Println(err)
			os.Exit(2)
		}
		var rec struct {
			Class string          `json:"class"`
			Case  json.RawMessage `json:"case"`
		}
		if err := json.Unmarshal(b, &rec); err != nil {
			fmt.Println(err)
			os.Exit(2)
		}
		fs, err := ck.Replay(c, rec.Case)
		if err != nil {
			fmt.Println("replay error:", err)
			os.Exit(2)
		}
		for _, f := range fs {
			fmt.Printf("REPRODUCED class=%s: %s\n", f.Class, f.What)
		}
		if len(fs) > 0 {
			fmt.Printf("VIOLATION property=%s replay=%s\n", id, replay)
			os.Exit(1)
		}
		fmt.Println("not reproduced")
		os.Exit(0)
	}
	err := ck.Run(c)
	os.Exit(c.Finish(ck.Level, err))
}
