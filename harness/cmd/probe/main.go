package main

import (
	"fmt"
	"os"

	jdoc "github.com/jsightapi/jsight-schema-core/formats/json"
)

func main() {
	for _, in := range os.Args[1:] {
		for _, trailing := range []bool{false, true} {
			var d = jdoc.New("x", in)
			if trailing {
				d = jdoc.New("x", in, jdoc.AllowTrailingNonSpaceCharacters())
			}
			fmt.Printf("%q trailing=%v:", in, trailing)
			for {
				lex, err := d.NextLexeme()
				if err != nil {
					fmt.Printf(" ERR(%v) last=%s[%d:%d]", err, lex.Type(), lex.Begin(), lex.End())
					break
				}
				fmt.Printf(" %s[%d:%d]", lex.Type(), lex.Begin(), lex.End())
			}
			l, lerr := d.Len()
			fmt.Printf("\n   Len=%d,%v Check=%v\n", l, lerr, jdoc.New("x", in).Check())
		}
	}
}
