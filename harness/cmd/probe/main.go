package main

import (
	"encoding/json"
	"fmt"
	"os"
	"strings"

	"github.com/jsightapi/jsight-schema-core/notations/jschema"
)

func main() {
	s := jschema.New("root", os.Args[1])
	for _, a := range os.Args[2:] {
		i := strings.Index(a, "=")
		if err := s.AddType(a[:i], jschema.New(a[:i], a[i+1:])); err != nil {
			fmt.Println("addtype", a[:i], err)
		}
	}
	fmt.Printf("check=%v\n", s.Check())
	ex, err := s.Example()
	fmt.Printf("example=%q %v\n", ex, err)
	u, _ := s.UsedUserTypes()
	fmt.Println("used=", u)
	n, err := s.Len()
	fmt.Println("len=", n, err, len(os.Args[1]))
	a, err := s.GetAST()
	b, _ := json.MarshalIndent(a, "", " ")
	fmt.Printf("ast=%s %v\n", b, err)
}
