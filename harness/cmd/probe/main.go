package main

import (
	"errors"
	"fmt"
	"os"

	"github.com/jsightapi/jsight-schema-core/kit"
	"github.com/jsightapi/jsight-schema-core/notations/jschema"
)

func main() {
	root := jschema.New("root", os.Args[1])
	err := root.Check()
	var je kit.JSchemaError
	if errors.As(err, &je) {
		fmt.Println("file", je.Filename(), "index", je.Index(), "line", je.Line(), "type", je.IncorrectUserType(), "len", len(os.Args[1]))
	}
	fmt.Println(err)
}
