package main

import (
	"fmt"

	"github.com/jsightapi/jsight-schema-core/notations/jschema"
)

func try(root, typ string) {
	s := jschema.New("root", root)
	if typ != "" {
		if err := s.AddType("@t", jschema.New("@t", typ)); err != nil {
			fmt.Println("addtype", err)
		}
	}
	err := s.Check()
	e := "nil"
	if err != nil {
		e = err.Error()
		if len(e) > 90 {
			e = e[:90]
		}
	}
	fmt.Printf("%-40q TYPE %-40q -> %s\n", root, typ, e)
}

func main() {
	try(`1 // {type: "@t"}`, `1.5 // {enum: [1.5, 1]}`)
	try(`1 // {type: "@t"}`, `1 // {enum: [1.5, 1]}`)
	try(`1.5 // {type: "@t"}`, `1 // {enum: [1.5, 1]}`)
	try(`"a" // {type: "@t"}`, `2 // {enum: [2, "a"]}`)
	try(`2 // {type: "@t"}`, `"a" // {enum: [2, "a"]}`)
	try(`null // {type: "@t"}`, `"a" // {enum: [null, "a"]}`)
	try(`null // {type: "@t"}`, `5 // {type: "integer", nullable: true}`)
	try(`null // {type: "@t"}`, `5 // {nullable: true}`)
	try(`{"k": null // {type: "@t"}
}`, `5 // {nullable: true}`)
	try(`{"k": @t
}`, `5 // {nullable: true}`)
	try(`null // {type: "integer", nullable: true}`, ``)
	try(`@t`, `1.5 // {enum: [1.5, 1]}`)
}
