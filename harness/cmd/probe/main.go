package main

import (
	"fmt"

	"github.com/jsightapi/jsight-schema-core/notations/jschema"
)

func main() {
	for _, order := range [][]string{{"@usesT", "@t"}, {"@t", "@usesT"}} {
		texts := map[string]string{"@usesT": `{"r": @t, "s": [@t, @t]}`, "@t": `"str" // {minLength: 1}`}
		root := jschema.New("root", `{"a": 1}`)
		for _, n := range order {
			fmt.Println("AddType", n, root.AddType(n, jschema.New(n, texts[n])))
		}
		fmt.Println(order, "Check:", root.Check())
	}
}
