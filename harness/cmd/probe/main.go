package main

import (
	"fmt"
	"os"

	"github.com/jsightapi/jsight-schema-core/notations/jschema"
)

func main() {
	for _, t := range os.Args[1:] {
		seen := map[string]int{}
		for i := 0; i < 200; i++ {
			err := jschema.New("root", t).Check()
			seen[fmt.Sprint(err)]++
		}
		fmt.Printf("%q:\n", t)
		for k, v := range seen {
			fmt.Printf("  %3d x %.300q\n", v, k)
		}
	}
}
