package main

import (
	"encoding/json"
	"fmt"
	"os"

	"github.com/jsightapi/jsight-schema-core/notations/jschema"
)

func main() {
	for _, t := range os.Args[1:] {
		s := jschema.New("root", t)
		fmt.Printf("%q check=%v\n", t, s.Check())
		ex, err := s.Example()
		fmt.Printf("  example=%q %v\n", ex, err)
		a, err := s.GetAST()
		b, _ := json.Marshal(a)
		fmt.Printf("  ast=%s %v\n", b, err)
	}
}
