package main

import (
	"fmt"

	"github.com/jsightapi/jsight-schema-core/notations/jschema"
)

func main() {
	for _, t := range []string{"\"a\fb\"", `"a\fb"`, "\"a\x01b\""} {
		fmt.Printf("%q -> %v\n", t, jschema.New("r", t).Check())
	}
}
