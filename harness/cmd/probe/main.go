package main

import (
	"fmt"

	"github.com/jsightapi/jsight-schema-core/notations/jschema"
)

func main() {
	root := "{\n  \"p0\": @t1, // {optional: true}\n  \"p1\": @t1 // {nullable: true}\n}"
	t1 := "{\n  \"p0\": [@main],\n  \"p1\": @main | @t2,\n  \"p2\": 1\n}"
	t2 := "{}"
	s := jschema.New("@main", root)
	fmt.Println(s.AddType("@t1", jschema.New("@t1", t1)))
	fmt.Println(s.AddType("@t2", jschema.New("@t2", t2)))
	fmt.Println(s.AddType("@main", s))
	fmt.Println("check:", s.Check())
	ex, err := s.Example()
	fmt.Println("example:", string(ex), err)
	// 3-cycle
	s = jschema.New("@main", "{\n \"a\": @t1\n}")
	s.AddType("@t1", jschema.New("@t1", "{\n \"a\": @t2\n}"))
	s.AddType("@t2", jschema.New("@t2", "{\n \"a\": @main\n}"))
	s.AddType("@main", s)
	fmt.Println("3-cycle check:", s.Check())
	ex, err = s.Example()
	fmt.Println("example:", string(ex), err)
}
