package checks

import (
	"encoding/json"
	"fmt"
	"sort"
	"strings"
	"time"

	"github.com/jsightapi/jsight-schema-core/notations/jschema"

	"verif/harness/internal/core"
	"verif/harness/internal/tlc"
)

// C05: RefPositions.tla enumerates projects that mention type names in every position, with every
// subset of the definitions registered; each is printed and replayed: UsedUserTypes() = Used,
// Check() fails with 1302 naming a missing type iff Missing is not empty, an unused extra type changes nothing.

type rpMention struct {
	Pos string   `json:"pos"`
	Ns  []string `json:"ns"`
}
type rpCase struct {
	Root       []rpMention         `json:"root"`
	Variant    map[string][]string `json:"variant"`
	Registered []string            `json:"registered"`
	Unused     bool                `json:"unused"`
	Place      string              `json:"place,omitempty"` // RefPositions!Places ("" = flat)
	Pipe       string              `json:"pipe,omitempty"`  // RefPositions!Pipes ("" = " | ")
	Used       []string            `json:"used"`
	Missing    []string            `json:"missing"`
	Warm       []string            `json:"warm,omitempty"` // call prefix (SchemaApi_orders) after which the assertions are repeated
}

func rpRootText(ms []rpMention, place string, pipes ...string) string {
	pipe := " | "
	if len(pipes) > 0 && pipes[0] != "" {
		pipe = pipes[0]
	}
	var rules, lines []string
	for i, m := range ms {
		n0 := "@" + m.Ns[0]
		switch m.Pos {
		case "value":
			lines = append(lines, fmt.Sprintf(`  "p%d": %s`, i, n0))
		case "choice":
			lines = append(lines, fmt.Sprintf(`  "p%d": %s%s@%s`, i, n0, pipe, m.Ns[1]))
		case "key":
			lines = append(lines, fmt.Sprintf(`  %s: %d`, n0, i))
		case "type":
			lines = append(lines, fmt.Sprintf(`  "p%d": "x"|// {type: "%s"}`, i, n0))
		case "or":
			lines = append(lines, fmt.Sprintf(`  "p%d": "x"|// {or: ["%s", "integer"]}`, i, n0))
		case "or2":
			lines = append(lines, fmt.Sprintf(`  "p%d": "x"|// {or: ["%s", "@%s"]}`, i, n0, m.Ns[1]))
		case "ormixed":
			lines = append(lines, fmt.Sprintf(`  "p%d": "x"|// {type: "mixed", or: ["%s", "@%s"]}`, i, n0, m.Ns[1]))
		case "mixedor":
			lines = append(lines, fmt.Sprintf(`  "p%d": "x"|// {or: ["%s", "integer"], type: "mixed"}`, i, n0))
		case "orset":
			lines = append(lines, fmt.Sprintf(`  "p%d": "x"|// {or: [{type: "%s"}, {type: "integer"}]}`, i, n0))
		case "typenull":
			lines = append(lines, fmt.Sprintf(`  "p%d": null|// {type: "%s", nullable: true}`, i, n0))
		case "ornull":
			lines = append(lines, fmt.Sprintf(`  "p%d": null|// {or: ["%s", "integer"], nullable: true}`, i, n0))
		case "allOf":
			rules = append(rules, fmt.Sprintf(`allOf: "%s"`, n0))
		case "addprops":
			rules = append(rules, fmt.Sprintf(`additionalProperties: "%s"`, n0))
		}
	}
	ann := ""
	if len(rules) > 0 {
		ann = " // {" + strings.Join(rules, ", ") + "}"
	}
	if len(lines) == 0 {
		return "{}" + ann
	}
	var sb strings.Builder
	sb.WriteString("{" + ann + "\n")
	switch place {
	case "nested":
		sb.WriteString("\"w\": {\n")
	case "atkey":
		sb.WriteString("\"@w\": {\n")
	case "item":
		sb.WriteString("\"w\": [\n{\n")
	}
	for i, l := range lines {
		// the comma goes before the annotation
		parts := strings.SplitN(l, "|", 2)
		// choices contain " | " (with blanks) - only split on the marker "|//"
		if strings.Contains(l, "|//") {
			parts = strings.SplitN(l, "|//", 2)
			parts[1] = "//" + parts[1]
		} else {
			parts = []string{l}
		}
		sb.WriteString(parts[0])
		if i < len(lines)-1 {
			sb.WriteString(",")
		}
		if len(parts) == 2 {
			sb.WriteString(" " + parts[1])
		}
		sb.WriteString("\n")
	}
	switch place {
	case "nested", "atkey":
		sb.WriteString("}\n")
	case "item":
		sb.WriteString("}\n]\n")
	}
	sb.WriteString("}")
	return sb.String()
}

func rpTypeText(name string, v []string) string {
	vv := ""
	if len(v) > 0 {
		vv = v[0]
	}
	switch name {
	case "a":
		if vv == "c" {
			return `"s" // {type: "@c"}`
		}
		if vv == "ref-c" {
			return `@c`
		}
		return `"s"`
	case "d":
		return `"u"`
	case "c":
		if vv == "a" {
			return `"t" // {or: ["@a", "integer"]}`
		}
		if vv == "ref-a" {
			return `@a`
		}
		return `"t"`
	case "b":
		switch vv {
		case "a", "c":
			return "{\n  \"bk\": @" + vv + "\n}"
		case "ap-a":
			return "{ // {additionalProperties: \"@a\"}\n  \"bk\": 1\n}"
		}
		return "{\n  \"bk\": 1\n}"
	}
	return "1"
}

func rpDump(cs rpCase) string {
	var sb strings.Builder
	fmt.Fprintf(&sb, "ROOT %s\n", strings.ReplaceAll(rpRootText(cs.Root, cs.Place, cs.Pipe), "\n", " "))
	for _, n := range []string{"a", "b", "c", "d"} {
		reg := "withheld"
		for _, r := range cs.Registered {
			if r == n {
				reg = "registered"
			}
		}
		fmt.Fprintf(&sb, "TYPE @%s (%s) %s\n", n, reg, strings.ReplaceAll(rpTypeText(n, cs.Variant[n]), "\n", " "))
	}
	if cs.Unused {
		sb.WriteString("TYPE @z (registered, unused) {\"zz\": 1}\n")
	}
	return sb.String()
}

func rpBuild(cs rpCase, withUnused bool) (*jschema.JSchema, error) {
	s := jschema.New("root", rpRootText(cs.Root, cs.Place, cs.Pipe))
	for _, n := range cs.Registered {
		if err := s.AddType("@"+n, jschema.New("@"+n, rpTypeText(n, cs.Variant[n]))); err != nil {
			return nil, fmt.Errorf("AddType(@%s): %v", n, err)
		}
	}
	if withUnused {
		if err := s.AddType("@z", jschema.New("@z", "{\n  \"zz\": 1\n}")); err != nil {
			return nil, fmt.Errorf("AddType(@z): %v", err)
		}
	}
	return s, nil
}

func rpPositions(cs rpCase) string {
	var p []string
	for _, m := range cs.Root {
		p = append(p, m.Pos)
	}
	sort.Strings(p)
	return strings.Join(p, "+")
}

// rpEval judges the project on a fresh object and on one that has already answered cs.Warm.
func rpEval(cs rpCase) []core.Finding {
	fs := rpEvalAfter(cs, nil)
	if len(cs.Warm) > 0 {
		for _, f := range rpEvalAfter(cs, cs.Warm) {
			f.Class += ":after-other-calls"
			f.What = "after the calls " + strings.Join(cs.Warm, ", ") + " on the same object: " + f.What
			fs = append(fs, f)
		}
	}
	return fs
}

func rpEvalAfter(cs rpCase, warm []string) []core.Finding {
	return core.Guard("references", func() []core.Finding {
		s, err := rpBuild(cs, cs.Unused)
		if err != nil {
			return []core.Finding{{Class: "refs:addtype:" + rpPositions(cs), What: err.Error() + "\n" + rpDump(cs)}}
		}
		var fs []core.Finding
		if p := warmUp(s, warm); p != "" {
			return []core.Finding{{Class: "refs:panic", What: "panic " + p + "\n" + rpDump(cs)}}
		}
		used, uerr := s.UsedUserTypes()
		var got []string
		seen := map[string]bool{}
		dup := false
		for _, u := range used {
			if seen[u] {
				dup = true
			}
			seen[u] = true
			got = append(got, strings.TrimPrefix(u, "@"))
		}
		sort.Strings(got)
		want := append([]string{}, cs.Used...)
		sort.Strings(want)
		if uerr != nil {
			fs = append(fs, core.Finding{Class: "refs:used-error:" + rpPositions(cs), What: fmt.Sprintf("UsedUserTypes() = %v\n%s", firstLineOf(uerr), rpDump(cs))})
		} else if dup {
			fs = append(fs, core.Finding{Class: "refs:used-duplicates:" + rpPositions(cs), What: fmt.Sprintf("UsedUserTypes() = %v has duplicates\n%s", used, rpDump(cs))})
		} else if strings.Join(got, ",") != strings.Join(want, ",") {
			fs = append(fs, core.Finding{Class: "refs:used-set:" + rpPositions(cs), What: fmt.Sprintf("UsedUserTypes() = %v, the root mentions %v\n%s", used, want, rpDump(cs))})
		}
		cerr := s.Check()
		// a null example on a node that refers to a registered type is refused with 1301 by the library; whether
		// that is right is not settled by the statement (C01 leaves null examples of nullable nodes open): such a
		// project may be refused for that reason before a missing type is met
		nullOnRegistered := false
		for _, m := range cs.Root {
			if m.Pos == "typenull" || m.Pos == "ornull" {
				for _, r := range cs.Registered {
					if r == m.Ns[0] {
						nullOnRegistered = true
					}
				}
			}
		}
		switch {
		case nullOnRegistered && cerr != nil && (errCode(cerr) == 1301 || errCode(cerr) == 204 || errCode(cerr) == 210):
		case len(cs.Missing) == 0 && cerr != nil && errCode(cerr) != 1302:
			// rejected for another reason than a missing type: outside the statement (counted, not a verdict)
		case len(cs.Missing) == 0 && cerr != nil:
			fs = append(fs, core.Finding{Class: fmt.Sprintf("refs:rejects-complete-project:code-%d:%s", errCode(cerr), rpPositions(cs)), What: fmt.Sprintf("every reachable type is registered but Check() = %v\n%s", firstLineOf(cerr), rpDump(cs))})
		case len(cs.Missing) > 0 && cerr == nil:
			fs = append(fs, core.Finding{Class: "refs:accepts-missing-type:" + rpPositions(cs), What: fmt.Sprintf("types %v are reachable and not registered but Check() = nil\n%s", cs.Missing, rpDump(cs))})
		case len(cs.Missing) > 0:
			named := false
			for _, m := range cs.Missing {
				if strings.Contains(cerr.Error(), `"@`+m+`"`) {
					named = true
				}
			}
			if errCode(cerr) != 1302 || !named {
				fs = append(fs, core.Finding{Class: fmt.Sprintf("refs:wrong-diagnostic:code-%d:%s", errCode(cerr), rpPositions(cs)), What: fmt.Sprintf("missing %v but Check() = %v\n%s", cs.Missing, firstLineOf(cerr), rpDump(cs))})
			}
		}
		// an unused valid type never changes any result
		if cs.Unused {
			base, err := rpBuild(cs, false)
			if err == nil {
				a, b := schemaObs(base), schemaObs(s)
				if a != b {
					fs = append(fs, core.Finding{Class: "refs:unused-type-changes-result:" + rpPositions(cs), What: fmt.Sprintf("registering the unused type @z changes the results: %s\n%s", detDiffWhat(a, b, detCase{}), rpDump(cs))})
				}
			}
		}
		return fs
	})
}

// ---- ManyRefs.tla: many names, repeated mentions

type mrCase struct {
	Mentions []struct {
		N int    `json:"n"`
		P string `json:"p"`
	} `json:"mentions"`
	Used    []int    `json:"used"`
	Missing []int    `json:"missing"`
	Warm    []string `json:"warm,omitempty"`
}

func mrText(cs mrCase) string {
	var sb strings.Builder
	sb.WriteString("{\n")
	for i, m := range cs.Mentions {
		sep := ","
		if i == len(cs.Mentions)-1 {
			sep = ""
		}
		name := fmt.Sprintf("@t%d", m.N)
		switch m.P {
		case "type":
			fmt.Fprintf(&sb, "  \"p%d\": \"s\"%s // {type: \"%s\"}\n", i, sep, name)
		case "or":
			fmt.Fprintf(&sb, "  \"p%d\": \"s\"%s // {or: [\"%s\", \"integer\"]}\n", i, sep, name)
		case "choice":
			prev := m.N
			if i > 0 {
				prev = cs.Mentions[i-1].N
			}
			if prev == m.N {
				fmt.Fprintf(&sb, "  \"p%d\": %s%s\n", i, name, sep)
			} else {
				fmt.Fprintf(&sb, "  \"p%d\": %s | @t%d%s\n", i, name, prev, sep)
			}
		default:
			fmt.Fprintf(&sb, "  \"p%d\": %s%s\n", i, name, sep)
		}
	}
	sb.WriteString("}")
	return sb.String()
}

func mrEval(cs mrCase) []core.Finding {
	fs := mrEvalAfter(cs, nil)
	if len(cs.Warm) > 0 {
		for _, f := range mrEvalAfter(cs, cs.Warm) {
			f.Class += ":after-other-calls"
			f.What = "after the calls " + strings.Join(cs.Warm, ", ") + " on the same object: " + f.What
			fs = append(fs, f)
		}
	}
	return fs
}

func mrEvalAfter(cs mrCase, warm []string) []core.Finding {
	return core.Guard("many-references", func() []core.Finding {
		text := mrText(cs)
		s := jschema.New("root", text)
		missing := map[int]bool{}
		for _, m := range cs.Missing {
			missing[m] = true
		}
		for _, n := range cs.Used {
			if missing[n] {
				continue
			}
			name := fmt.Sprintf("@t%d", n)
			if err := s.AddType(name, jschema.New(name, `"s"`)); err != nil {
				return []core.Finding{{Class: "refs:addtype:many", What: fmt.Sprintf("AddType(%s): %v\n%s", name, firstLineOf(err), text)}}
			}
		}
		if p := warmUp(s, warm); p != "" {
			return []core.Finding{{Class: "refs:panic", What: "panic " + p + "\n" + text}}
		}
		size := fmt.Sprintf("%d-names", len(cs.Used))
		if len(cs.Used) >= 8 {
			size = "8-or-more-names"
		}
		var fs []core.Finding
		used, uerr := s.UsedUserTypes()
		seen := map[string]int{}
		for _, u := range used {
			seen[u]++
		}
		want := map[string]bool{}
		for _, n := range cs.Used {
			want[fmt.Sprintf("@t%d", n)] = true
		}
		switch {
		case uerr != nil:
			fs = append(fs, core.Finding{Class: "refs:used-error:many:" + size, What: fmt.Sprintf("UsedUserTypes() = %v\n%s", firstLineOf(uerr), text)})
		case len(used) != len(seen):
			fs = append(fs, core.Finding{Class: "refs:used-duplicates:many:" + size, What: fmt.Sprintf("UsedUserTypes() = %v has duplicates\n%s", used, text)})
		default:
			ok := len(seen) == len(want)
			for u := range seen {
				if !want[u] {
					ok = false
				}
			}
			if !ok {
				fs = append(fs, core.Finding{Class: "refs:used-set:many:" + size, What: fmt.Sprintf("UsedUserTypes() = %v, the text mentions %v\n%s", used, cs.Used, text)})
			}
		}
		cerr := s.Check()
		switch {
		case len(cs.Missing) == 0 && cerr != nil && errCode(cerr) == 1302:
			fs = append(fs, core.Finding{Class: "refs:rejects-complete-project:many:" + size, What: fmt.Sprintf("every mentioned type is registered but Check() = %v\n%s", firstLineOf(cerr), text)})
		case len(cs.Missing) > 0 && cerr == nil:
			fs = append(fs, core.Finding{Class: "refs:accepts-missing-type:many:" + size, What: fmt.Sprintf("@t%d is mentioned and not registered but Check() = nil\n%s", cs.Missing[0], text)})
		case len(cs.Missing) > 0 && (errCode(cerr) != 1302 || !strings.Contains(cerr.Error(), fmt.Sprintf(`"@t%d"`, cs.Missing[0]))):
			fs = append(fs, core.Finding{Class: fmt.Sprintf("refs:wrong-diagnostic:code-%d:many:%s", errCode(cerr), size), What: fmt.Sprintf("@t%d is missing but Check() = %v\n%s", cs.Missing[0], firstLineOf(cerr), text)})
		}
		return fs
	})
}

func runManyRefs(c *core.Ctx) error {
	cfgs := []string{"ManyRefs_seq.cfg", "ManyRefs_free.cfg"}
	if c.Thorough() {
		cfgs = append(cfgs, "ManyRefs_seq70.cfg")
	}
	for _, cfg := range cfgs {
		var cases []mrCase
		res, err := tlc.Run(tlc.Opts{Module: "ManyRefs", Cfg: cfg, Workers: 8, OnLine: func(l string) {
			var cs mrCase
			if json.Unmarshal([]byte(l), &cs) == nil && len(cs.Mentions) > 0 {
				cases = append(cases, cs)
			}
		}})
		res.Cleanup()
		if err != nil {
			return err
		}
		if err := res.MustOK(); err != nil {
			return err
		}
		c.AddTLC(cfg, res)
		if len(cases) == 0 {
			return fmt.Errorf("%s: no cases", cfg)
		}
		for i := range cases {
			cases[i].Warm = callPrefix(i, c.Seed)
		}
		core.ParallelFor(len(cases), func(i int) {
			c.CountEval(2)
			c.Report(cases[i], mrEval(cases[i]))
		})
		c.Set("many_refs_"+cfg, len(cases))
	}
	return nil
}

func runC05(c *core.Ctx) error {
	// exhaustive: every project of up to two mentions; thorough adds a TLC-simulated sample of the projects of three
	// mentions (their state space - some 70 million - is out of reach of an exhaustive run in the time of a check)
	var cases []rpCase
	collect := func(l string) {
		var cs rpCase
		if err := json.Unmarshal([]byte(l), &cs); err != nil {
			c.InfraError("bad case: %v", err)
			return
		}
		cases = append(cases, cs)
	}
	res, err := tlc.Run(tlc.Opts{Module: "RefPositions", Cfg: "RefPositions_quick.cfg", Workers: 16, Timeout: 30 * time.Minute, HeapGB: 16, OnLine: collect})
	res.Cleanup()
	if err != nil {
		return err
	}
	if err := res.MustOK(); err != nil {
		return err
	}
	c.AddTLC("RefPositions_quick.cfg", res)
	if c.Thorough() {
		cfg := "RefPositions_sim3.cfg"
		files := map[string][]byte{cfg: []byte("SPECIFICATION Spec\nCONSTANTS\n  MaxMentions = 3\n  Rotate = FALSE\nINVARIANTS UsedIsReached MissingOnlyIfWithheld Emit\nCHECK_DEADLOCK FALSE\n")}
		before := len(cases)
		sim, err := tlc.Run(tlc.Opts{Module: "RefPositions", Cfg: cfg, Workers: 1, Files: files, Simulate: "num=400000", Depth: 6, Seed: c.Seed, Timeout: 30 * time.Minute, OnLine: collect})
		sim.Cleanup()
		if err != nil {
			return err
		}
		if sim.ErrorText != "" || sim.Violated != "" {
			return fmt.Errorf("RefPositions simulation: %s %s", sim.Violated, sim.ErrorText)
		}
		c.Set("simulated_three_mention_projects", len(cases)-before)
	}
	if len(cases) == 0 {
		return fmt.Errorf("no cases")
	}
	if _, err := loadCallOrders(); err != nil {
		return err
	}
	for i := range cases {
		cases[i].Warm = callPrefix(i, c.Seed)
	}
	core.ParallelFor(len(cases), func(i int) {
		c.CountEval(2)
		c.Report(cases[i], rpEval(cases[i]))
	})
	for _, cs := range cases {
		c.Nontrivial(rpDump(cs))
	}
	if err := runManyRefs(c); err != nil {
		return err
	}
	// names referred to by `allOf` at every depth: the projects of AllOf.tla with nested heirs whose only defect is a
	// withheld definition (refusal class "missing") must be answered with 1302, wherever the list that names it stands
	{
		cfg := "AllOf_refs_nest.cfg"
		body := "SPECIFICATION Spec\nCONSTANTS\n  N = 2\n  KeySet = {\"k1\", \"k2\"}\n  MaxList = 1\n  APs = {\"absent\"}\n  Nest = TRUE\n  RootChoice = FALSE\n  OptDefTypes = FALSE\n  SelfReg = FALSE\nINVARIANTS Emit\nCHECK_DEADLOCK FALSE\n"
		var miss []aoCase
		res, err := tlc.Run(tlc.Opts{Module: "AllOf", Cfg: cfg, Workers: 8, Files: map[string][]byte{cfg: []byte(body)}, OnLine: func(l string) {
			if !strings.Contains(l, `"refusals":["missing"]`) {
				return
			}
			var cs aoCase
			if json.Unmarshal([]byte(l), &cs) == nil {
				miss = append(miss, cs)
			}
		}})
		res.Cleanup()
		if err != nil {
			return err
		}
		if err := res.MustOK(); err != nil {
			return err
		}
		c.AddTLC(cfg, res)
		if len(miss) == 0 {
			return fmt.Errorf("%s: no project with a withheld definition", cfg)
		}
		core.ParallelFor(len(miss), func(i int) {
			c.CountEval(1)
			for _, f := range aoEvalAfter(miss[i], nil) {
				f.Class = "refs:allof-project:" + f.Class
				c.Report(miss[i], []core.Finding{f})
			}
		})
		c.Set("allof_projects_with_withheld_definition", len(miss))
	}
	c.Sample(strings.Split(rpDump(cases[len(cases)/2]), "\n"))
	c.Set("rule", "every hygienic project of RefPositions.tla: root object with 1-2(3) mentions of @a/@b/@c in the positions value, choice, key shortcut, type, or (name), or (rule-set), allOf, additionalProperties; type definitions that mention each other one level further (acyclic); every subset of definitions registered; with and without an unused extra type. Replayed: UsedUserTypes() as a duplicate-free set = Used, Check() = 1302 naming a member of Missing iff Missing is not empty, all observables identical with and without the unused type. distinct_nontrivial = distinct projects")
	c.Assume = append(c.Assume, "kinds fit positions (key/type/or positions use string types, allOf an object type); a registered type nothing reaches mentions registered names only")
	return nil
}

func init() {
	register(&core.Check{ID: "C05", Level: "model_checking", Run: runC05,
		Replay: func(c *core.Ctx, raw json.RawMessage) ([]core.Finding, error) {
			var probe struct {
				Refusals []string `json:"refusals"`
			}
			if json.Unmarshal(raw, &probe) == nil && probe.Refusals != nil {
				var ao aoCase
				if err := json.Unmarshal(raw, &ao); err != nil {
					return nil, err
				}
				return aoEvalAfter(ao, nil), nil
			}
			var mr mrCase
			if json.Unmarshal(raw, &mr) == nil && len(mr.Mentions) > 0 {
				return mrEval(mr), nil
			}
			var cs rpCase
			if err := json.Unmarshal(raw, &cs); err != nil {
				return nil, err
			}
			return rpEval(cs), nil
		}})
}
