package checks

import (
	"crypto/sha1"
	"encoding/json"
	"strings"
	"sync"
	"time"

	"verif/harness/internal/core"
)

// C02 and C16 share the generators (crashgen.go) and the evaluator (crash.go); each reports its own findings.

func runCrash(prop string) func(c *core.Ctx) error {
	return func(c *core.Ctx) error {
		cases, err := crCases(c)
		if err != nil {
			return err
		}
		c.Set("cases", len(cases))
		bySrc := map[string]int{}
		var mu sync.Mutex
		sub := core.NewCtx(c.ID, c.Tier, c.Seed)
		err = sub.RunSharded(cases, core.ShardOpts{Worker: "crash", PerCase: 2 * time.Second,
			OnOut: func(o core.WorkerOut, raw json.RawMessage) {
				var cs crCase
				if json.Unmarshal(raw, &cs) == nil {
					mu.Lock()
					bySrc[strings.SplitN(cs.Src, "/", 2)[0]+":"+cs.Entry]++
					mu.Unlock()
				}
				c.CountEval(1)
				if len(raw) > 40 {
					h := sha1.Sum(raw)
					c.Nontrivial(string(h[:8]))
				}
				var fs []core.Finding
				for _, f := range o.Findings {
					if strings.HasPrefix(f.Class, prop+":") {
						fs = append(fs, f)
					}
				}
				if len(fs) > 0 {
					c.Report(raw, fs)
				}
			},
			CrashClass: func(raw json.RawMessage, how string) core.Finding {
				if prop != "c02" {
					return core.Finding{}
				}
				var cs crCase
				_ = json.Unmarshal(raw, &cs)
				kind := "process-died"
				switch {
				case strings.Contains(how, "stack exceeds") || strings.Contains(how, "stack overflow"):
					kind = "stack-overflow"
				case strings.Contains(how, "hung"):
					kind = "hang"
				case strings.Contains(how, "out of memory") || strings.Contains(how, "cannot allocate"):
					kind = "out-of-memory"
				}
				fd := core.Finding{Class: "c02:" + kind + ":" + cs.Entry + ":" + strings.SplitN(cs.Src, "/", 2)[0], What: how}
				// findings go to the check's own context (sub only collects infrastructure errors)
				c.CountEval(1)
				c.Report(raw, []core.Finding{fd})
				return fd
			}})
		if err != nil {
			return err
		}
		for _, e := range sub.Infra {
			c.InfraError("%s", e)
		}
		c.Set("cases_by_generator_and_entry", bySrc)
		var smp crCase
		_ = json.Unmarshal(cases[len(cases)/3], &smp)
		c.Sample(map[string]any{"entry": smp.Entry, "text": string(smp.Text), "src": smp.Src})
		c.Set("rule", "inputs generated from the TLA+ specifications - JSchemaScan (every viable class string <= N and simulated long behaviours, as schema and as registered type), JsonDoc, Number, RegexDelim, EnumRule graphs (with every truncation), every truncation and seeded single-byte mutations of printed SchemaText projects, reference cycles (TypeGraph graphs and hand-listed positions, root registered under its own name), nesting/size up to 10^4 (10^6 thorough) - each run in worker processes through every public operation of its entry point; distinct_nontrivial counts distinct non-empty cases; per-family counts are in cases_by_generator_and_entry")
		return nil
	}
}

func crashReplay(prop string) func(c *core.Ctx, raw json.RawMessage) ([]core.Finding, error) {
	return func(c *core.Ctx, raw json.RawMessage) ([]core.Finding, error) {
		var inner json.RawMessage
		// the stored case is the raw JSON of a crCase
		if err := json.Unmarshal(raw, &inner); err != nil {
			return nil, err
		}
		var cs crCase
		if err := json.Unmarshal(inner, &cs); err != nil {
			return nil, err
		}
		// run in a worker process so that a fatal crash is observed, not suffered
		var out []core.Finding
		var mu sync.Mutex
		sub := core.NewCtx(c.ID, "quick", 1)
		err := sub.RunSharded([]json.RawMessage{inner}, core.ShardOpts{Worker: "crash",
			OnOut: func(o core.WorkerOut, _ json.RawMessage) {
				mu.Lock()
				for _, f := range o.Findings {
					if strings.HasPrefix(f.Class, prop+":") {
						out = append(out, f)
					}
				}
				mu.Unlock()
			},
			CrashClass: func(_ json.RawMessage, how string) core.Finding {
				if prop == "c02" {
					mu.Lock()
					out = append(out, core.Finding{Class: "c02:process-died", What: how})
					mu.Unlock()
				}
				return core.Finding{}
			}})
		return out, err
	}
}

func init() {
	register(&core.Check{ID: "C02", Level: "model_checking", Run: runCrash("c02"), Replay: crashReplay("c02")})
}
