package checks

import (
	"encoding/json"
	"fmt"
	"math/rand"
	"sort"
	"strings"

	"github.com/jsightapi/jsight-schema-core/notations/jschema"

	"verif/harness/internal/core"
	"verif/harness/internal/tlc"
)

// C01: SchemaModel.tla + RuleSemantics.tla enumerate projects with one tested value, a rule set and
// the verdict the documented rule meaning demands; each project is printed and Check()ed.

type smRule struct {
	N string `json:"n"`
	T string `json:"t"`
}

type smCase struct {
	Skel   string   `json:"skel"`
	Kind   string   `json:"kind"`
	V      string   `json:"v"`
	N      int      `json:"n"`
	TV     string   `json:"tv"`
	Rules  []smRule `json:"rules"`
	Expect string   `json:"expect"`
	// extended families (enum / const / nullable / formats)
	Extra map[string]string `json:"extra,omitempty"`
}

var valueReasonCodes = map[int]bool{602: true, 603: true, 606: true, 607: true, 608: true, 609: true, 610: true, 611: true,
	612: true, 613: true, 614: true, 615: true, 616: true, 204: true, 210: true, 1301: true}

func smAnnotation(rules []smRule, typeFirst bool) string {
	if len(rules) == 0 {
		return ""
	}
	var parts []string
	if typeFirst {
		for _, r := range rules {
			if r.N == "type" {
				parts = append(parts, "type: "+r.T)
			}
		}
	}
	for _, r := range rules {
		if r.N == "type" && typeFirst {
			continue
		}
		parts = append(parts, r.N+": "+r.T)
	}
	return "{" + strings.Join(parts, ", ") + "}"
}

func smArray(n int, ann, indent string) string {
	if n == 0 {
		if ann == "" {
			return "[]"
		}
		return "[] // " + ann
	}
	var sb strings.Builder
	sb.WriteString("[")
	if ann != "" {
		sb.WriteString(" // " + ann)
	}
	sb.WriteString("\n")
	for i := 0; i < n; i++ {
		sb.WriteString(indent + "  " + fmt.Sprint(i+1))
		if i+1 < n {
			sb.WriteString(",")
		}
		sb.WriteString("\n")
	}
	sb.WriteString(indent + "]")
	return sb.String()
}

// smProject prints the root text and the user types of a case.
func smProject(cs smCase) (root string, types map[string]string) {
	types = map[string]string{}
	ann := smAnnotation(cs.Rules, false)
	withAnn := func(v, a string) string {
		if a == "" {
			return v
		}
		return v + " // " + a
	}
	if cs.Kind == "arr" {
		switch cs.Skel {
		case "root":
			root = smArray(cs.N, ann, "")
		case "prop":
			root = "{\n  \"k\": " + smArray(cs.N, ann, "  ") + "\n}"
		}
		return
	}
	switch cs.Skel {
	case "root":
		root = withAnn(cs.V, ann)
	case "prop":
		root = "{\n  \"k\": " + withAnn(cs.V, ann) + "\n}"
	case "item":
		root = "[\n  " + withAnn(cs.V, ann) + "\n]"
	case "or":
		root = cs.V + " // {or: [" + smAnnotation(cs.Rules, true) + ", {type: \"boolean\"}]}"
	case "ref":
		root = cs.V + ` // {type: "@t"}`
		types["@t"] = withAnn(cs.TV, ann)
	case "refor":
		root = cs.V + ` // {or: ["@t", "boolean"]}`
		types["@t"] = withAnn(cs.TV, ann)
	case "reftor":
		root = cs.V + ` // {type: "@t"}`
		types["@t"] = cs.TV + " // {or: [" + smAnnotation(cs.Rules, true) + ", {type: \"boolean\"}]}"
	case "ref2":
		root = "{\n  \"k\": @t\n}"
		types["@t"] = cs.V + ` // {type: "@u"}`
		types["@u"] = withAnn(cs.TV, ann)
	}
	return
}

// smPair composes two finished projects as independent parts of one root object (SchemaModel!ComposeExpect).
type smPair struct {
	A, B   smCase
	Expect string
}

func smPartOf(cs smCase) (string, map[string]string) {
	if len(cs.Extra) > 0 {
		t := map[string]string{}
		if cs.Extra["type"] != "" {
			t["@t"] = cs.Extra["type"]
		}
		return cs.Extra["root"], t
	}
	return smProject(cs)
}

func smPairProject(p smPair) (string, map[string]string) {
	types := map[string]string{}
	var sb strings.Builder
	sb.WriteString("{\n")
	for i, cs := range []smCase{p.A, p.B} {
		root, ts := smPartOf(cs)
		tn := fmt.Sprintf("@t%d", i+1)
		root = strings.ReplaceAll(root, `"@t"`, `"`+tn+`"`)
		for _, t := range ts {
			types[tn] = t
		}
		sep := ","
		if i == 1 {
			sep = ""
		}
		root = strings.ReplaceAll(root, "\n", "\n  ")
		if k := strings.Index(root, " // "); k >= 0 && !strings.Contains(root, "\n") {
			root = root[:k] + sep + root[k:]
		} else {
			root += sep
		}
		fmt.Fprintf(&sb, "  \"p%d\": %s\n", i+1, root)
	}
	sb.WriteString("}")
	return sb.String(), types
}

func smPairEval(c *core.Ctx, p smPair) []core.Finding {
	return core.Guard("schema.Check", func() []core.Finding {
		root, types := smPairProject(p)
		s := jschema.New("root", root)
		for _, n := range []string{"@t1", "@t2"} {
			if t, ok := types[n]; ok {
				if err := s.AddType(n, jschema.New(n, t)); err != nil {
					if c != nil {
						c.Inconclusive("pair-addtype-failed:" + fmt.Sprint(errCode(err)))
					}
					return nil
				}
			}
		}
		err := s.Check()
		code := errCode(err)
		show := fmt.Sprintf("%q", root)
		for n, x := range types {
			show += fmt.Sprintf("  TYPE %s: %q", n, x)
		}
		class := "pair:" + p.A.Skel + "+" + p.B.Skel
		switch {
		case p.Expect == "reject" && err == nil:
			return []core.Finding{{Class: "check:accepts-violating-example:" + class, What: "one of the two parts breaks its own rules but Check() = nil: " + show}}
		case p.Expect == "accept" && err != nil && valueReasonCodes[code]:
			return []core.Finding{{Class: "check:rejects-satisfying-example:" + class, What: fmt.Sprintf("both parts satisfy their rules but Check() = %v: %s", firstLineOf(err), show)}}
		case p.Expect == "accept" && err != nil:
			if c != nil {
				c.Inconclusive(fmt.Sprintf("structural-code-%d:%s", code, class))
			}
		}
		return nil
	})
}

// smPairs draws pairs of finished projects; a third of them from the skeletons that create internal types.
func smPairs(cases []smCase, n int, seed int64) []smPair {
	rng := rand.New(rand.NewSource(seed))
	var inner []int
	for i, cs := range cases {
		if cs.Skel == "or" || cs.Skel == "refor" || cs.Skel == "reftor" || cs.Skel == "or2" || strings.HasPrefix(cs.Skel, "orvocab") {
			inner = append(inner, i)
		}
	}
	// strata: family/skeleton x expected verdict x "the example is null": every third pair is drawn stratum by stratum
	// (first a stratum, then a case of it), so that small families meet every other family in both orders
	strata := map[string][]int{}
	var names []string
	for i, cs := range cases {
		if cs.Expect == "unknown" || strings.HasPrefix(cs.Skel, "scaled:") || cs.Skel == "rulekinds" || cs.Skel == "namedenum" {
			continue
		}
		isNull := cs.V == "null" || strings.HasPrefix(cs.Extra["root"], "null") || strings.Contains(cs.Extra["root"], ": null")
		k := fmt.Sprintf("%s:%s:%v", cs.Skel, cs.Expect, isNull)
		if _, ok := strata[k]; !ok {
			names = append(names, k)
		}
		strata[k] = append(strata[k], i)
	}
	sort.Strings(names)
	var out []smPair
	pick := func(k int) smCase {
		if k%3 != 2 && len(inner) > 0 {
			return cases[inner[rng.Intn(len(inner))]]
		}
		return cases[rng.Intn(len(cases))]
	}
	for k := 0; len(out) < n && k < 4*n; k++ {
		a, b := pick(k), pick(k+1)
		if k%3 == 0 && len(names) > 0 {
			sa, sb := strata[names[rng.Intn(len(names))]], strata[names[rng.Intn(len(names))]]
			a, b = cases[sa[rng.Intn(len(sa))]], cases[sb[rng.Intn(len(sb))]]
		}
		if a.Expect == "unknown" || b.Expect == "unknown" || a.Skel == "namedenum" || b.Skel == "namedenum" {
			continue
		}
		e := "accept"
		if a.Expect != "accept" || b.Expect != "accept" {
			e = "reject"
		}
		out = append(out, smPair{A: a, B: b, Expect: e})
	}
	return out
}

func smClass(cs smCase, what string) string {
	var names []string
	for _, r := range cs.Rules {
		if r.N != "type" {
			names = append(names, r.N)
		}
	}
	return fmt.Sprintf("check:%s:%s:%s:%s", what, cs.Skel, cs.Kind, strings.Join(names, "+"))
}

// smEval judges the project on fresh objects; a "ref2" project also with a @t object that was part of a project
// with a rule-free @u before (SchemaApi.tla: the verdict is a function of the texts registered, not of the objects' past).
func smEval(c *core.Ctx, cs smCase) []core.Finding {
	fs := smEvalWith(c, cs, false)
	if cs.Skel == "ref2" {
		for _, f := range smEvalWith(nil, cs, true) {
			f.Class += ":type-object-used-before"
			f.What = "the @t object was registered and checked in a project with a rule-free @u first: " + f.What
			fs = append(fs, f)
		}
	}
	return fs
}

func smEvalWith(c *core.Ctx, cs smCase, usedBefore bool) []core.Finding {
	return core.Guard("schema.Check", func() []core.Finding {
		root, types := smProject(cs)
		s := jschema.New("root", root)
		objs := map[string]*jschema.JSchema{}
		for n, t := range types {
			objs[n] = jschema.New(n, t)
		}
		if usedBefore {
			first := jschema.New("root", "{\n  \"k\": @t\n}")
			_ = first.AddType("@t", objs["@t"])
			_ = first.AddType("@u", jschema.New("@u", cs.TV))
			_ = first.Check()
		}
		for n := range types {
			if err := s.AddType(n, objs[n]); err != nil {
				if c != nil {
					c.Inconclusive("addtype-failed:" + fmt.Sprint(errCode(err)))
					c.Sample(map[string]string{"addtype_failed": types[n], "err": firstLineOf(err)})
				}
				return nil
			}
		}
		err := s.Check()
		code := errCode(err)
		show := func() string {
			t := ""
			for n, x := range types {
				t += fmt.Sprintf("  TYPE %s: %s", n, x)
			}
			return fmt.Sprintf("%q%s", root, t)
		}
		switch {
		case cs.Expect == "reject" && err == nil:
			return []core.Finding{{Class: smClass(cs, "accepts-violating-example"), What: "the example breaks its own rules but Check() = nil: " + show()}}
		case cs.Expect == "accept" && err != nil && valueReasonCodes[code]:
			return []core.Finding{{Class: smClass(cs, "rejects-satisfying-example"), What: fmt.Sprintf("every example satisfies its rules but Check() = %v: %s", firstLineOf(err), show())}}
		case cs.Expect == "accept" && err != nil:
			if c != nil {
				c.Inconclusive(fmt.Sprintf("structural-code-%d:%s", code, cs.Skel+":"+cs.Kind))
			}
		}
		return nil
	})
}

func runC01(c *core.Ctx) error {
	cfg := "SchemaModel_quick.cfg"
	files := map[string][]byte{}
	if c.Thorough() {
		cfg = "SchemaModel_thorough.cfg"
		files[cfg] = []byte("SPECIFICATION Spec\nCONSTANTS\n  Skeletons = {\"root\",\"prop\",\"item\",\"or\",\"ref\",\"refor\",\"reftor\",\"ref2\"}\n  Bounds = {2, 3, 4, 6, 9, 10, 14, 17}\n  Kinds = {\"num\",\"str\",\"arr\"}\nINVARIANTS TypeOK NoRulesAccepted Emit\nCHECK_DEADLOCK FALSE\n")
	}
	var cases []smCase
	res, err := tlc.Run(tlc.Opts{Module: "SchemaModel", Cfg: cfg, Workers: 16, Files: files, Timeout: 0, HeapGB: 12, OnLine: func(l string) {
		var cs smCase
		if err := json.Unmarshal([]byte(l), &cs); err != nil {
			c.InfraError("bad case %s: %v", l, err)
			return
		}
		cases = append(cases, cs)
	}})
	res.Cleanup()
	if err != nil {
		return err
	}
	if err := res.MustOK(); err != nil {
		return err
	}
	c.AddTLC(cfg, res)
	extra, eres, err := smExtraCases(c)
	if err != nil {
		return err
	}
	if eres != nil {
		c.AddTLC("SchemaModelExtra.cfg", eres)
	}
	cases = append(cases, extra...)
	if len(cases) == 0 {
		return fmt.Errorf("no cases emitted")
	}
	acc, rej := 0, 0
	core.ParallelFor(len(cases), func(i int) {
		cs := cases[i]
		c.CountEval(1)
		if len(cs.Extra) > 0 {
			c.Report(cs, smExtraEval(c, cs))
		} else {
			c.Report(cs, smEval(c, cs))
		}
	})
	pairs := smPairs(cases, c.Pick(80000, 600000), c.Seed)
	core.ParallelFor(len(pairs), func(i int) {
		c.CountEval(1)
		c.Report(pairs[i], smPairEval(c, pairs[i]))
	})
	c.Set("composed_pairs", len(pairs))
	for _, cs := range cases {
		if len(cs.Rules) > 0 || len(cs.Extra) > 0 {
			b, _ := json.Marshal(cs)
			c.Nontrivial(string(b))
		}
		if cs.Expect == "accept" {
			acc++
		} else {
			rej++
		}
	}
	c.Set("expected_accept", acc)
	c.Set("expected_reject", rej)
	r, t := smProject(cases[len(cases)/2])
	c.Sample(map[string]any{"root": r, "types": t, "expect": cases[len(cases)/2].Expect})
	c.Set("exhaustive", true)
	c.Set("rule", "every finished project of SchemaModel.tla: 6 skeletons (root, property, array item, or rule-set, type reference, type reference inside or) x value from the number/string catalogues or array of 0-3 items x every canonical rule subset (min/max with exclusivity, precision, minLength/maxLength, regex, minItems/maxItems, explicit type) - plus enum/const/nullable/format families; expected verdict = RuleSemantics!Sat on every example value. distinct_nontrivial = distinct projects with at least one value rule")
	c.Assume = append(c.Assume, "string length on ASCII + escapes only; regex and format semantics only on catalogue samples", "accept-expected projects answered with a structural code are inconclusive, not violations")
	return nil
}

func init() {
	register(&core.Check{ID: "C01", Level: "model_checking", Run: runC01,
		Replay: func(c *core.Ctx, raw json.RawMessage) ([]core.Finding, error) {
			var pr smPair
			if json.Unmarshal(raw, &pr) == nil && pr.Expect != "" && (pr.A.Skel != "" || len(pr.A.Extra) > 0) {
				return smPairEval(nil, pr), nil
			}
			var cs smCase
			if err := json.Unmarshal(raw, &cs); err != nil {
				return nil, err
			}
			if len(cs.Extra) > 0 {
				return smExtraEval(nil, cs), nil
			}
			return smEval(nil, cs), nil
		}})
}
