package checks

import (
	"encoding/json"
	"errors"
	"fmt"
	"math/rand"
	"regexp"
	"strings"

	"github.com/jsightapi/jsight-schema-core/kit"
	"github.com/jsightapi/jsight-schema-core/notations/jschema"
	"github.com/jsightapi/jsight-schema-core/notations/regex"
	"github.com/jsightapi/jsight-schema-core/openapi"

	"verif/harness/internal/core"
	"verif/harness/internal/tlc"
	"verif/harness/internal/walk"
)

// C18: RegexDelim.tla defines the delimiter scan; TLC dumps its graph; every class string is
// concretised over a regex-relevant alphabet and replayed on notations/regex.

type rxCase struct {
	Text    string `json:"text"`
	DelimOK bool   `json:"delim_ok"`
	PatEnd  int    `json:"pat_end"` // index of the closing slash when DelimOK
}

func rxClass(text string, what string) string {
	// narrow, input-shaped class: the delimiter skeleton of the text (s = slash, b = backslash, x = other; runs collapsed)
	var sb strings.Builder
	prev := byte(0)
	for i := 0; i < len(text) && sb.Len() < 10; i++ {
		k := byte('x')
		if text[i] == '/' {
			k = 's'
		} else if text[i] == '\\' {
			k = 'b'
		}
		if k == 'x' && prev == 'x' {
			continue
		}
		sb.WriteByte(k)
		prev = k
	}
	if text == "" {
		return "regex:" + what + ":empty-text"
	}
	return "regex:" + what + ":" + sb.String()
}

func positioned(err error, textLen int) (string, bool) {
	var je kit.JSchemaError
	if !errors.As(err, &je) {
		return fmt.Sprintf("error is %T, not a positioned diagnostic", err), false
	}
	if textLen > 0 && int(je.Index()) >= textLen {
		return fmt.Sprintf("index %d outside the %d-byte text", je.Index(), textLen), false
	}
	return "", true
}

func rxEval(cs rxCase) []core.Finding {
	return core.Guard("regex", func() []core.Finding {
		var fs []core.Finding
		add := func(what, msg string) {
			fs = append(fs, core.Finding{Class: rxClass(cs.Text, what), What: fmt.Sprintf("regex %q: %s", cs.Text, msg)})
		}
		pattern := ""
		var compiled *regexp.Regexp
		want := false
		if cs.DelimOK {
			pattern = cs.Text[1:cs.PatEnd]
			re, err := regexp.Compile(pattern)
			want = err == nil
			compiled = re
		}
		var checkErr error
		if f := core.Guard("regex.Check", func() []core.Finding { checkErr = regex.New("r", cs.Text).Check(); return nil }); f != nil {
			f[0].Class = rxClass(cs.Text, "panic-in-Check")
			return f
		}
		if want && checkErr != nil {
			add("rejects-valid", fmt.Sprintf("Check() = %v; delimiters are fine and %q compiles", firstLineOf(checkErr), pattern))
			return fs
		}
		if !want && checkErr == nil {
			add("accepts-invalid", fmt.Sprintf("Check() = nil; delimOK=%v pattern=%q", cs.DelimOK, pattern))
			return fs
		}
		if !want {
			if msg, ok := positioned(checkErr, len(cs.Text)); !ok {
				add("rejection-not-positioned", msg)
			}
			// every other operation must fail too, not panic
			rs := regex.New("r", cs.Text)
			if _, err := rs.Len(); err == nil {
				add("len-of-rejected", "Len() succeeds on a rejected schema")
			}
			if _, err := rs.Example(); err == nil {
				add("example-of-rejected", "Example() succeeds on a rejected schema")
			}
			return fs
		}
		rs := regex.New("r", cs.Text)
		if l, err := rs.Len(); err != nil || int(l) != cs.PatEnd+1 {
			add("len", fmt.Sprintf("Len() = %d,%v; delimited length is %d", l, err, cs.PatEnd+1))
		}
		if p, err := rs.Pattern(); err != nil || p != pattern {
			add("pattern", fmt.Sprintf("Pattern() = %q,%v; want %q", p, err, pattern))
		}
		ex, err := rs.Example()
		if err != nil && strings.Contains(err.Error(), "invalid argument to Intn") {
			// one class whatever the shape of the text: the example generator gives up on a character class
			fs = append(fs, core.Finding{Class: "regex:example-error:generator-cannot-draw-from-class", What: fmt.Sprintf("regex %q: Example() error %v", cs.Text, firstLineOf(err))})
		} else if err != nil {
			add("example-error", fmt.Sprintf("Example() error %v", firstLineOf(err)))
		} else if !compiled.Match(ex) {
			add("example-no-match", fmt.Sprintf("Example() = %q does not match %q", ex, pattern))
		}
		ast, err := rs.GetAST()
		if err != nil || ast.Value != "/"+pattern+"/" {
			add("ast", fmt.Sprintf("GetAST().Value = %q,%v; want %q", ast.Value, err, "/"+pattern+"/"))
		}
		// OpenAPI pattern
		func() {
			defer func() {
				if r := recover(); r != nil {
					add("openapi-panic", fmt.Sprint(r))
				}
			}()
			b, err := openapi.NewSchemaObject(regex.New("r", cs.Text)).MarshalJSON()
			if err != nil {
				add("openapi-error", err.Error())
				return
			}
			var o struct {
				Pattern *string `json:"pattern"`
				Type    string  `json:"type"`
			}
			if err := json.Unmarshal(b, &o); err != nil {
				add("openapi-json", fmt.Sprintf("OpenAPI output %s is not JSON: %v", b, err))
				return
			}
			if o.Pattern == nil || *o.Pattern != pattern {
				add("openapi-pattern", fmt.Sprintf("OpenAPI %s does not carry pattern %q", b, pattern))
			}
		}()
		// referring schemas: a value is accepted per the pattern. Only values on which the anchored and the
		// unanchored reading agree are judged.
		if ex != nil && err == nil {
			vals := []string{string(ex), "", "a", "aa", "b", "ab", "/", "."}
			full, ferr := regexp.Compile(`^(?:` + pattern + `)$`)
			for i, v := range vals {
				q, _ := json.Marshal(v)
				if strings.ContainsAny(v, "\n\r") {
					continue
				}
				anywhere := compiled.MatchString(v)
				whole := ferr == nil && full.MatchString(v)
				if anywhere != whole {
					continue
				}
				js := jschema.New("root", string(q)+` // {type: "@r"}`)
				if err := js.AddType("@r", regex.New("r", cs.Text)); err != nil {
					add("addtype", fmt.Sprintf("AddType of an accepted regex schema fails: %v", firstLineOf(err)))
					break
				}
				cerr := js.Check()
				if whole && cerr != nil {
					k := "referring-rejects-match"
					if i == 0 {
						k = "referring-rejects-own-example"
					}
					add(k, fmt.Sprintf("schema %s // {type: \"@r\"} rejected (%v) although the pattern matches", q, firstLineOf(cerr)))
				}
				if !anywhere && cerr == nil {
					add("referring-accepts-nonmatch", fmt.Sprintf("schema %s // {type: \"@r\"} accepted although the pattern does not match", q))
				}
			}
		}
		return fs
	})
}

func runC18(c *core.Ctx) error {
	res, err := tlc.Run(tlc.Opts{Module: "RegexDelim", Cfg: "RegexDelim_graph.cfg", Workers: 2, DumpDot: true, Coverage: c.Thorough()})
	defer res.Cleanup()
	if err != nil {
		return err
	}
	if err := res.MustOK(); err != nil {
		return err
	}
	c.AddTLC("RegexDelim_graph.cfg", res)
	g, err := tlc.LoadDot(res.DotPath)
	if err != nil {
		return err
	}
	a, err := walk.FromGraph(g, "Feed")
	if err != nil {
		return err
	}
	others := []byte("a()[]*+.|")
	n := c.Pick(5, 6)
	type item struct {
		in []int
		st int
	}
	var items []item
	a.AllStrings(n, func(in []int, st []int) { items = append(items, item{append([]int{}, in...), st[len(st)-1]}) })
	c.Set("class_strings", len(items))
	core.ParallelFor(len(items), func(i int) {
		it := items[i]
		// expand class "other" over the regex alphabet: all combinations up to a cap, seeded sample beyond
		var slots []int
		for k, ci := range it.in {
			if a.Classes[ci] == "other" {
				slots = append(slots, k)
			}
		}
		base := make([]byte, len(it.in))
		for k, ci := range it.in {
			switch a.Classes[ci] {
			case "slash":
				base[k] = '/'
			case "bslash":
				base[k] = '\\'
			}
		}
		st := a.State[it.st]
		mk := func(fill []byte) rxCase {
			b := append([]byte{}, base...)
			for j, k := range slots {
				b[k] = fill[j]
			}
			return rxCase{Text: string(b), DelimOK: tlc.Str(st["ctl"]) == "done", PatEnd: tlc.Int(st["patEnd"])}
		}
		total := 1
		for range slots {
			total *= len(others)
			if total > 2000 {
				break
			}
		}
		run := func(cs rxCase) {
			c.CountEval(1)
			c.Nontrivial(tlc.Str(st["ctl"]) + ":" + cs.Text)
			c.Report(cs, rxEval(cs))
		}
		if total <= c.Pick(100, 800) {
			fill := make([]byte, len(slots))
			var rec func(j int)
			rec = func(j int) {
				if j == len(slots) {
					run(mk(fill))
					return
				}
				for _, o := range others {
					fill[j] = o
					rec(j + 1)
				}
			}
			rec(0)
		} else {
			rng := rand.New(rand.NewSource(c.Seed*31 + int64(i)))
			for r := 0; r < c.Pick(60, 400); r++ {
				fill := make([]byte, len(slots))
				for j := range fill {
					fill[j] = others[rng.Intn(len(others))]
				}
				run(mk(fill))
			}
		}
	})
	// generated well-formed patterns
	rng := rand.New(rand.NewSource(c.Seed))
	atoms := []string{"a", "b", "[a-c]", "[0-9]", ".", `\d`, `\w`, `\/`, `\\`, "(ab)", "(a|b)", "x", `\.`, "[/]", `[\]]`,
		// negated and non-ASCII classes, Unicode classes, escapes by number, flags
		`[^a]`, `[^\x00-\x7f]`, `\D`, `\W`, `\S`, `\s`, `[[:alpha:]]`, `[[:^ascii:]]`, `\p{Greek}`, `\P{L}`, `\x41`, `\x{10FFFF}`, `[^\n]`, `(?i)k`, `(?s).`, `\pN`, `[\x{80}-\x{10FFFF}]`, `(?:ab)`, `a*?`, `[^\x00-\x{10FFFE}]`}
	// (word boundaries are left out: `a\bb` matches nothing, and whether a pattern is satisfiable is not decided here)
	quants := []string{"", "", "*", "+", "?", "{2}", "{1,3}"}
	for i := 0; i < c.Pick(2000, 30000); i++ {
		var sb strings.Builder
		if rng.Intn(4) == 0 {
			sb.WriteString("^")
		}
		for k := 1 + rng.Intn(5); k > 0; k-- {
			sb.WriteString(atoms[rng.Intn(len(atoms))])
			sb.WriteString(quants[rng.Intn(len(quants))])
		}
		if rng.Intn(4) == 0 {
			sb.WriteString("$")
		}
		p := sb.String()
		// delimiter position by the specification's rule, computed on the generated text by replaying the automaton
		text := "/" + p + "/" + []string{"", " trailing", "/x"}[rng.Intn(3)]
		in := make([]int, 0, len(text))
		for k := 0; k < len(text); k++ {
			switch text[k] {
			case '/':
				in = append(in, a.CIdx["slash"])
			case '\\':
				in = append(in, a.CIdx["bslash"])
			default:
				in = append(in, a.CIdx["other"])
			}
		}
		cs := rxCase{Text: text, DelimOK: true, PatEnd: rxPatEnd(text)}
		_ = in
		c.CountEval(1)
		c.Report(cs, rxEval(cs))
	}
	c.Sample(rxCase{Text: `/a\/b/`, DelimOK: true, PatEnd: 5})
	// call histories (SchemaApi_regex.cfg): results do not depend on earlier calls, returned values stay intact
	if err := runObjHistories(c, objKinds["regex"], objPairs([]string{"/^(ab|cdef|ghijkl|[0-9]{8})$/", "/a+b/", "/[a-z]{3,5}/", "/a/ x", "/(/", "//", "/a\\/b/", "/x|yy|zzz|wwww/", "/^[A-Z][a-z]{2,9}$/", "", "/a"}, c.Pick(11, 44), c.Seed)); err != nil {
		return err
	}
	c.Set("rule", "every class string <= N of the TLC-dumped RegexDelim automaton, class 'other' expanded over {a ( ) [ ] * + . |} (exhaustively when small, seeded sample otherwise), plus generated well-formed patterns with trailing text; each replayed: Check/Len/Pattern/Example/GetAST/OpenAPI pattern/referring schema. distinct_nontrivial = distinct (automaton state, text) pairs")
	c.Assume = append(c.Assume, "validity and matching of regular expressions are Go regexp's (DESIGN §2.5)",
		"referring-schema values are judged only where anchored and unanchored matching agree")
	return nil
}

// rxPatEnd applies RegexDelim's rule to a long text (the graph is bounded by MaxLen): index of the first unescaped '/' after position 0.
func rxPatEnd(text string) int {
	esc := false
	for i := 1; i < len(text); i++ {
		switch {
		case esc:
			esc = false
		case text[i] == '\\':
			esc = true
		case text[i] == '/':
			return i
		}
	}
	return -1
}

func init() {
	register(&core.Check{ID: "C18", Level: "model_checking", Run: runC18,
		Replay: func(c *core.Ctx, raw json.RawMessage) ([]core.Finding, error) {
			if fs, ok := objReplayCase(raw); ok {
				return fs, nil
			}
			var cs rxCase
			if err := json.Unmarshal(raw, &cs); err != nil {
				return nil, err
			}
			return rxEval(cs), nil
		}})
}
