package checks

import (
	"encoding/json"
	"fmt"
	"github.com/jsightapi/jsight-schema-core/notations/jschema"
	"os"
	"sort"
	"strings"
	"sync"
	"time"

	"verif/harness/internal/core"
	"verif/harness/internal/tlc"
)

// C10: histories enumerated by TLC from SchemaApi.tla are replayed sequentially in worker processes;
// held results must stay intact, every result must equal the fresh-object reference, and the pool
// events observed through the verif hooks are validated by TLC against PoolsTrace.

func init() {
	core.Workers["c10"] = func(raw json.RawMessage) core.WorkerOut {
		c10WorkerInit()
		var sw struct {
			Sweep int `json:"sweep"`
		}
		if json.Unmarshal(raw, &sw) == nil && sw.Sweep > 0 {
			return core.WorkerOut{Findings: apiSweep(sw.Sweep), Keys: []string{fmt.Sprint("sweep", sw.Sweep)}}
		}
		var h apiHist
		if err := json.Unmarshal(raw, &h); err != nil {
			return core.WorkerOut{Findings: []core.Finding{{Class: "harness", What: err.Error()}}}
		}
		fs, lines := apiReplay(h)
		return core.WorkerOut{Findings: fs, Lines: lines, Keys: []string{apiHistKey(h)}}
	}
	register(&core.Check{ID: "C10", Level: "model_checking", Run: runC10,
		Replay: func(c *core.Ctx, raw json.RawMessage) ([]core.Finding, error) {
			c10WorkerInit()
			var h apiHist
			if err := json.Unmarshal(raw, &h); err != nil {
				return nil, err
			}
			h.Trace = true
			fs, lines := apiReplay(h)
			if len(lines) > 0 {
				bl := make([][]byte, len(lines))
				for i := range lines {
					bl[i] = []byte(lines[i])
				}
				bad, res, err := tlc.ValidateTrace("PoolsTrace", "PoolsTrace.cfg", bl, nil)
				if res != nil {
					res.Cleanup()
				}
				if err != nil {
					return nil, err
				}
				for _, b := range bad {
					fs = append(fs, core.Finding{Class: "pools-trace", What: "PoolsTrace rejects " + lines[b-1]})
				}
			}
			return fs, nil
		}})
}

var c10Once sync.Once

func c10WorkerInit() {
	c10Once.Do(func() {
		var contents []string
		for k := range apiTexts {
			contents = append(contents, k)
		}
		apiPrecompute(contents, 1)
		pools.install()
	})
}

// apiSweep repeats one project - a root and the type with two defective internal types - n times in a row and, now
// and then, a project that creates two internal types, so that whatever the process counts (names, pooled objects,
// sizes of caches) passes its thresholds at every alignment. SchemaApi.tla: every repetition answers like the first.
func apiSweep(n int) []core.Finding {
	obs := func() string {
		root := jschema.New("schema-shallow", apiTexts["shallow"])
		_ = root.AddType("@typeC", jschema.New("schema-typeC", apiTexts["typeC"]))
		return errObs(root.Check()) + " | " + func() string { b, err := root.Example(); return string(b) + " " + errObs(err) }()
	}
	first := obs()
	for i := 1; i < n; i++ {
		if i%30 == 0 {
			_ = jschema.New("filler", "{\n  \"p\": @x | @y\n}").Check()
		}
		if o := obs(); o != first {
			return []core.Finding{{Class: "api:history-dependent:Check:typeC:repetition", What: fmt.Sprintf("repetition %d of the same project in one process answers %.300q, the first one %.300q", i, o, first)}}
		}
	}
	return nil
}

func apiHistKey(h apiHist) string {
	var sb strings.Builder
	for _, s := range h.Hist {
		sb.WriteString(s.Op[:2])
		sb.WriteString(s.Obj)
		sb.WriteString(s.Arg)
		sb.WriteByte(';')
	}
	return sb.String()
}

func poolsTraceClass(line string) string {
	switch {
	case strings.Contains(line, `"ev":"ret"`) && !strings.Contains(line, `"alias":-1`):
		return "pools-trace:result-aliases-pooled-buffer"
	case strings.Contains(line, `"ev":"ret"`) && strings.Contains(line, `"same":false`):
		return "pools-trace:held-result-changed"
	case strings.Contains(line, `"ev":"ret"`):
		return "pools-trace:buffers-not-returned"
	case strings.Contains(line, `"ev":"get"`):
		return "pools-trace:buffer-handed-out-twice"
	case strings.Contains(line, `"ev":"put"`):
		return "pools-trace:put-by-non-holder"
	}
	return "pools-trace:other"
}

func runC10(c *core.Ctx) error {
	// design level: the pool refinement with copies is safe; with aliases TLC predicts the defect
	for _, cfg := range []string{"Pools_copy.cfg"} {
		r, err := tlc.Run(tlc.Opts{Module: "Pools", Cfg: cfg, Workers: 8})
		r.Cleanup()
		if err != nil {
			return err
		}
		if err := r.MustOK(); err != nil {
			return err
		}
		c.AddTLC(cfg, r)
	}
	ra, err := tlc.Run(tlc.Opts{Module: "Pools", Cfg: "Pools_alias.cfg", Workers: 1})
	ra.Cleanup()
	if err != nil {
		return err
	}
	if ra.Violated == "" {
		return fmt.Errorf("negative control: Pools with ReturnAlias=TRUE should violate NoLiveAlias/HeldStable")
	}
	c.Set("negative_control", "Pools_alias.cfg violates "+ra.Violated+" as expected")
	// histories
	cfg := "SchemaApi_quick.cfg"
	if c.Thorough() {
		cfg = "SchemaApi_thorough.cfg"
	}
	var cases []json.RawMessage
	traced := 0
	maxTrace := c.Pick(2500, 12000)
	stride := c.Pick(97, 251)
	n := 0
	// traced: a stride sample, and every history that holds a call (operation, content of the object, contents
	// registered on it) no traced history has shown yet - so that every such call is validated by TLC at least once
	seenSig := map[string]bool{}
	var sigMu sync.Mutex
	newSig := func(l string) bool {
		var h apiHist
		if json.Unmarshal([]byte(l), &h) != nil {
			return false
		}
		content := map[string]string{}
		regs := map[string][]string{}
		fresh := false
		for _, st := range h.Hist {
			switch st.Op {
			case "New":
				content[st.Obj] = st.Arg
			case "AddType":
				regs[st.Obj] = append(regs[st.Obj], content[st.Arg])
			default:
				r := append([]string{}, regs[st.Obj]...)
				sort.Strings(r)
				sig := st.Op + "|" + content[st.Obj] + "|" + strings.Join(r, ",")
				if !seenSig[sig] {
					seenSig[sig] = true
					fresh = true
				}
			}
		}
		return fresh
	}
	res, err := tlc.Run(tlc.Opts{Module: "SchemaApi", Cfg: cfg, Workers: 16, Timeout: 40 * time.Minute, OnLine: func(l string) {
		sigMu.Lock()
		defer sigMu.Unlock()
		n++
		if ((n+int(c.Seed))%stride == 0 && traced < maxTrace) || newSig(l) {
			traced++
			l = l[:len(l)-1] + `,"trace":true}`
		}
		cases = append(cases, json.RawMessage(l))
	}})
	res.Cleanup()
	if err != nil {
		return err
	}
	if err := res.MustOK(); err != nil {
		return err
	}
	c.AddTLC(cfg, res)
	// a type object shared by two roots (SchemaApi_shared.cfg): complete on one, incomplete on the other
	shared, err := tlc.Run(tlc.Opts{Module: "SchemaApi", Cfg: "SchemaApi_shared.cfg", Workers: 16, Timeout: 40 * time.Minute, OnLine: func(l string) {
		n++
		if !c.Thorough() && (n+int(c.Seed))%2 != 0 {
			return
		}
		cases = append(cases, json.RawMessage(l))
	}})
	shared.Cleanup()
	if err != nil {
		return err
	}
	if err := shared.MustOK(); err != nil {
		return err
	}
	c.AddTLC("SchemaApi_shared.cfg", shared)
	// one type object shared by two roots that define the type it refers to differently (SchemaApi_shareditem.cfg)
	sharedItem, err := tlc.Run(tlc.Opts{Module: "SchemaApi", Cfg: "SchemaApi_shareditem.cfg", Workers: 16, Timeout: 40 * time.Minute, OnLine: func(l string) {
		n++
		// the histories of interest have both roots complete and both asked
		if strings.Count(l, `"op":"Example"`) < 2 || strings.Count(l, `"op":"AddType"`) < 4 {
			return
		}
		if !c.Thorough() && (n+int(c.Seed))%3 != 0 {
			return
		}
		cases = append(cases, json.RawMessage(l))
	}})
	sharedItem.Cleanup()
	if err != nil {
		return err
	}
	if err := sharedItem.MustOK(); err != nil {
		return err
	}
	c.AddTLC("SchemaApi_shareditem.cfg", sharedItem)
	sharedParent, err := tlc.Run(tlc.Opts{Module: "SchemaApi", Cfg: "SchemaApi_sharedparent.cfg", Workers: 16, Timeout: 40 * time.Minute, OnLine: func(l string) {
		n++
		// the histories of interest register the shared parent on both roots and ask both
		if strings.Count(l, `"op":"AddType"`) < 3 {
			return
		}
		if !c.Thorough() && (n+int(c.Seed))%4 != 0 {
			return
		}
		cases = append(cases, json.RawMessage(l))
	}})
	sharedParent.Cleanup()
	if err != nil {
		return err
	}
	if err := sharedParent.MustOK(); err != nil {
		return err
	}
	c.AddTLC("SchemaApi_sharedparent.cfg", sharedParent)
	c.Set("histories", len(cases))
	// repetition sweeps, spread over the worker processes
	for i := 0; i < 48; i++ {
		k := (i*len(cases))/48 + i
		sweep := json.RawMessage(fmt.Sprintf(`{"sweep":%d}`, 3000+i))
		if k >= len(cases) {
			cases = append(cases, sweep)
		} else {
			cases = append(cases[:k], append([]json.RawMessage{sweep}, cases[k:]...)...)
		}
	}
	var mu sync.Mutex
	var traceLines [][]byte
	var traceCase []int // case index per line
	err = c.RunSharded(cases, core.ShardOpts{Worker: "c10", Env: []string{"GOMAXPROCS=1"}, OnOut: func(o core.WorkerOut, raw json.RawMessage) {
		if len(o.Lines) == 0 {
			return
		}
		mu.Lock()
		for _, l := range o.Lines {
			traceLines = append(traceLines, []byte(l))
			traceCase = append(traceCase, len(traceLines))
		}
		mu.Unlock()
	}})
	if err != nil {
		return err
	}
	if len(traceLines) > 0 {
		bad, tr, err := tlc.ValidateTrace("PoolsTrace", "PoolsTrace.cfg", traceLines, nil)
		if tr != nil {
			c.AddTLC("PoolsTrace.cfg", tr)
			tr.Cleanup()
		}
		if err != nil {
			return err
		}
		c.AddInt("traces_validated_against_impl", int64(traced))
		c.Set("pool_trace_events", len(traceLines))
		for _, b := range bad {
			line := string(traceLines[b-1])
			c.Report(map[string]any{"trace_line": line, "line_no": b}, []core.Finding{{Class: poolsTraceClass(line), What: "PoolsTrace does not explain event " + line}})
		}
	}
	if len(cases) > 0 {
		c.Sample(cases[len(cases)/3])
	}
	c.Set("rule", "every behaviour of SchemaApi.tla with at least one call (objects created in fixed order, contents from an 8-text catalogue incl. scanner/loader/checker failures and a type reference, calls Check/Example/GetAST/Len/Used/OpenAPI/AddType) replayed sequentially in worker processes (GOMAXPROCS=1): results compared with fresh-object references, all held results re-read after every call; a stride sample of histories also records pool Get/Put/return events through the verif hooks, validated by TLC against PoolsTrace. distinct_nontrivial = distinct histories")
	_ = os.Getenv
	return nil
}
