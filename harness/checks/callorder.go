package checks

import (
	"encoding/json"
	"fmt"
	"strings"
	"sync"

	"github.com/jsightapi/jsight-schema-core/notations/jschema"
	"github.com/jsightapi/jsight-schema-core/openapi"

	"verif/harness/internal/tlc"
)

// Call-order independence for the semantic checks.  SchemaApi.tla states that the result of a public
// call is a function of the object's text and registrations only; the semantic checks (C01, C03-C08)
// therefore repeat their assertions on a second object that has already answered a prefix of other
// public calls.  The prefixes are the histories TLC enumerates from SchemaApi.tla with one object
// (SchemaApi_orders.cfg): every sequence of one or two calls, 42 in all.

var (
	callOrdersOnce sync.Once
	callOrders     [][]string
	callOrdersErr  error
)

// loadCallOrders runs TLC once per process.
func loadCallOrders() ([][]string, error) {
	callOrdersOnce.Do(func() {
		seen := map[string]bool{}
		res, err := tlc.Run(tlc.Opts{Module: "SchemaApi", Cfg: "SchemaApi_orders.cfg", Workers: 1, OnLine: func(l string) {
			var h apiHist
			if json.Unmarshal([]byte(l), &h) != nil {
				return
			}
			var ops []string
			for _, st := range h.Hist {
				if st.Op != "New" {
					ops = append(ops, st.Op)
				}
			}
			k := strings.Join(ops, ",")
			if len(ops) > 0 && !seen[k] {
				seen[k] = true
				callOrders = append(callOrders, ops)
			}
		}})
		if res != nil {
			defer res.Cleanup()
		}
		if err == nil {
			err = res.MustOK()
		}
		if err == nil && len(callOrders) != 42 {
			err = fmt.Errorf("SchemaApi_orders: %d call prefixes, expected 42", len(callOrders))
		}
		callOrdersErr = err
	})
	return callOrders, callOrdersErr
}

// callPrefix picks the prefix for case number i (all prefixes are used in rotation).
func callPrefix(i int, seed int64) []string {
	if len(callOrders) == 0 {
		return nil
	}
	n := (i*5 + int(seed%97)) % len(callOrders)
	if n < 0 {
		n += len(callOrders)
	}
	return callOrders[n]
}

// warmUp makes s answer the calls of the prefix; results are discarded, panics are reported.
func warmUp(s *jschema.JSchema, prefix []string) (panicked string) {
	defer func() {
		if r := recover(); r != nil {
			panicked = firstLineStr(fmt.Sprint(r))
		}
	}()
	for _, op := range prefix {
		switch op {
		case "Check":
			_ = s.Check()
		case "Example":
			_, _ = s.Example()
		case "GetAST":
			_, _ = s.GetAST()
		case "Len":
			_, _ = s.Len()
		case "Used":
			_, _ = s.UsedUserTypes()
		case "OpenAPI":
			if s.Check() == nil {
				_, _ = openapi.NewSchemaObject(s).MarshalJSON()
			}
		}
	}
	return ""
}

func prefixName(prefix []string) string {
	if len(prefix) == 0 {
		return ""
	}
	return ":after-" + strings.Join(prefix, "+")
}
