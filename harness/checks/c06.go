package checks

import (
	"bytes"
	"encoding/json"
	"fmt"
	"sort"
	"strings"
	"time"

	"github.com/jsightapi/jsight-schema-core/notations/jschema"

	"verif/harness/internal/core"
	"verif/harness/internal/tlc"
)

// C06: TypeGraph.tla enumerates reference graphs with Finite / SelfRequiring; each is printed as a
// project and replayed: Check() and, when it passes, Example() under a time bound.

type tgProp struct {
	K string `json:"k"`
	T int    `json:"t"`
	U int    `json:"u"`
	M string `json:"m"`
}

type tgCase struct {
	Rev bool `json:"rev,omitempty"` // print properties (and choice alternatives) in reverse order
	// RootAlias: the root is registered under a second name as well and every link to the root is written with that
	// name (TypeGraph.tla speaks of types, not of names: which of its names a link uses does not matter)
	RootAlias string              `json:"rootalias,omitempty"`
	Types     map[string][]tgProp `json:"types"`
	Forms     map[string]string   `json:"forms,omitempty"`      // "object" (default) | "nullable-object" | "alias" | "nullable-alias"
	OptDef    bool                `json:"optdefault,omitempty"` // every schema object is created with AreKeysOptionalByDefault
	Finite    bool                `json:"finite"`
	SelfReq   bool                `json:"selfreq"`
	Cycle     bool                `json:"cycle"`
}

func tgName(i int) string {
	if i == 0 {
		return "@main"
	}
	return fmt.Sprintf("@t%d", i)
}

func tgText(props []tgProp, form string) string {
	switch form {
	case "alias":
		return tgName(props[0].T)
	case "nullable-alias":
		return tgName(props[0].T) + " // {nullable: true}"
	case "choice":
		return tgName(props[0].T) + " | " + tgName(props[0].U)
	}
	rootAnn := ""
	if form == "nullable-object" {
		rootAnn = " // {nullable: true}"
	}
	if len(props) == 0 {
		return "{}" + rootAnn
	}
	// stable order: as emitted (TLC prints sets in a deterministic order)
	var lines []string
	for i, p := range props {
		var v, ann string
		switch p.K {
		case "scopt":
			// a mandatory literal key spelled like the shortcut, then the optional shortcut property itself
			lines = append(lines, fmt.Sprintf("  \"@k%d\": %d,", i, i))
			lines = append(lines, fmt.Sprintf("  @k%d: %s%s // {optional: true}", i, tgName(p.T), map[bool]string{true: "", false: ","}[i == len(props)-1]))
			continue
		case "scalar":
			v = "1"
		case "choice":
			v = tgName(p.T) + " | " + tgName(p.U)
			if p.M == "mixed" {
				ann = " // {type: \"mixed\"}"
			}
		default:
			v = tgName(p.T)
			switch p.M {
			case "optional":
				ann = " // {optional: true}"
			case "required":
				ann = " // {optional: false}"
			case "nullable":
				ann = " // {nullable: true}"
			case "array":
				v = "[" + v + "]"
			case "arraymin":
				sep := ","
				if i == len(props)-1 {
					sep = ""
				}
				lines = append(lines, fmt.Sprintf("  \"p%d\": [ // {minItems: 1}\n    %s,\n    \"leaf\"\n  ]%s", i, v, sep))
				continue
			}
		}
		sep := ","
		if i == len(props)-1 {
			sep = ""
		}
		lines = append(lines, fmt.Sprintf("  \"p%d\": %s%s%s", i, v, sep, ann))
	}
	return "{" + rootAnn + "\n" + strings.Join(lines, "\n") + "\n}"
}

func tgShape(cs tgCase) string {
	// cycle structure for finding classes: length of the shortest mandatory plain cycle through the root, if any
	n := len(cs.Types)
	dist := map[int]int{}
	frontier := []int{}
	for _, p := range cs.Types["0"] {
		if p.K == "ref" && p.M == "plain" {
			if _, ok := dist[p.T]; !ok {
				dist[p.T] = 1
				frontier = append(frontier, p.T)
			}
		}
	}
	for len(frontier) > 0 {
		t := frontier[0]
		frontier = frontier[1:]
		if t == 0 {
			return fmt.Sprintf("plain-cycle-through-root-of-length-%d", dist[0])
		}
		for _, p := range cs.Types[fmt.Sprint(t)] {
			if p.K == "ref" && p.M == "plain" {
				if _, ok := dist[p.T]; !ok {
					dist[p.T] = dist[t] + 1
					frontier = append(frontier, p.T)
				}
			}
		}
	}
	_ = n
	return "no-plain-cycle-through-root"
}

func tgEval(cs tgCase) []core.Finding {
	return core.Guard("typegraph", func() []core.Finding {
		var fs []core.Finding
		var names []string
		for k := range cs.Types {
			names = append(names, k)
		}
		sort.Strings(names)
		if cs.Rev {
			rt := map[string][]tgProp{}
			for k, ps := range cs.Types {
				var r []tgProp
				for i := len(ps) - 1; i >= 0; i-- {
					p := ps[i]
					if p.K == "choice" {
						p.T, p.U = p.U, p.T
					}
					r = append(r, p)
				}
				rt[k] = r
			}
			cs.Types = rt
		}
		al := func(t string) string {
			if cs.RootAlias != "" {
				return strings.ReplaceAll(t, "@main", cs.RootAlias)
			}
			return t
		}
		root := jschema.New("@main", al(tgText(cs.Types["0"], cs.Forms["0"])))
		root.AreKeysOptionalByDefault = cs.OptDef
		for _, k := range names {
			if k == "0" {
				continue
			}
			var i int
			fmt.Sscan(k, &i)
			ty := jschema.New(tgName(i), al(tgText(cs.Types[k], cs.Forms[k])))
			ty.AreKeysOptionalByDefault = cs.OptDef
			if err := root.AddType(tgName(i), ty); err != nil {
				return []core.Finding{{Class: "typegraph:addtype", What: fmt.Sprintf("AddType(%s) failed: %v", tgName(i), firstLineOf(err))}}
			}
		}
		if dump := tgDump(cs); strings.Contains(dump, "\"@k") {
			for i := 0; i < 3; i++ {
				kn := fmt.Sprintf("@k%d", i)
				if err := root.AddType(kn, jschema.New(kn, fmt.Sprintf(`"kk%d"`, i))); err != nil {
					return []core.Finding{{Class: "typegraph:addtype", What: fmt.Sprintf("AddType(%s) failed: %v", kn, firstLineOf(err))}}
				}
			}
		}
		if err := root.AddType("@main", root); err != nil {
			return []core.Finding{{Class: "typegraph:addtype-self", What: fmt.Sprintf("AddType(@main) failed: %v", firstLineOf(err))}}
		}
		if cs.RootAlias != "" {
			if err := root.AddType(cs.RootAlias, root); err != nil {
				return []core.Finding{{Class: "typegraph:addtype-self", What: fmt.Sprintf("AddType(%s) failed: %v", cs.RootAlias, firstLineOf(err))}}
			}
		}
		err := root.Check()
		is104 := err != nil && errCode(err) == 104
		if err != nil && !is104 && !strings.Contains(err.Error(), "infinite type recursion") {
			return []core.Finding{{Class: "typegraph:other-error", What: fmt.Sprintf("generated project rejected for another reason: %v\n%s", firstLineOf(err), tgDump(cs))}}
		}
		is104 = err != nil
		if cs.Finite && is104 {
			fs = append(fs, core.Finding{Class: "recursion:false-alarm:" + tgShape(cs), What: fmt.Sprintf("root has a finite instance but Check() = %v\n%s", firstLineOf(err), tgDump(cs))})
		}
		if cs.SelfReq && !is104 {
			fs = append(fs, core.Finding{Class: "recursion:missed:" + tgShape(cs), What: fmt.Sprintf("root requires itself through mandatory plain links but Check() = nil\n%s", tgDump(cs))})
		}
		if err == nil {
			done := make(chan struct{})
			var ex []byte
			var exErr error
			var pn any
			go func() {
				defer close(done)
				defer func() { pn = recover() }()
				ex, exErr = root.Example()
			}()
			select {
			case <-done:
				if pn != nil {
					fs = append(fs, core.Finding{Class: "example:panic", What: fmt.Sprintf("Example() panicked: %v\n%s", pn, tgDump(cs))})
				} else if exErr != nil {
					fs = append(fs, core.Finding{Class: "example:error-after-check-passed", What: fmt.Sprintf("Check() passed but Example() = %v\n%s", firstLineOf(exErr), tgDump(cs))})
				} else if !json.Valid(ex) {
					cl := "example:not-json"
					if bytes.Contains(ex, []byte(",}")) || bytes.Contains(ex, []byte(",]")) {
						cl = "example:not-json:dangling-comma"
					}
					fs = append(fs, core.Finding{Class: cl, What: fmt.Sprintf("Example() = %.200q is not RFC 8259 JSON\n%s", ex, tgDump(cs))})
				}
			case <-time.After(20 * time.Second):
				fs = append(fs, core.Finding{Class: "example:does-not-terminate", What: "Example() did not return within 20s\n" + tgDump(cs)})
			}
		}
		return fs
	})
}

// tgVerdict: "104" | "accepted" | another error, of the project printed from cs.
func tgVerdict(cs tgCase) (v string) {
	defer func() {
		if r := recover(); r != nil {
			v = "panic"
		}
	}()
	root := jschema.New("@main", tgText(cs.Types["0"], cs.Forms["0"]))
	root.AreKeysOptionalByDefault = cs.OptDef
	for k := range cs.Types {
		if k == "0" {
			continue
		}
		var i int
		fmt.Sscan(k, &i)
		ty := jschema.New(tgName(i), tgText(cs.Types[k], cs.Forms[k]))
		ty.AreKeysOptionalByDefault = cs.OptDef
		if err := root.AddType(tgName(i), ty); err != nil {
			return "addtype-error"
		}
	}
	if err := root.AddType("@main", root); err != nil {
		return "addtype-error"
	}
	err := root.Check()
	switch {
	case err == nil:
		return "accepted"
	case errCode(err) == 104 || strings.Contains(err.Error(), "infinite type recursion"):
		return "104"
	}
	return fmt.Sprintf("error-%d", errCode(err))
}

func tgDump(cs tgCase) string {
	var sb strings.Builder
	var names []string
	for k := range cs.Types {
		names = append(names, k)
	}
	sort.Strings(names)
	for _, k := range names {
		var i int
		fmt.Sscan(k, &i)
		fmt.Fprintf(&sb, "TYPE %s %s\n", tgName(i), strings.ReplaceAll(tgText(cs.Types[k], cs.Forms[k]), "\n", " "))
	}
	return sb.String()
}

func runC06(c *core.Ctx) error {
	type cfgT struct {
		name, body string
		sample     int // replay every k-th uninteresting graph
	}
	allModes := `{"plain", "optional", "nullable", "array"}`
	mko := func(n, mr, mo int, ring bool, modes string, fat int, forms string, optdef string) string {
		r := "FALSE"
		if ring {
			r = "TRUE"
		}
		return fmt.Sprintf("SPECIFICATION Spec\nCONSTANTS\n  N = %d\n  MaxRoot = %d\n  MaxOther = %d\n  Ring = %s\n  ModesUsed = %s\n  FatTypes = %d\n  RootForms = %s\n  OptionalByDefault = %s\nINVARIANTS Theorem FixIsFixpoint NoRefsAreFinite NullableRootsAreFinite Emit\nCHECK_DEADLOCK FALSE\n", n, mr, mo, r, modes, fat, forms, optdef)
	}
	mkf := func(n, mr, mo int, ring bool, modes string, fat int, forms string) string {
		return mko(n, mr, mo, ring, modes, fat, forms, "FALSE")
	}
	mkx := func(n, mr, mo int, ring bool, modes string, fat int) string {
		return mkf(n, mr, mo, ring, modes, fat, `{"object"}`)
	}
	allForms := `{"object", "nullable-object", "alias", "nullable-alias", "choice"}`
	mk := func(n, mr, mo int, ring bool) string { return mkx(n, mr, mo, ring, allModes, 0) }
	// 4 types, requirement edges only (plain references and choices), one non-root type as large as the root:
	// the graphs where a memoising or order-dependent walk goes wrong
	cfgs := []cfgT{{"TypeGraph_3_2_1.cfg", mk(3, 2, 1, false), 1}, {"TypeGraph_ring4.cfg", mk(4, 1, 1, true), 1}, {"TypeGraph_ring5.cfg", mk(5, 1, 1, true), 1},
		{"TypeGraph_4_plain_fat1.cfg", mkx(4, 2, 1, false, `{"plain"}`, 1), 1},
		// what the root node of a type may be: nullable objects and aliases, among 3 types and on rings of 4
		{"TypeGraph_3_forms.cfg", mkf(3, 1, 1, false, `{"plain", "nullable", "mixed"}`, 0, allForms), 1}, {"TypeGraph_ring4_forms.cfg", mkf(4, 1, 1, true, `{"plain"}`, 0, allForms), 1},
		// optional key-shortcut links next to a literal key of the same spelling
		{"TypeGraph_3_shortcut.cfg", mkx(3, 2, 1, false, `{"plain", "shortcut"}`, 0), 1},
		// references inside arrays that must not be empty, next to a finite element
		{"TypeGraph_3_arraymin.cfg", mkx(3, 2, 1, false, `{"plain", "arraymin"}`, 0), 1},
		// schemas whose keys are optional by default: a link is mandatory only with `optional: false`
		{"TypeGraph_3_optdefault.cfg", mko(3, 2, 1, false, `{"plain", "required", "nullable"}`, 0, `{"object"}`, "TRUE"), 1},
		{"TypeGraph_ring4_optdefault.cfg", mko(4, 1, 1, true, `{"plain", "required"}`, 0, `{"object"}`, "TRUE"), 1}}
	if c.Thorough() {
		cfgs = append(cfgs, cfgT{"TypeGraph_3_2_2.cfg", mk(3, 2, 2, false), 7}, cfgT{"TypeGraph_ring6.cfg", mk(6, 1, 1, true), 3}, cfgT{"TypeGraph_4_1_1.cfg", mk(4, 1, 1, false), 1},
			cfgT{"TypeGraph_4_plainopt_fat1.cfg", mkx(4, 2, 1, false, `{"plain", "optional"}`, 1), 2}, cfgT{"TypeGraph_4_plain_fat2.cfg", mkx(4, 2, 1, false, `{"plain"}`, 2), 3},
			cfgT{"TypeGraph_3_2_1_forms.cfg", mkf(3, 2, 1, false, allModes, 0, allForms), 3})
	}
	for _, cf := range cfgs {
		var cases []tgCase
		n := 0
		res, err := tlc.Run(tlc.Opts{Module: "TypeGraph", Cfg: cf.name, Workers: 16, Timeout: 0, HeapGB: 12, Files: map[string][]byte{cf.name: []byte(cf.body)}, OnLine: func(l string) {
			var cs tgCase
			if err := json.Unmarshal([]byte(l), &cs); err != nil {
				c.InfraError("bad graph %s: %v", l, err)
				return
			}
			n++
			interesting := cs.SelfReq || !cs.Finite || cs.Cycle
			if interesting || (n+int(c.Seed))%cf.sample == 0 {
				cases = append(cases, cs)
			}
		}})
		res.Cleanup()
		if err != nil {
			return err
		}
		if err := res.MustOK(); err != nil {
			return err
		}
		c.AddTLC(cf.name, res)
		if len(cases) == 0 {
			return fmt.Errorf("%s emitted no graph", cf.name)
		}
		core.ParallelFor(len(cases), func(i int) {
			cs := cases[i]
			c.CountEval(1)
			if cs.SelfReq || !cs.Finite || cs.Cycle {
				c.Nontrivial(cf.name + tgDump(cs))
			}
			c.Report(cs, tgEval(cs))
			// the verdict may not depend on the order in which properties and alternatives are written
			cr := cs
			cr.Rev = true
			c.CountEval(1)
			c.Report(cr, tgEval(cr))
			// a choice that carries an explicit `type: "mixed"` says the same thing twice (TypeGraph.tla, mode "mixed"):
			// the verdict is that of the same graph without the annotation
			hasMixed := false
			plain := tgCase{Types: map[string][]tgProp{}, Forms: cs.Forms, OptDef: cs.OptDef, Finite: cs.Finite, SelfReq: cs.SelfReq, Cycle: cs.Cycle}
			for k, ps := range cs.Types {
				plain.Types[k] = []tgProp{}
				for _, p := range ps {
					if p.K == "choice" && p.M == "mixed" {
						hasMixed = true
						p.M = "plain"
					}
					plain.Types[k] = append(plain.Types[k], p)
				}
			}
			if hasMixed {
				c.CountEval(1)
				a, b := tgVerdict(cs), tgVerdict(plain)
				if a != b {
					c.Report(cs, []core.Finding{{Class: "recursion:mixed-annotation-changes-the-verdict", What: fmt.Sprintf("with `type: \"mixed\"` on the choices Check() = %s, without it %s\n%s", a, b, tgDump(cs))}})
				}
			}
			// nor on the name under which the root is referred to, when it is registered under two
			if cs.Cycle && i%2 == 0 {
				ca := cs
				ca.RootAlias = []string{"@zmain", "@amain"}[(i/2)%2]
				c.CountEval(1)
				c.Report(ca, tgEval(ca))
			}
		})
		c.Set("graphs_replayed_"+cf.name, len(cases))
		if cf.name == "TypeGraph_ring4.cfg" {
			c.Sample(strings.Split(tgDump(cases[len(cases)/2]), "\n"))
		}
	}
	c.Set("rule", "every graph of TypeGraph.tla (3 types with <=2/<=1(2) properties out of scalar, references plain/optional/nullable/array, choices; rings with chords of 4-6 types) is judged by TLC (Finite, SelfRequiring, theorem SelfRequiring => ~Finite) and printed as a project with the root registered under its own name; every graph with a cycle, a self-requiring or infinite root is replayed (the rest sampled): 104 iff demanded, Example() of an accepted project returns RFC 8259 JSON in time. distinct_nontrivial = distinct interesting graphs")
	c.Assume = append(c.Assume, "key-shortcut properties are not used as edges", "nothing is demanded of Check() for graphs whose root is infinite but not self-requiring through plain references")
	return nil
}

func init() {
	register(&core.Check{ID: "C06", Level: "model_checking", Run: runC06,
		Replay: func(c *core.Ctx, raw json.RawMessage) ([]core.Finding, error) {
			var cs tgCase
			if err := json.Unmarshal(raw, &cs); err != nil {
				return nil, err
			}
			return tgEval(cs), nil
		}})
}
