package checks

import (
	"encoding/json"
	"fmt"
	"sort"
	"strings"
	"time"

	"github.com/jsightapi/jsight-schema-core/notations/jschema"
	"github.com/jsightapi/jsight-schema-core/notations/jschema/ischema"
	"github.com/jsightapi/jsight-schema-core/notations/jschema/ischema/constraint"
	"github.com/jsightapi/jsight-schema-core/openapi"

	"verif/harness/internal/core"
	"verif/harness/internal/tlc"
)

// C07: AllOf.tla enumerates inheritance projects with the merged key list and the refusal classes;
// each is printed and replayed: verdict/code, Example() keys, OpenAPI property listing, InheritedFrom.

type aoKey struct {
	K   string   `json:"k"`
	Opt bool     `json:"opt"`
	Sub []string `json:"sub,omitempty"` // own key whose value is { // {allOf: "@x"} "n": 0 }
	NK  []string `json:"nk,omitempty"`  // merged key names of that nested heir
}
type aoDef struct {
	Kind  string   `json:"kind"`
	Own   []aoKey  `json:"own"`
	AllOf []string `json:"allOf"`
	AP    string   `json:"ap"`
}
type aoCase struct {
	Types []struct {
		Name string `json:"name"`
		D    aoDef  `json:"d"`
	} `json:"types"`
	Root     aoDef    `json:"root"`
	Refusals []string `json:"refusals"`
	Keys     []aoKey  `json:"keys"`
	Origin   []struct {
		Via    string `json:"via"`
		Origin string `json:"origin"`
	} `json:"origin"`
	Alts []struct {
		Name string  `json:"name"`
		Keys []aoKey `json:"keys"`
	} `json:"alts"` // a choice root `@x | @y`: the listing of each alternative
	Warm    []string `json:"warm,omitempty"`    // call prefix (SchemaApi_orders) after which the assertions are repeated
	OptDef  bool     `json:"optdef,omitempty"`  // the named types are created with AreKeysOptionalByDefault
	SelfReg bool     `json:"selfreg,omitempty"` // the root is registered as a type under the name @main
}

var aoCodes = map[string]int{"missing": 1302, "nonobject": 704, "cycle": 703, "duplicate": 402, "apconflict": 705}

func aoText(d aoDef, keyVal map[string]string) string {
	if d.Kind == "scalar" {
		return `"str"`
	}
	if d.Kind == "choice" {
		return "@" + d.AllOf[0] + " | @" + d.AllOf[1]
	}
	var rules []string
	if len(d.AllOf) == 1 {
		rules = append(rules, `allOf: "@`+d.AllOf[0]+`"`)
	} else if len(d.AllOf) > 1 {
		var n []string
		for _, x := range d.AllOf {
			n = append(n, `"@`+x+`"`)
		}
		rules = append(rules, "allOf: ["+strings.Join(n, ", ")+"]")
	}
	switch d.AP {
	case "true", "false":
		rules = append(rules, "additionalProperties: "+d.AP)
	case "string", "any":
		rules = append(rules, `additionalProperties: "`+d.AP+`"`)
	}
	ann := ""
	if len(rules) > 0 {
		ann = " // {" + strings.Join(rules, ", ") + "}"
	}
	if len(d.Own) == 0 {
		return "{}" + ann
	}
	var sb strings.Builder
	sb.WriteString("{" + ann + "\n")
	for i, k := range d.Own {
		sep := ","
		if i == len(d.Own)-1 {
			sep = ""
		}
		opt := ""
		if k.Opt {
			opt = " // {optional: true}"
		}
		if len(k.Sub) > 0 {
			rules := `allOf: "@` + k.Sub[0] + `"`
			if k.Opt {
				rules += ", optional: true"
			}
			fmt.Fprintf(&sb, "  \"%s\": { // {%s}\n    \"n\": 0\n  }%s\n", k.K, rules, sep)
			continue
		}
		val := keyVal[k.K]
		if val == "" {
			val = "1" // keys outside the small catalogue (AllOfWide.tla)
		}
		fmt.Fprintf(&sb, "  \"%s\": %s%s%s\n", k.K, val, sep, opt)
	}
	sb.WriteString("}")
	return sb.String()
}

func aoDump(cs aoCase) string {
	kv := map[string]string{"k1": "1", "k2": `"two"`, "k3": "true"}
	var sb strings.Builder
	fmt.Fprintf(&sb, "ROOT %s\n", strings.ReplaceAll(aoText(cs.Root, kv), "\n", " "))
	if cs.SelfReg {
		sb.WriteString("TYPE @main = the root object itself\n")
	}
	for _, t := range cs.Types {
		if t.D.Kind == "withheld" {
			fmt.Fprintf(&sb, "TYPE @%s (not registered)\n", t.Name)
		} else {
			fmt.Fprintf(&sb, "TYPE @%s %s\n", t.Name, strings.ReplaceAll(aoText(t.D, kv), "\n", " "))
		}
	}
	return sb.String()
}

func aoClass(cs aoCase, what string) string {
	r := append([]string{}, cs.Refusals...)
	sort.Strings(r)
	shape := fmt.Sprintf("root-allOf-%d", len(cs.Root.AllOf))
	if cs.Root.Kind == "choice" {
		shape = "root-choice"
	}
	aps := map[string]bool{}
	for _, t := range cs.Types {
		if t.D.AP != "absent" {
			aps[t.D.AP] = true
		}
	}
	if cs.Root.AP != "absent" {
		aps[cs.Root.AP] = true
	}
	var ap []string
	for a := range aps {
		ap = append(ap, a)
	}
	sort.Strings(ap)
	return fmt.Sprintf("allof:%s:expected-%s:%s:ap-%s", what, strings.Join(r, "+"), shape, strings.Join(ap, "+"))
}

// aoEval judges the project on a fresh object and on one that has already answered cs.Warm.
func aoEval(cs aoCase) []core.Finding {
	fs := aoEvalAfter(cs, nil)
	if len(cs.Warm) > 0 {
		for _, f := range aoEvalAfter(cs, cs.Warm) {
			f.Class += ":after-other-calls"
			f.What = "after the calls " + strings.Join(cs.Warm, ", ") + " on the same object: " + f.What
			fs = append(fs, f)
		}
	}
	return fs
}

func aoEvalAfter(cs aoCase, warm []string) []core.Finding {
	return core.Guard("allOf", func() []core.Finding {
		kv := map[string]string{"k1": "1", "k2": `"two"`, "k3": "true"}
		root := jschema.New("root", aoText(cs.Root, kv))
		for _, t := range cs.Types {
			if t.D.Kind == "withheld" {
				continue
			}
			ty := jschema.New("@"+t.Name, aoText(t.D, kv))
			ty.AreKeysOptionalByDefault = cs.OptDef
			if err := root.AddType("@"+t.Name, ty); err != nil {
				return []core.Finding{{Class: "allof:addtype", What: fmt.Sprintf("AddType(@%s): %v\n%s", t.Name, firstLineOf(err), aoDump(cs))}}
			}
		}
		if cs.SelfReg {
			if err := root.AddType("@main", root); err != nil {
				return []core.Finding{{Class: "allof:addtype", What: fmt.Sprintf("AddType(@main, the root itself): %v\n%s", firstLineOf(err), aoDump(cs))}}
			}
		}
		if p := warmUp(root, warm); p != "" {
			return []core.Finding{{Class: "allof:panic", What: "panic " + p + "\n" + aoDump(cs)}}
		}
		err := root.Check()
		if len(cs.Refusals) > 0 {
			if err == nil {
				return []core.Finding{{Class: aoClass(cs, "merged-instead-of-refused"), What: fmt.Sprintf("inheritance must be refused (%v) but Check() = nil\n%s", cs.Refusals, aoDump(cs))}}
			}
			code := errCode(err)
			ok := false
			structural := false
			for _, r := range cs.Refusals {
				if aoCodes[r] == code {
					ok = true
				}
				if r == "missing" || r == "nonobject" || r == "cycle" {
					structural = true
				}
			}
			if structural && (code == 402 || code == 705) {
				// with a missing / non-object / cyclic chain somewhere the merge of the other objects is not defined
				// by the specification; a duplicate or a conflict met before the structural defect is a legitimate reason
				ok = true
			}
			if !ok {
				return []core.Finding{{Class: aoClass(cs, fmt.Sprintf("refused-with-code-%d", code)), What: fmt.Sprintf("refused with %v, which is none of the present reasons %v\n%s", firstLineOf(err), cs.Refusals, aoDump(cs))}}
			}
			return nil
		}
		if err != nil {
			return []core.Finding{{Class: aoClass(cs, fmt.Sprintf("refused-valid-code-%d", errCode(err))), What: fmt.Sprintf("valid inheritance refused: %v\n%s", firstLineOf(err), aoDump(cs))}}
		}
		var fs []core.Finding
		if cs.Root.Kind == "choice" {
			return aoChoiceListing(cs, root)
		}
		var want []string
		for _, k := range cs.Keys {
			want = append(want, k.K)
		}
		// Example(): key sequence
		ex, err := root.Example()
		if err != nil {
			fs = append(fs, core.Finding{Class: "allof:example-error", What: fmt.Sprintf("Example() = %v\n%s", firstLineOf(err), aoDump(cs))})
		} else if v, derr := jvDecode(ex); derr != nil || v.kind != "object" {
			fs = append(fs, core.Finding{Class: "allof:example-not-object", What: fmt.Sprintf("Example() = %q\n%s", ex, aoDump(cs))})
		} else if strings.Join(v.keys, ",") != strings.Join(want, ",") {
			fs = append(fs, core.Finding{Class: aoClass(cs, "example-keys"), What: fmt.Sprintf("Example() has keys %v, own + inherited is %v\n%s", v.keys, want, aoDump(cs))})
		} else {
			// nested heirs: the value of the key is an object with its own key first, then the listed type's merged keys
			for i, k := range cs.Keys {
				if len(k.NK) == 0 {
					continue
				}
				if i >= len(v.kids) || v.kids[i].kind != "object" || strings.Join(v.kids[i].keys, ",") != strings.Join(k.NK, ",") {
					got := []string{}
					if i < len(v.kids) {
						got = v.kids[i].keys
					}
					fs = append(fs, core.Finding{Class: aoClass(cs, "example-nested-keys"), What: fmt.Sprintf("Example() property %q has keys %v, own + inherited is %v\n%s", k.K, got, k.NK, aoDump(cs))})
					break
				}
			}
		}
		// compiled tree: keys, optional flags, InheritedFrom
		if on, ok := root.Inner.RootNode().(*ischema.ObjectNode); ok {
			kids := on.Children()
			if len(kids) != len(cs.Keys) {
				fs = append(fs, core.Finding{Class: aoClass(cs, "compiled-keys"), What: fmt.Sprintf("compiled root has %d properties, expected %v\n%s", len(kids), want, aoDump(cs))})
			} else {
				// required/optional status as the compiled schema has it: the required keys of the object
				required := map[string]bool{}
				if rk, ok := on.Constraint(constraint.RequiredKeysConstraintType).(*constraint.RequiredKeys); ok && rk != nil {
					for _, k := range rk.Keys() {
						required[k] = true
					}
				}
				for i, kid := range kids {
					k := on.Key(i)
					from := kid.InheritedFrom()
					wantVia, wantOrigin := "", ""
					if cs.Origin[i].Via != "root" {
						wantVia, wantOrigin = "@"+cs.Origin[i].Via, "@"+cs.Origin[i].Origin
					}
					if k.Key != cs.Keys[i].K || (from != wantVia && from != wantOrigin) || !required[k.Key] != cs.Keys[i].Opt {
						fs = append(fs, core.Finding{Class: aoClass(cs, "compiled-property"), What: fmt.Sprintf("property #%d is %q from %q optional=%v; expected %q from %q/%q optional=%v\n%s", i, k.Key, from, !required[k.Key], cs.Keys[i].K, wantVia, wantOrigin, cs.Keys[i].Opt, aoDump(cs))})
						break
					}
				}
			}
		}
		// OpenAPI property listing
		func() {
			defer func() {
				if r := recover(); r != nil {
					fs = append(fs, core.Finding{Class: "allof:dereference-panic", What: fmt.Sprintf("Dereference panicked: %v\n%s", r, aoDump(cs))})
				}
			}()
			infos := openapi.Dereference(root)
			if len(infos) != 1 {
				fs = append(fs, core.Finding{Class: "allof:dereference-shape", What: fmt.Sprintf("Dereference gave %d infos\n%s", len(infos), aoDump(cs))})
				return
			}
			oi, ok := infos[0].(openapi.ObjectInformer)
			if !ok {
				fs = append(fs, core.Finding{Class: "allof:dereference-shape", What: "root is not reported as an object\n" + aoDump(cs)})
				return
			}
			var got []string
			var gotOpt []bool
			for _, p := range oi.PropertiesInfos() {
				got = append(got, p.Key())
				gotOpt = append(gotOpt, p.Optional())
			}
			if strings.Join(got, ",") != strings.Join(want, ",") {
				fs = append(fs, core.Finding{Class: aoClass(cs, "openapi-keys"), What: fmt.Sprintf("OpenAPI property listing %v, own + inherited is %v\n%s", got, want, aoDump(cs))})
				return
			}
			for i := range got {
				// (the converter reads the `optional` rule only: with types whose keys are optional by default the
				// flag of the listing is not compared)
				if !cs.OptDef && gotOpt[i] != cs.Keys[i].Opt {
					fs = append(fs, core.Finding{Class: aoClass(cs, "openapi-optional"), What: fmt.Sprintf("OpenAPI property %q optional=%v, expected %v\n%s", got[i], gotOpt[i], cs.Keys[i].Opt, aoDump(cs))})
					return
				}
			}
		}()
		return fs
	})
}

// aoChoiceListing: the root is `@x | @y`; Dereference lists every alternative that is an object with own + inherited keys.
func aoChoiceListing(cs aoCase, root *jschema.JSchema) (fs []core.Finding) {
	defer func() {
		if r := recover(); r != nil {
			fs = append(fs, core.Finding{Class: "allof:dereference-panic", What: fmt.Sprintf("Dereference panicked: %v\n%s", r, aoDump(cs))})
		}
	}()
	infos := openapi.Dereference(root)
	var objs []openapi.ObjectInformer
	for _, in := range infos {
		if oi, ok := in.(openapi.ObjectInformer); ok {
			objs = append(objs, oi)
		}
	}
	var wantObjs [][]aoKey
	for _, a := range cs.Alts {
		for _, t := range cs.Types {
			if t.Name == a.Name && t.D.Kind == "object" {
				wantObjs = append(wantObjs, a.Keys)
			}
		}
	}
	if len(objs) != len(wantObjs) {
		return []core.Finding{{Class: aoClass(cs, "openapi-alternatives"), What: fmt.Sprintf("Dereference reports %d objects for %d object alternatives\n%s", len(objs), len(wantObjs), aoDump(cs))}}
	}
	for i, oi := range objs {
		var got, want []string
		for _, p := range oi.PropertiesInfos() {
			got = append(got, fmt.Sprintf("%s/%v", p.Key(), p.Optional()))
		}
		for _, k := range wantObjs[i] {
			want = append(want, fmt.Sprintf("%s/%v", k.K, k.Opt))
		}
		if strings.Join(got, ",") != strings.Join(want, ",") {
			fs = append(fs, core.Finding{Class: aoClass(cs, "openapi-keys"), What: fmt.Sprintf("alternative #%d: OpenAPI property listing %v, own + inherited is %v\n%s", i, got, want, aoDump(cs))})
		}
	}
	return fs
}

// aoFan: AllOfWide!FanTypes - heirs without own properties that share their first listed type.
type aoFan struct {
	Fan struct {
		M    int  `json:"m"`
		Bk   int  `json:"bk"`
		Same bool `json:"same"`
	} `json:"fan"`
	Types []struct {
		Name string `json:"name"`
		D    aoDef  `json:"d"`
	} `json:"types"`
	Heirs [][]string `json:"heirs"`
}

func aoFanEval(fc aoFan) []core.Finding {
	return core.Guard("allOf-fan", func() []core.Finding {
		var lines []string
		for i := range fc.Heirs {
			sep := ","
			if i == len(fc.Heirs)-1 {
				sep = ""
			}
			lines = append(lines, fmt.Sprintf("  \"h%d\": @h%d%s", i+1, i+1, sep))
		}
		text := "{\n" + strings.Join(lines, "\n") + "\n}"
		dump := "ROOT " + strings.ReplaceAll(text, "\n", " ")
		var fs []core.Finding
		for _, order := range []bool{false, true} {
			root := jschema.New("root", text)
			idx := make([]int, len(fc.Types))
			for i := range idx {
				idx[i] = i
				if order {
					idx[i] = len(fc.Types) - 1 - i
				}
			}
			for _, i := range idx {
				t := fc.Types[i]
				if !order {
					dump += fmt.Sprintf("\nTYPE @%s %s", t.Name, strings.ReplaceAll(aoText(t.D, nil), "\n", " "))
				}
				if err := root.AddType("@"+t.Name, jschema.New("@"+t.Name, aoText(t.D, nil))); err != nil {
					return []core.Finding{{Class: "allof:addtype", What: fmt.Sprintf("AddType(@%s): %v\n%s", t.Name, firstLineOf(err), dump)}}
				}
			}
			if err := root.Check(); err != nil {
				return append(fs, core.Finding{Class: fmt.Sprintf("allof:fan:refused-valid-code-%d", errCode(err)), What: fmt.Sprintf("valid inheritance refused: %v\n%s", firstLineOf(err), dump)})
			}
			ex, err := root.Example()
			v, derr := jvDecode(ex)
			if err != nil || derr != nil || v.kind != "object" || len(v.kids) != len(fc.Heirs) {
				return append(fs, core.Finding{Class: "allof:fan:example", What: fmt.Sprintf("Example() = %q %v\n%s", ex, err, dump)})
			}
			for i, want := range fc.Heirs {
				if v.kids[i].kind != "object" || strings.Join(v.kids[i].keys, ",") != strings.Join(want, ",") {
					return append(fs, core.Finding{Class: "allof:fan:example-keys", What: fmt.Sprintf("heir #%d has the keys %v in Example(), its listed types give %v\n%s", i+1, v.kids[i].keys, want, dump)})
				}
			}
		}
		return fs
	})
}

func runC07(c *core.Ctx) error {
	type cf struct{ name, body string }
	mko := func(n int, keys string, ml int, aps string, nest string, choice string, optdef string) string {
		return fmt.Sprintf("SPECIFICATION Spec\nCONSTANTS\n  N = %d\n  KeySet = %s\n  MaxList = %d\n  APs = %s\n  Nest = %s\n  RootChoice = %s\n  OptDefTypes = %s\n  SelfReg = FALSE\nINVARIANTS MergeHasNoDuplicateKeys MergeStable NoListNoChange NestedHeirGains Emit\nCHECK_DEADLOCK FALSE\n", n, keys, ml, aps, nest, choice, optdef)
	}
	mks := func(body string) string { return strings.Replace(body, "SelfReg = FALSE", "SelfReg = TRUE", 1) }
	mkc := func(n int, keys string, ml int, aps string, nest string, choice string) string {
		return mko(n, keys, ml, aps, nest, choice, "FALSE")
	}
	mk := func(n int, keys string, ml int, aps string, nest string) string {
		return mkc(n, keys, ml, aps, nest, "FALSE")
	}
	cfgs := []cf{{"AllOf_2.cfg", mk(2, `{"k1", "k2"}`, 2, `{"absent", "false", "true"}`, "FALSE")},
		{"AllOf_2nest.cfg", mk(2, `{"k1", "k2"}`, 1, `{"absent"}`, "TRUE")},
		{"AllOf_2choice.cfg", mkc(2, `{"k1", "k2"}`, 1, `{"absent"}`, "FALSE", "TRUE")},
		{"AllOf_2optdef.cfg", mko(2, `{"k1", "k2"}`, 1, `{"absent"}`, "FALSE", "FALSE", "TRUE")},
		{"AllOf_2self.cfg", mks(mk(2, `{"k1", "k2"}`, 1, `{"absent"}`, "FALSE"))},
		{"AllOf_2selfnest.cfg", mks(mk(2, `{"k1"}`, 1, `{"absent"}`, "TRUE"))}}
	if c.Thorough() {
		cfgs = append(cfgs, cf{"AllOf_2ap.cfg", mk(2, `{"k1", "k2"}`, 2, `{"absent", "false", "string", "any", "true"}`, "FALSE")},
			cf{"AllOf_3.cfg", mk(3, `{"k1", "k2"}`, 1, `{"absent", "false"}`, "FALSE")},
			cf{"AllOf_2nest2.cfg", mk(2, `{"k1", "k2"}`, 2, `{"absent", "false"}`, "TRUE")})
	}
	if _, err := loadCallOrders(); err != nil {
		return err
	}
	// heirs with many own keys (AllOfWide.tla): the duplicate, or the new key, at every edge position
	{
		var wide []aoCase
		var fans []aoFan
		res, err := tlc.Run(tlc.Opts{Module: "AllOfWide", Cfg: "AllOfWide.cfg", Workers: 4, OnLine: func(l string) {
			if strings.HasPrefix(l, `{"fan"`) {
				var fc aoFan
				if err := json.Unmarshal([]byte(l), &fc); err != nil {
					c.InfraError("bad fan case: %v", err)
					return
				}
				fans = append(fans, fc)
				return
			}
			var cs aoCase
			if err := json.Unmarshal([]byte(l), &cs); err != nil {
				c.InfraError("bad wide case: %v", err)
				return
			}
			wide = append(wide, cs)
		}})
		res.Cleanup()
		if err != nil {
			return err
		}
		if err := res.MustOK(); err != nil {
			return err
		}
		c.AddTLC("AllOfWide.cfg", res)
		if len(wide) < 50 {
			return fmt.Errorf("AllOfWide emitted %d cases", len(wide))
		}
		for i := range wide {
			wide[i].Warm = callPrefix(i, c.Seed)
		}
		core.ParallelFor(len(wide), func(i int) {
			c.CountEval(2)
			c.Report(wide[i], aoEval(wide[i]))
			c.Nontrivial("wide" + aoDump(wide[i]))
		})
		c.Set("replayed_AllOfWide.cfg", len(wide))
		if len(fans) < 10 {
			return fmt.Errorf("AllOfWide emitted %d fan cases", len(fans))
		}
		for _, fc := range fans {
			c.CountEval(1)
			c.Report(fc, aoFanEval(fc))
		}
		c.Set("replayed_fans", len(fans))
	}
	for _, cfg := range cfgs {
		var cases []aoCase
		n := 0
		res, err := tlc.Run(tlc.Opts{Module: "AllOf", Cfg: cfg.name, Workers: 16, Timeout: 40 * time.Minute, HeapGB: 16, Files: map[string][]byte{cfg.name: []byte(cfg.body)}, OnLine: func(l string) {
			var cs aoCase
			if err := json.Unmarshal([]byte(l), &cs); err != nil {
				c.InfraError("bad case: %v", err)
				return
			}
			n++
			// cycles dominate the space: replay one in eight of the cycle-only projects
			if len(cs.Refusals) == 1 && cs.Refusals[0] == "cycle" && (n+int(c.Seed))%c.Pick(8, 3) != 0 {
				return
			}
			cases = append(cases, cs)
		}})
		res.Cleanup()
		if err != nil {
			return err
		}
		if err := res.MustOK(); err != nil {
			return err
		}
		c.AddTLC(cfg.name, res)
		if len(cases) == 0 {
			return fmt.Errorf("%s: no cases", cfg.name)
		}
		for i := range cases {
			cases[i].Warm = callPrefix(i, c.Seed)
		}
		core.ParallelFor(len(cases), func(i int) {
			c.CountEval(2)
			c.Report(cases[i], aoEval(cases[i]))
		})
		for _, cs := range cases {
			if len(cs.Root.AllOf) > 0 {
				c.Nontrivial(cfg.name + aoDump(cs))
			}
		}
		c.Set("replayed_"+cfg.name, len(cases))
		if cfg.name == "AllOf_2.cfg" {
			c.Sample(strings.Split(aoDump(cases[len(cases)/2]), "\n"))
		}
	}
	c.Set("rule", "every project of AllOf.tla (root object + 2-3 named types, each withheld / non-object / object with own key (required or optional), allOf list incl. self and mutual references, additionalProperties setting) with its refusal classes and merged key list; replayed: refused iff a class applies with the code of a present class; otherwise Example() keys, compiled properties (key, InheritedFrom, optional) and the OpenAPI property listing equal own + inherited. distinct_nontrivial = distinct projects whose root has an allOf list")
	c.Assume = append(c.Assume, "an inherited key may be marked with the directly listed parent or with the declaring type", "the library compiles every registered type: a defect in an unreferenced registered type also refuses the project")
	return nil
}

func init() {
	register(&core.Check{ID: "C07", Level: "model_checking", Run: runC07,
		Replay: func(c *core.Ctx, raw json.RawMessage) ([]core.Finding, error) {
			var cs aoCase
			if err := json.Unmarshal(raw, &cs); err != nil {
				return nil, err
			}
			return aoEval(cs), nil
		}})
}
