package checks

import (
	"bytes"
	"encoding/json"
	"errors"
	"fmt"
	"io"
	"regexp"
	"runtime"
	"runtime/debug"
	"strconv"
	"strings"
	"time"

	schema "github.com/jsightapi/jsight-schema-core"
	jbytes "github.com/jsightapi/jsight-schema-core/bytes"
	"github.com/jsightapi/jsight-schema-core/errs"
	jdoc "github.com/jsightapi/jsight-schema-core/formats/json"
	jnum "github.com/jsightapi/jsight-schema-core/json"
	"github.com/jsightapi/jsight-schema-core/kit"
	"github.com/jsightapi/jsight-schema-core/notations/jschema"
	"github.com/jsightapi/jsight-schema-core/notations/regex"
	"github.com/jsightapi/jsight-schema-core/openapi"
	"github.com/jsightapi/jsight-schema-core/rules/enum"

	"verif/harness/internal/core"
)

// Shared evaluator of C02 (nothing crashes / hangs) and C16 (every rejection is a well-formed diagnostic):
// one input, one entry point, every public operation; findings are tagged "c02:" / "c16:".

type crCase struct {
	Entry string            `json:"entry"` // schema | type | enum | regex | jdoc | number | project
	Text  []byte            `json:"text"`
	Types map[string]string `json:"types,omitempty"` // for entry "project": registered types (name -> text)
	Self  bool              `json:"self,omitempty"`  // register the root under its own name too
	Src   string            `json:"src,omitempty"`
}

type crOut struct {
	findings []core.Finding
	texts    map[string][]byte // file name -> text, for judging positions
	ops      int
}

func (o *crOut) add(prop, class, what string) {
	o.findings = append(o.findings, core.Finding{Class: prop + ":" + class, What: what})
}

var rePointer = regexp.MustCompile(`0x[0-9a-f]{6,}|\{0x|%!`)

// lineColOf implements LineCol.tla for a concrete text: ok=false when the text mixes newline conventions
// or the index is the second byte of a CR LF pair.
func lineColOf(text []byte, idx int) (line, col int, lineText string, ok bool) {
	hasCRLF := strings.Contains(string(text), "\r\n")
	t := strings.ReplaceAll(string(text), "\r\n", "")
	hasCR, hasLF := strings.Contains(t, "\r"), strings.Contains(t, "\n")
	n := 0
	for _, b := range []bool{hasCRLF, hasCR, hasLF} {
		if b {
			n++
		}
	}
	if n > 1 {
		return 0, 0, "", false
	}
	line, col = 1, 1
	start := 0
	for i := 0; i < idx; i++ {
		c := text[i]
		if hasCRLF {
			if c == '\n' {
				line++
				col = 1
				start = i + 1
				continue
			}
		} else if c == '\n' || c == '\r' {
			line++
			col = 1
			start = i + 1
			continue
		}
		col++
	}
	if hasCRLF && text[idx] == '\n' {
		return 0, 0, "", false
	}
	end := idx
	for end < len(text) && text[end] != '\n' && text[end] != '\r' {
		end++
	}
	return line, col, string(text[start:end]), true
}

var reUnicodeEscape = regexp.MustCompile(`\\u[0-9a-fA-F]{4}`)

func decodeUnicodeEscapes(b []byte) []byte {
	return reUnicodeEscape.ReplaceAllFunc(b, func(m []byte) []byte {
		n, err := strconv.ParseUint(string(m[2:]), 16, 32)
		if err != nil {
			return m
		}
		return []byte(string(rune(n)))
	})
}

func (o *crOut) judgeError(site string, err error, input []byte) {
	if err == nil || errors.Is(err, io.EOF) {
		return
	}
	if _, ok := err.(runtime.Error); ok {
		o.add("c16", "runtime-error-returned:"+site, fmt.Sprintf("%s returned the Go runtime error %q for %.120q", site, err.Error(), input))
		return
	}
	var je kit.JSchemaError
	var pe *errs.Err
	var ve errs.Err
	var code int
	msg := err.Error()
	switch {
	case errors.As(err, &je):
		code = je.ErrCode()
	case errors.As(err, &pe):
		code = int(pe.Code())
	case errors.As(err, &ve):
		code = int(ve.Code())
	default:
		o.add("c16", "not-a-diagnostic:"+site, fmt.Sprintf("%s returned a bare %T %q for %.120q", site, err, msg, input))
		return
	}
	if code <= 1 {
		o.add("c16", fmt.Sprintf("internal-failure-code-%d:%s", code, site), fmt.Sprintf("%s returned code %d (%q) for %.120q", site, code, firstLineStr(msg), input))
	}
	if m := rePointer.FindString(msg); m != "" {
		// a hexadecimal number that the input itself contains is a quotation, not a pointer
		// (also when the input spells it with \uXXXX escapes: diagnostics quote the decoded text)
		quoted := bytes.Contains(input, []byte(m)) || bytes.Contains(decodeUnicodeEscapes(input), []byte(m))
		for _, t := range o.texts {
			quoted = quoted || bytes.Contains(t, []byte(m)) || bytes.Contains(decodeUnicodeEscapes(t), []byte(m))
		}
		if !quoted {
			o.add("c16", "message-dumps-internals:"+site, fmt.Sprintf("%s: message %.200q for %.120q", site, msg, input))
		}
	}
	if !errors.As(err, &je) || !strings.Contains(msg, "\n\tin line ") {
		return
	}
	// positioned
	text, known := o.texts[je.Filename()]
	if !known {
		return
	}
	idx := int(je.Index())
	where := "root"
	if je.IncorrectUserType() != "" || je.Filename() != "root" {
		where = "user-type"
	}
	if idx >= len(text) {
		if len(text) == 0 {
			return
		}
		o.add("c16", "index-outside-text:"+where+":"+site, fmt.Sprintf("%s: index %d in a %d-byte text %q (file %s): %.200q", site, idx, len(text), text, je.Filename(), msg))
		return
	}
	line, col, lineText, ok := lineColOf(text, idx)
	if !ok {
		return
	}
	if int(je.Line()) != line || int(je.Column()) != col {
		o.add("c16", "line-column:"+where+":"+site, fmt.Sprintf("%s: index %d of %q is line %d column %d, diagnostic says line %d column %d", site, idx, text, line, col, je.Line(), je.Column()))
		return
	}
	// the rendering quotes the line: after "> " comes the line without its indentation - or, for a long line, a
	// beginning of it followed by "..." - and then the pointer line, nothing else
	trimmed := strings.TrimLeft(lineText, " \t")
	k := strings.Index(msg, "\n\t> ")
	if k < 0 {
		o.add("c16", "line-not-quoted:"+where+":"+site, fmt.Sprintf("%s: rendering %.300q has no quoted line (%q)", site, msg, trimmed))
		return
	}
	rest := msg[k+4:]
	q := rest
	after := ""
	if e := strings.IndexAny(rest, "\n"); e >= 0 {
		q, after = rest[:e], rest[e+1:]
	}
	q = strings.TrimRight(q, "\r")
	okQuote := strings.TrimSpace(q) == strings.TrimSpace(trimmed)
	if !okQuote && strings.HasSuffix(q, "...") && len(lineText) > 150 {
		okQuote = strings.HasPrefix(trimmed, strings.TrimLeft(strings.TrimSuffix(q, "..."), " \t"))
	}
	if !okQuote {
		o.add("c16", "line-not-quoted:"+where+":"+site, fmt.Sprintf("%s: rendering %.300q quotes %.200q, the line is %.200q", site, msg, q, trimmed))
		return
	}
	if n := strings.Count(strings.TrimRight(after, "\n"), "\n"); n > 0 || !strings.Contains(after, "^") {
		o.add("c16", "rendering-shape:"+where+":"+site, fmt.Sprintf("%s: after the quoted line the rendering has %.200q instead of one pointer line (%.300q)", site, after, msg))
	}
}

// op runs one public operation: escaped panics are C02 findings.
func (o *crOut) op(site string, input []byte, f func() error) {
	o.ops++
	var err error
	func() {
		defer func() {
			if r := recover(); r != nil {
				o.add("c02", "panic:"+site, fmt.Sprintf("a panic escaped from %s on %.160q: %s", site, input, firstLineStr(fmt.Sprint(r))))
			}
		}()
		err = f()
	}()
	if err != nil && (strings.HasSuffix(site, ".OpenAPI") || strings.HasSuffix(site, ".Dereference")) {
		return // conversion errors of an accepted schema are not rejections of an input (C16's domain)
	}
	if err != nil {
		// rendering must always succeed
		func() {
			defer func() {
				if r := recover(); r != nil {
					o.add("c16", "rendering-panics:"+site, fmt.Sprintf("Error() of the diagnostic returned by %s panicked on %.160q: %v", site, input, r))
					err = nil
				}
			}()
			_ = err.Error()
		}()
		if err != nil {
			o.judgeError(site, err, input)
		}
	}
}

func (o *crOut) schemaOps(prefix string, s *jschema.JSchema, input []byte) {
	var checkErr error
	o.op(prefix+".Len", input, func() error { _, err := s.Len(); return err })
	o.op(prefix+".Check", input, func() error { checkErr = s.Check(); return checkErr })
	o.op(prefix+".Example", input, func() error { _, err := s.Example(); return err })
	o.op(prefix+".GetAST", input, func() error { _, err := s.GetAST(); return err })
	o.op(prefix+".UsedUserTypes", input, func() error { _, err := s.UsedUserTypes(); return err })
	if checkErr == nil {
		o.op(prefix+".OpenAPI", input, func() error { _, err := openapi.NewSchemaObject(s).MarshalJSON(); return err })
		o.op(prefix+".Dereference", input, func() error { _ = openapi.Dereference(s); return nil })
	}
}

func crEvalInner(cs crCase) *crOut {
	o := &crOut{texts: map[string][]byte{}}
	in := cs.Text
	switch cs.Entry {
	case "schema":
		o.texts["root"] = in
		// two orders: Example() before Check(), and the usual one
		s0 := jschema.New("root", in)
		o.op("schema.Example-first", in, func() error { _, err := s0.Example(); return err })
		o.schemaOps("schema", jschema.New("root", in), in)
	case "type":
		o.texts["@t"] = in
		o.texts["root"] = []byte(`{"k": @t}`)
		root := jschema.New("root", `{"k": @t}`)
		o.op("type.AddType", in, func() error { return root.AddType("@t", jschema.New("@t", in)) })
		o.schemaOps("type-root", root, in)
		// the same text registered as an enum rule
		r2 := jschema.New("root", `1 // {enum: @e}`)
		o.texts["@e"] = in
		o.op("type.AddRule", in, func() error { return r2.AddRule("@e", enum.New("@e", in)) })
	case "project":
		o.texts["root"] = in
		root := jschema.New("root", in)
		eachSupport(cs.Types, func(n, t string) bool {
			o.texts[strings.TrimPrefix(n, "rule:")] = []byte(t)
			o.op("project.AddType", in, func() error { return regSupport(root, n, t) })
			return true
		})
		if cs.Self {
			o.op("project.AddType-self", in, func() error { return root.AddType("root", root) })
		}
		o.schemaOps("project", root, in)
	case "enum":
		o.texts["rule"] = in
		e := enum.New("rule", in)
		o.op("enum.Len", in, func() error { _, err := e.Len(); return err })
		o.op("enum.Check", in, func() error { return e.Check() })
		o.op("enum.Values", in, func() error { _, err := e.Values(); return err })
		o.op("enum.GetAST", in, func() error { _, err := e.GetAST(); return err })
	case "regex":
		o.texts["regex"] = in
		r := regex.New("regex", in)
		var cerr error
		o.op("regex.Len", in, func() error { _, err := r.Len(); return err })
		o.op("regex.Check", in, func() error { cerr = r.Check(); return cerr })
		o.op("regex.Example", in, func() error { _, err := r.Example(); return err })
		o.op("regex.GetAST", in, func() error { _, err := r.GetAST(); return err })
		o.op("regex.Pattern", in, func() error { _, err := r.Pattern(); return err })
		if cerr == nil {
			o.op("regex.OpenAPI", in, func() error { _, err := openapi.NewSchemaObject(r).MarshalJSON(); return err })
		}
		root := jschema.New("root", `"x" // {type: "@r"}`)
		o.op("regex.AddType", in, func() error { return root.AddType("@r", regex.New("regex", in)) })
	case "jdoc":
		o.texts["doc"] = in
		for _, trailing := range []bool{false, true} {
			mk := func() schema.Document {
				if trailing {
					return jdoc.New("doc", in, jdoc.AllowTrailingNonSpaceCharacters())
				}
				return jdoc.New("doc", in)
			}
			d := mk()
			o.op("jdoc.Len", in, func() error { _, err := d.Len(); return err })
			o.op("jdoc.Check", in, func() error { return d.Check() })
			d2 := mk()
			o.op("jdoc.NextLexeme", in, func() error {
				for i := 0; i < 4*len(in)+16; i++ {
					if _, err := d2.NextLexeme(); err != nil {
						return err
					}
				}
				return nil
			})
		}
	case "number":
		o.op("NewNumber", in, func() error {
			n, err := jnum.NewNumber(jbytes.NewBytes(in))
			if err == nil {
				_ = n.String()
				_ = n.LengthOfFractionalPart()
				_ = n.Cmp(n)
			}
			return err
		})
		o.op("GuessSchemaType", in, func() error { _, err := schema.GuessSchemaType(in); return err })
	}
	return o
}

// crEval runs the case under a time bound (a hang is a C02 finding).
func crEval(cs crCase) []core.Finding {
	done := make(chan *crOut, 1)
	go func() { done <- crEvalInner(cs) }()
	limit := 10 * time.Second // generous: a loaded machine must not turn a slow answer into a hang
	if len(cs.Text) > 10000 {
		limit = 40 * time.Second
	}
	if len(cs.Text) > 100000 {
		limit = 300 * time.Second // Example() is quadratic in the nesting depth: seconds at this size on an idle machine
	}
	select {
	case o := <-done:
		return o.findings
	case <-time.After(limit):
		return []core.Finding{{Class: "c02:hang:" + cs.Entry, What: fmt.Sprintf("no answer within %s for entry %s on %.160q", limit, cs.Entry, cs.Text)}}
	}
}

func init() {
	core.Workers["crash"] = func(raw json.RawMessage) core.WorkerOut {
		var cs crCase
		if err := json.Unmarshal(raw, &cs); err != nil {
			return core.WorkerOut{Findings: []core.Finding{{Class: "harness", What: err.Error()}}}
		}
		// small inputs: a stack beyond 128 MB is runaway recursion (and dies fast); large, deeply nested inputs get
		// Go's own limit, so that depth the library copes with under default settings is not reported
		if len(cs.Text) > 10000 {
			debug.SetMaxStack(1 << 30)
		} else {
			debug.SetMaxStack(128 << 20)
		}
		return core.WorkerOut{Findings: crEval(cs)}
	}
}
