package checks

import (
	"encoding/json"
	"errors"
	"fmt"
	"math/rand"
	"sort"
	"strings"

	schema "github.com/jsightapi/jsight-schema-core"
	"github.com/jsightapi/jsight-schema-core/notations/jschema"
	"github.com/jsightapi/jsight-schema-core/notations/jschema/ischema"
	"github.com/jsightapi/jsight-schema-core/notations/jschema/ischema/constraint"

	"verif/harness/internal/core"
	"verif/harness/internal/tlc"
)

// C19: OrderedMap.tla is the reference dictionary. TLC dumps its labelled state graph
// (VIEW = <<order, data>>); the harness walks paths of the graph and replays every
// action on the real containers, comparing the observable content with the model state.

type omOp struct {
	Op   string   `json:"op"`
	K    string   `json:"k,omitempty"`
	V    string   `json:"v,omitempty"`
	Keys []string `json:"keys,omitempty"` // filter: keep; map: on
}

type omState struct {
	Order []string          `json:"order"`
	Data  map[string]string `json:"data"`
}

type omCase struct {
	Spell     map[string]string `json:"spell,omitempty"` // a row of OrderedMap!Spellings (placeholders as TLC printed them); nil = keys spelled as named
	Container string            `json:"container"`
	Ops       []omOp            `json:"ops"`
	Expect    []omState         `json:"expect"` // state after each op (same length as Ops)
}

var omKeys = []string{"k1", "k2", "k3", "k4", "k5", "k6"}

// omSpelling: what the abstract keys of the model are spelled like in the real container (OrderedMap!Spellings).
// nil = spelled as named. The observation is translated back, so the comparison with the model is unchanged.
type omSpelling struct {
	fwd, back map[string]string
}

func (sp *omSpelling) f(k string) string {
	if sp == nil {
		return k
	}
	if x, ok := sp.fwd[k]; ok {
		return x
	}
	return k
}
func (sp *omSpelling) b(k string) string {
	if sp == nil {
		return k
	}
	if x, ok := sp.back[k]; ok {
		return x
	}
	if _, spelled := sp.fwd[k]; spelled {
		return "unknown-key(" + fmt.Sprintf("%q", k) + ")" // the name of a key that is spelled differently
	}
	return k // keys beyond the table (large universes) are spelled as named
}
func (sp *omSpelling) backAll(es []string) []string {
	if sp == nil {
		return es
	}
	out := make([]string, len(es))
	for i, e := range es {
		j := strings.LastIndex(e, "=")
		out[i] = sp.b(e[:j]) + e[j:]
	}
	return out
}

// TLC prints ASCII only: characters outside it travel as placeholders.
var omPlaceholders = strings.NewReplacer("<NUL>", "\x00", "<SOH>", "\x01", "<BEL>", "\a", "<VT>", "\v", "<DEL>", "\x7f", "<EACUTE>", "\u00e9", "<LS>", "\u2028", "<CUP>", "\U0001F3C6")

var omSpellTabs = []map[string]string{nil} // [0] = nil (identity); the rest is read from the specification in runC19

func omSpellingOf(t map[string]string) *omSpelling {
	if t == nil {
		return nil
	}
	sp := &omSpelling{fwd: map[string]string{}, back: map[string]string{}}
	for k, v := range t {
		v = omPlaceholders.Replace(v)
		sp.fwd[k] = v
		sp.back[v] = k
	}
	return sp
}

// ---- adapters over the four real containers ----

type omAdapter interface {
	apply(op omOp)
	observe(keys []string) (omObs, []string) // observation + internal inconsistencies
	supports(op string) bool
}

type omObs struct {
	Len      int
	Each     []string // "k=v" in iteration order
	EachSafe []string
	Has      map[string]bool
	Get      map[string]string // present keys -> value
	JSON     []string          // keys in marshalled order ("k=v"), nil if not applicable
	JSONErr  string
	Find     map[string]string // subset name -> first key or "none"
}

func subsetName(mask int) string {
	var s []string
	for i, k := range omKeys {
		if mask&(1<<i) != 0 {
			s = append(s, k)
		}
	}
	return strings.Join(s, "+")
}

func inSet(keys []string, k string) bool {
	for _, x := range keys {
		if x == k {
			return true
		}
	}
	return false
}

// parse {"k":<v>,...} keeping key order; value rendered by val(raw).
func orderedJSON(b []byte, val func(json.RawMessage) string) ([]string, error) {
	if !json.Valid(b) {
		return nil, fmt.Errorf("invalid JSON %q", b)
	}
	dec := json.NewDecoder(strings.NewReader(string(b)))
	t, err := dec.Token()
	if err != nil || t != json.Delim('{') {
		return nil, fmt.Errorf("not an object: %q", b)
	}
	out := []string{}
	for dec.More() {
		kt, err := dec.Token()
		if err != nil {
			return nil, err
		}
		var raw json.RawMessage
		if err := dec.Decode(&raw); err != nil {
			return nil, err
		}
		out = append(out, fmt.Sprint(kt)+"="+val(raw))
	}
	return out, nil
}

// -- RuleASTNodes
type ruleNodesAd struct {
	m  *schema.RuleASTNodes
	sp *omSpelling
}

func (a ruleNodesAd) supports(string) bool { return true }
func (a ruleNodesAd) apply(op omOp) {
	switch op.Op {
	case "set":
		a.m.Set(a.sp.f(op.K), schema.RuleASTNode{Value: op.V})
	case "update":
		a.m.Update(a.sp.f(op.K), func(schema.RuleASTNode) schema.RuleASTNode { return schema.RuleASTNode{Value: op.V} })
	case "delete":
		a.m.Delete(a.sp.f(op.K))
	case "filter":
		a.m.Filter(func(k string, _ schema.RuleASTNode) bool { return inSet(op.Keys, a.sp.b(k)) })
	case "filterpanic":
		func() {
			defer func() { _ = recover() }()
			a.m.Filter(func(k string, _ schema.RuleASTNode) bool {
				if a.sp.b(k) == op.K {
					panic(errMapCallback)
				}
				return inSet(op.Keys, a.sp.b(k))
			})
		}()
	case "map":
		_ = a.m.Map(func(k string, v schema.RuleASTNode) (schema.RuleASTNode, error) {
			if inSet(op.Keys, a.sp.b(k)) {
				return schema.RuleASTNode{Value: op.V}, nil
			}
			return v, nil
		})
	case "mapfail":
		_ = a.m.Map(func(k string, v schema.RuleASTNode) (schema.RuleASTNode, error) {
			if a.sp.b(k) == op.K {
				return schema.RuleASTNode{}, errMapCallback
			}
			if inSet(op.Keys, a.sp.b(k)) {
				return schema.RuleASTNode{Value: op.V}, nil
			}
			return v, nil
		})
	}
}
func (a ruleNodesAd) observe(keys []string) (omObs, []string) {
	o := omObs{Has: map[string]bool{}, Get: map[string]string{}, Find: map[string]string{}}
	o.Len = a.m.Len()
	_ = a.m.Each(func(k string, v schema.RuleASTNode) error { o.Each = append(o.Each, a.sp.b(k)+"="+v.Value); return nil })
	a.m.EachSafe(func(k string, v schema.RuleASTNode) { o.EachSafe = append(o.EachSafe, a.sp.b(k)+"="+v.Value) })
	for _, k := range keys {
		o.Has[k] = a.m.Has(a.sp.f(k))
		if v, ok := a.m.Get(a.sp.f(k)); ok {
			o.Get[k] = v.Value
		}
	}
	for _, mask := range omMasks {
		it, ok := a.m.Find(func(k string, _ schema.RuleASTNode) bool {
			for i, kk := range omKeys {
				if kk == a.sp.b(k) && mask&(1<<i) != 0 {
					return true
				}
			}
			return false
		})
		if ok {
			o.Find[subsetName(mask)] = a.sp.b(it.Key) + "=" + it.Value.Value
		} else {
			o.Find[subsetName(mask)] = "none"
		}
	}
	b, err := a.m.MarshalJSON()
	if err != nil {
		o.JSONErr = err.Error()
	} else {
		o.JSON, err = orderedJSON(b, func(r json.RawMessage) string {
			var n struct{ Value string }
			_ = json.Unmarshal(r, &n)
			return n.Value
		})
		if err != nil {
			o.JSONErr = err.Error()
		}
		o.JSON = a.sp.backAll(o.JSON)
	}
	var inc []string
	// the early-exit path of Each must see the same first element
	first := ""
	_ = a.m.Each(func(k string, v schema.RuleASTNode) error { first = a.sp.b(k); return errors.New("stop") })
	if len(o.Each) > 0 && !strings.HasPrefix(o.Each[0], first+"=") {
		inc = append(inc, "Each with early stop saw a different first key")
	}
	return o, inc
}

// -- ASTNodes
type astNodesAd struct {
	m  *schema.ASTNodes
	sp *omSpelling
}

func (a astNodesAd) supports(string) bool { return true }
func (a astNodesAd) apply(op omOp) {
	switch op.Op {
	case "set":
		a.m.Set(a.sp.f(op.K), schema.ASTNode{Value: op.V})
	case "update":
		a.m.Update(a.sp.f(op.K), func(schema.ASTNode) schema.ASTNode { return schema.ASTNode{Value: op.V} })
	case "delete":
		a.m.Delete(a.sp.f(op.K))
	case "filter":
		a.m.Filter(func(k string, _ schema.ASTNode) bool { return inSet(op.Keys, a.sp.b(k)) })
	case "filterpanic":
		func() {
			defer func() { _ = recover() }()
			a.m.Filter(func(k string, _ schema.ASTNode) bool {
				if a.sp.b(k) == op.K {
					panic(errMapCallback)
				}
				return inSet(op.Keys, a.sp.b(k))
			})
		}()
	case "map":
		_ = a.m.Map(func(k string, v schema.ASTNode) (schema.ASTNode, error) {
			if inSet(op.Keys, a.sp.b(k)) {
				return schema.ASTNode{Value: op.V}, nil
			}
			return v, nil
		})
	case "mapfail":
		_ = a.m.Map(func(k string, v schema.ASTNode) (schema.ASTNode, error) {
			if a.sp.b(k) == op.K {
				return schema.ASTNode{}, errMapCallback
			}
			if inSet(op.Keys, a.sp.b(k)) {
				return schema.ASTNode{Value: op.V}, nil
			}
			return v, nil
		})
	}
}
func (a astNodesAd) observe(keys []string) (omObs, []string) {
	o := omObs{Has: map[string]bool{}, Get: map[string]string{}, Find: map[string]string{}}
	o.Len = a.m.Len()
	_ = a.m.Each(func(k string, v schema.ASTNode) error { o.Each = append(o.Each, a.sp.b(k)+"="+v.Value); return nil })
	a.m.EachSafe(func(k string, v schema.ASTNode) { o.EachSafe = append(o.EachSafe, a.sp.b(k)+"="+v.Value) })
	for _, k := range keys {
		o.Has[k] = a.m.Has(a.sp.f(k))
		if v, ok := a.m.Get(a.sp.f(k)); ok {
			o.Get[k] = v.Value
		}
	}
	for _, mask := range omMasks {
		it, ok := a.m.Find(func(k string, _ schema.ASTNode) bool {
			for i, kk := range omKeys {
				if kk == a.sp.b(k) && mask&(1<<i) != 0 {
					return true
				}
			}
			return false
		})
		if ok {
			o.Find[subsetName(mask)] = a.sp.b(it.Key) + "=" + it.Value.Value
		} else {
			o.Find[subsetName(mask)] = "none"
		}
	}
	b, err := a.m.MarshalJSON()
	if err != nil {
		o.JSONErr = err.Error()
	} else {
		o.JSON, err = orderedJSON(b, func(r json.RawMessage) string {
			var n struct{ Value string }
			_ = json.Unmarshal(r, &n)
			return n.Value
		})
		if err != nil {
			o.JSONErr = err.Error()
		}
		o.JSON = a.sp.backAll(o.JSON)
	}
	return o, nil
}

// -- Constraints (keys are constraint types, values constraint objects)
var omCKeys = map[string]constraint.Type{"k1": constraint.EmailConstraintType, "k2": constraint.DateConstraintType, "k3": constraint.UuidConstraintType,
	"k4": constraint.MinConstraintType, "k5": constraint.MaxConstraintType, "k6": constraint.RegexConstraintType}
var omCVals = map[string]constraint.Constraint{"v1": constraint.NewEmail(), "v2": constraint.NewUri()}

// omCKey maps a model key to a constraint type: the six real ones, beyond them arbitrary numbers (the container never
// looks inside its keys)
func omCKey(k string) constraint.Type {
	if t, ok := omCKeys[k]; ok {
		return t
	}
	var n int
	fmt.Sscanf(k, "k%d", &n)
	return constraint.Type(1000 + n)
}

func omCKeyName(t constraint.Type) string {
	if t >= 1000 {
		return fmt.Sprintf("k%d", int(t)-1000)
	}
	for k, v := range omCKeys {
		if v == t {
			return k
		}
	}
	return "?" + t.String()
}
func omCValName(c constraint.Constraint) string {
	for k, v := range omCVals {
		if v == c {
			return k
		}
	}
	return "?"
}

type constraintsAd struct{ m *ischema.Constraints }

func (a constraintsAd) supports(string) bool { return true }
func (a constraintsAd) apply(op omOp) {
	switch op.Op {
	case "set":
		a.m.Set(omCKey(op.K), omCVals[op.V])
	case "update":
		a.m.Update(omCKey(op.K), func(constraint.Constraint) constraint.Constraint { return omCVals[op.V] })
	case "delete":
		a.m.Delete(omCKey(op.K))
	case "filter":
		a.m.Filter(func(k constraint.Type, _ constraint.Constraint) bool { return inSet(op.Keys, omCKeyName(k)) })
	case "filterpanic":
		func() {
			defer func() { _ = recover() }()
			a.m.Filter(func(k constraint.Type, _ constraint.Constraint) bool {
				if omCKeyName(k) == op.K {
					panic(errMapCallback)
				}
				return inSet(op.Keys, omCKeyName(k))
			})
		}()
	case "map":
		_ = a.m.Map(func(k constraint.Type, v constraint.Constraint) (constraint.Constraint, error) {
			if inSet(op.Keys, omCKeyName(k)) {
				return omCVals[op.V], nil
			}
			return v, nil
		})
	case "mapfail":
		_ = a.m.Map(func(k constraint.Type, v constraint.Constraint) (constraint.Constraint, error) {
			if omCKeyName(k) == op.K {
				return nil, errMapCallback
			}
			if inSet(op.Keys, omCKeyName(k)) {
				return omCVals[op.V], nil
			}
			return v, nil
		})
	}
}
func (a constraintsAd) observe(keys []string) (omObs, []string) {
	o := omObs{Has: map[string]bool{}, Get: map[string]string{}, Find: map[string]string{}}
	o.Len = a.m.Len()
	_ = a.m.Each(func(k constraint.Type, v constraint.Constraint) error {
		o.Each = append(o.Each, omCKeyName(k)+"="+omCValName(v))
		return nil
	})
	a.m.EachSafe(func(k constraint.Type, v constraint.Constraint) {
		o.EachSafe = append(o.EachSafe, omCKeyName(k)+"="+omCValName(v))
	})
	for _, k := range keys {
		o.Has[k] = a.m.Has(omCKey(k))
		if v, ok := a.m.Get(omCKey(k)); ok {
			o.Get[k] = omCValName(v)
		}
	}
	for _, mask := range omMasks {
		it, ok := a.m.Find(func(k constraint.Type, _ constraint.Constraint) bool {
			for i, kk := range omKeys {
				if omCKeys[kk] == k && mask&(1<<i) != 0 {
					return true
				}
			}
			return false
		})
		if ok {
			o.Find[subsetName(mask)] = omCKeyName(it.Key) + "=" + omCValName(it.Value)
		} else {
			o.Find[subsetName(mask)] = "none"
		}
	}
	// MarshalJSON of this internal container is not compared: its keys are integers, the
	// statement speaks of the rule map, the AST-node map and the string set (DESIGN C19).
	return o, nil
}

// -- StringSet (Add/Has/Len/Data only)
type stringSetAd struct {
	m  *jschema.StringSet
	sp *omSpelling
}

func (a stringSetAd) supports(op string) bool { return op == "set" }
func (a stringSetAd) apply(op omOp) {
	if op.Op == "set" {
		a.m.Add(a.sp.f(op.K))
	}
}
func (a stringSetAd) observe(keys []string) (omObs, []string) {
	o := omObs{Has: map[string]bool{}, Get: map[string]string{}, Find: nil}
	o.Len = a.m.Len()
	for _, k := range a.m.Data() {
		o.Each = append(o.Each, a.sp.b(k))
	}
	o.EachSafe = o.Each
	for _, k := range keys {
		o.Has[k] = a.m.Has(a.sp.f(k))
	}
	return o, nil
}

func newOmAdapter(name string, sp *omSpelling) omAdapter {
	switch name {
	case "RuleASTNodes":
		return ruleNodesAd{&schema.RuleASTNodes{}, sp}
	case "RuleASTNodes.Make":
		return ruleNodesAd{schema.MakeRuleASTNodes(1), sp}
	case "RuleASTNodes.Make8":
		return ruleNodesAd{schema.MakeRuleASTNodes(8), sp}
	case "ASTNodes":
		return astNodesAd{&schema.ASTNodes{}, sp}
	case "Constraints":
		return constraintsAd{&ischema.Constraints{}}
	case "StringSet":
		return stringSetAd{&jschema.StringSet{}, sp}
	case "StringSet.New":
		return stringSetAd{jschema.NewStringSet(), sp}
	}
	panic("unknown container " + name)
}

// subsets of keys used as Find predicates: none, all, singletons, a few pairs / complements
var omMasks = []int{0, 63, 1, 2, 4, 8, 16, 32, 3, 6, 5, 40, 62, 55}

var omContainers = []string{"RuleASTNodes", "RuleASTNodes.Make", "RuleASTNodes.Make8", "ASTNodes", "Constraints", "StringSet", "StringSet.New"}

func omCompare(container string, exp omState, o omObs, inc []string, lastOp string) []core.Finding {
	var fs []core.Finding
	add := func(aspect, what string) {
		fs = append(fs, core.Finding{Class: fmt.Sprintf("%s:%s:after-%s", strings.SplitN(container, ".", 2)[0], aspect, lastOp),
			What: fmt.Sprintf("%s: %s (model order=%v data=%v)", container, what, exp.Order, exp.Data)})
	}
	isSet := strings.HasPrefix(container, "StringSet")
	var want []string
	for _, k := range exp.Order {
		if isSet {
			want = append(want, k)
		} else {
			want = append(want, k+"="+exp.Data[k])
		}
	}
	if o.Len != len(exp.Order) {
		add("len", fmt.Sprintf("Len()=%d, model has %d entries", o.Len, len(exp.Order)))
	}
	if strings.Join(o.Each, ",") != strings.Join(want, ",") {
		add("order", fmt.Sprintf("iteration gives %v, model %v", o.Each, want))
	}
	if strings.Join(o.EachSafe, ",") != strings.Join(want, ",") {
		add("order-safe", fmt.Sprintf("EachSafe gives %v, model %v", o.EachSafe, want))
	}
	for _, k := range omKeys {
		_, present := exp.Data[k]
		if o.Has[k] != present {
			add("has", fmt.Sprintf("Has(%s)=%v, model %v", k, o.Has[k], present))
		}
		if !isSet {
			gv, gok := o.Get[k]
			if gok != present || (present && gv != exp.Data[k]) {
				add("get", fmt.Sprintf("Get(%s)=(%q,%v), model (%q,%v)", k, gv, gok, exp.Data[k], present))
			}
		}
	}
	if o.Find != nil {
		for _, mask := range omMasks {
			wantF := "none"
			for _, k := range exp.Order {
				hit := false
				for i, kk := range omKeys {
					if kk == k && mask&(1<<i) != 0 {
						hit = true
					}
				}
				if hit {
					wantF = k + "=" + exp.Data[k]
					break
				}
			}
			if o.Find[subsetName(mask)] != wantF {
				add("find", fmt.Sprintf("Find(keys in {%s})=%s, model %s", subsetName(mask), o.Find[subsetName(mask)], wantF))
			}
		}
	}
	if strings.HasPrefix(container, "RuleASTNodes") || container == "ASTNodes" {
		if o.JSONErr != "" {
			add("json", "MarshalJSON: "+o.JSONErr)
		} else if strings.Join(o.JSON, ",") != strings.Join(want, ",") {
			add("json", fmt.Sprintf("MarshalJSON entries %v, model %v", o.JSON, want))
		}
	}
	for _, s := range inc {
		add("each-stop", s)
	}
	return fs
}

// omEval replays one case; compares after every op when Expect has all states, else at the end.
func omEval(cs omCase) []core.Finding {
	return core.Guard(cs.Container, func() []core.Finding {
		ad := newOmAdapter(cs.Container, omSpellingOf(cs.Spell))
		var fs []core.Finding
		for i, op := range cs.Ops {
			if !ad.supports(op.Op) {
				return nil
			}
			ad.apply(op)
			if i < len(cs.Expect) && (cs.Expect[i].Order != nil || i == len(cs.Ops)-1) {
				o, inc := ad.observe(omKeys)
				fs = append(fs, omCompare(cs.Container, cs.Expect[i], o, inc, op.Op)...)
				if len(fs) > 0 {
					return fs // the first divergence is the finding; later ones are consequences
				}
			}
		}
		return fs
	})
}

type omGraph struct {
	g     *tlc.Graph
	state map[string]omState
}

func omStateOf(st map[string]any) omState {
	s := omState{Order: tlc.Strs(st["order"]), Data: map[string]string{}}
	if s.Order == nil {
		s.Order = []string{}
	}
	for k, v := range tlc.Rec(st["data"]) {
		s.Data[k] = tlc.Str(v)
	}
	return s
}

var errMapCallback = errors.New("the callback refuses this entry")

func omOpOf(e tlc.Edge) omOp {
	switch e.Action {
	case "Set":
		return omOp{Op: "set", K: tlc.Str(e.Args[0]), V: tlc.Str(e.Args[1])}
	case "Update":
		return omOp{Op: "update", K: tlc.Str(e.Args[0]), V: tlc.Str(e.Args[1])}
	case "Delete":
		return omOp{Op: "delete", K: tlc.Str(e.Args[0])}
	case "Filter":
		ks := tlc.Strs(e.Args[0])
		sort.Strings(ks)
		if ks == nil {
			ks = []string{}
		}
		return omOp{Op: "filter", Keys: ks}
	case "MapOp":
		ks := tlc.Strs(e.Args[0])
		sort.Strings(ks)
		if ks == nil {
			ks = []string{}
		}
		return omOp{Op: "map", Keys: ks, V: tlc.Str(e.Args[1])}
	case "FilterPanic":
		ks := tlc.Strs(e.Args[0])
		sort.Strings(ks)
		if ks == nil {
			ks = []string{}
		}
		return omOp{Op: "filterpanic", Keys: ks, K: tlc.Str(e.Args[1])}
	case "MapFail":
		ks := tlc.Strs(e.Args[0])
		sort.Strings(ks)
		if ks == nil {
			ks = []string{}
		}
		return omOp{Op: "mapfail", Keys: ks, V: tlc.Str(e.Args[1]), K: tlc.Str(e.Args[2])}
	}
	panic("unknown action " + e.Action)
}

func runC19(c *core.Ctx) error {
	res, err := tlc.Run(tlc.Opts{Module: "OrderedMap", Cfg: "OrderedMap_graph.cfg", Workers: 4, DumpDot: true, Coverage: c.Thorough()})
	defer res.Cleanup()
	if err != nil {
		return err
	}
	if err := res.MustOK(); err != nil {
		return err
	}
	c.AddTLC("OrderedMap_graph.cfg", res)
	omSpellTabs = []map[string]string{nil}
	for _, l := range res.Lines {
		var rec struct {
			Spellings []map[string]string `json:"spellings"`
		}
		if json.Unmarshal([]byte(l), &rec) == nil && len(rec.Spellings) > 0 {
			omSpellTabs = append(omSpellTabs, rec.Spellings...)
			break
		}
	}
	if len(omSpellTabs) < 2 {
		return fmt.Errorf("OrderedMap.tla printed no Spellings")
	}
	c.Set("key_spellings", len(omSpellTabs))
	g, err := tlc.LoadDot(res.DotPath)
	if err != nil {
		return err
	}
	if len(g.Init) != 1 {
		return fmt.Errorf("expected one initial state, got %d", len(g.Init))
	}
	states := map[string]omState{}
	for id, st := range g.State {
		states[id] = omStateOf(st)
	}
	c.Set("graph_states", len(g.State))
	c.Set("graph_edges", g.NEdge)
	// access sequences (BFS)
	type acc struct {
		ops []omOp
		exp []omState
	}
	access := map[string]acc{g.Init[0]: {}}
	queue := []string{g.Init[0]}
	for len(queue) > 0 {
		id := queue[0]
		queue = queue[1:]
		for _, e := range g.Edges[id] {
			if _, ok := access[e.To]; ok {
				continue
			}
			a := access[id]
			access[e.To] = acc{ops: append(append([]omOp{}, a.ops...), omOpOf(e)), exp: append(append([]omState{}, a.exp...), states[e.To])}
			queue = append(queue, e.To)
		}
	}
	if len(access) != len(g.State) {
		return fmt.Errorf("graph not connected: %d of %d states reached", len(access), len(g.State))
	}
	// enumerate: from every state s (reached by its access sequence), all paths of length <= k.
	k := c.Pick(2, 3)
	kInit := c.Pick(3, 4)
	type job struct {
		start string
		depth int
	}
	var jobs []job
	for _, id := range g.Order {
		d := k
		if id == g.Init[0] {
			d = kInit
		}
		jobs = append(jobs, job{id, d})
	}
	edgeCovered := map[string]bool{}
	var covMu = make(chan struct{}, 1)
	covMu <- struct{}{}
	core.ParallelFor(len(jobs), func(ji int) {
		j := jobs[ji]
		a := access[j.start]
		ops := append([]omOp{}, a.ops...)
		exp := append([]omState{}, a.exp...)
		local := map[string]bool{}
		nth := ji
		var rec func(id string, depth int)
		rec = func(id string, depth int) {
			if len(ops) > 0 {
				// every path with the keys spelled as named, and under one of the other spellings in rotation
				nth++
				tabs := []map[string]string{nil}
				if nth%2 == 0 {
					tabs = append(tabs, omSpellTabs[1+(nth/2)%(len(omSpellTabs)-1)])
				}
				for _, tab := range tabs {
					for _, cont := range omContainers {
						if tab != nil && cont == "Constraints" {
							continue // typed keys: nothing to spell
						}
						cs := omCase{Spell: tab, Container: cont, Ops: ops, Expect: exp}
						fs := omEval(cs)
						c.CountEval(1)
						if len(fs) > 0 {
							c.Report(omCase{Spell: tab, Container: cont, Ops: append([]omOp{}, ops...), Expect: append([]omState{}, exp...)}, fs)
						}
					}
				}
			}
			if depth == 0 {
				return
			}
			for _, e := range g.Edges[id] {
				local[e.From+e.Label] = true
				ops = append(ops, omOpOf(e))
				exp = append(exp, states[e.To])
				rec(e.To, depth-1)
				ops = ops[:len(ops)-1]
				exp = exp[:len(exp)-1]
			}
		}
		rec(j.start, j.depth)
		<-covMu
		for k := range local {
			edgeCovered[k] = true
		}
		covMu <- struct{}{}
	})
	c.Set("graph_edges_replayed", len(edgeCovered))
	for id := range g.State {
		c.Nontrivial("state:" + id)
	}
	for e := range edgeCovered {
		c.Nontrivial("edge:" + e)
	}
	c.AddInt("traces_validated_against_impl", 0)
	// random long walks on the graph (seeded), compared after every step
	rng := rand.New(rand.NewSource(c.Seed))
	nw := c.Pick(2000, 50000)
	walks := make([]omCase, 0, nw)
	for w := 0; w < nw; w++ {
		id := g.Init[0]
		n := 10 + rng.Intn(40)
		var ops []omOp
		var exp []omState
		for i := 0; i < n; i++ {
			es := g.Edges[id]
			e := es[rng.Intn(len(es))]
			ops = append(ops, omOpOf(e))
			exp = append(exp, states[e.To])
			id = e.To
		}
		walks = append(walks, omCase{Ops: ops, Expect: exp})
	}
	core.ParallelFor(len(walks), func(i int) {
		for _, tab := range omSpellTabs {
			for _, cont := range omContainers {
				if tab != nil && cont == "Constraints" {
					continue
				}
				cs := walks[i]
				cs.Container, cs.Spell = cont, tab
				fs := omEval(cs)
				c.CountEval(1)
				c.Report(cs, fs)
			}
		}
	})
	c.Set("random_walks", nw)
	// long random behaviours over six keys, generated by TLC in simulation mode (one trace file per behaviour)
	var simCases []omCase
	behs, sim, err := tlc.SimulateBehaviours("OrderedMap", "OrderedMap_sim.cfg", c.Pick(400, 6000), 60, c.Seed)
	if sim != nil {
		sim.Cleanup()
	}
	if err != nil {
		return err
	}
	// and over seventy keys, 400 operations each: the containers grow past every size at which maps and slices reallocate
	big, simb, err := tlc.SimulateBehaviours("OrderedMap", "OrderedMap_simbig.cfg", c.Pick(12, 120), 400, c.Seed)
	if simb != nil {
		simb.Cleanup()
	}
	if err != nil {
		return err
	}
	c.Set("simulated_behaviours_70_keys", len(big))
	behs = append(behs, big...)
	for _, beh := range behs {
		var cs omCase
		for _, st := range beh[1:] {
			last := tlc.Rec(st["last"])
			op := omOp{Op: tlc.Str(last["op"]), K: "", V: ""}
			if k, ok := last["k"]; ok {
				op.K = tlc.Str(k)
			}
			if v, ok := last["v"]; ok {
				op.V = tlc.Str(v)
			}
			for _, f := range []string{"keep", "on"} {
				if ks, ok := last[f]; ok {
					op.Keys = tlc.Strs(ks)
					if op.Keys == nil {
						op.Keys = []string{}
					}
					sort.Strings(op.Keys)
				}
			}
			cs.Ops = append(cs.Ops, op)
			cs.Expect = append(cs.Expect, omStateOf(st))
		}
		if len(cs.Ops) > 0 {
			simCases = append(simCases, cs)
		}
	}
	if len(simCases) == 0 {
		return fmt.Errorf("OrderedMap simulation produced no behaviour")
	}
	core.ParallelFor(len(simCases), func(i int) {
		for _, tab := range omSpellTabs {
			for _, cont := range omContainers {
				if tab != nil && cont == "Constraints" {
					continue
				}
				cs := simCases[i]
				cs.Container, cs.Spell = cont, tab
				fs := omEval(cs)
				c.CountEval(1)
				c.Report(cs, fs)
			}
		}
	})
	c.Set("simulated_behaviours_6_keys", len(simCases))
	c.Sample(walks[0].Ops[:6])
	c.Set("rule", "paths of the TLC-dumped OrderedMap state graph: from every state (by BFS access sequence) all action sequences of length <= k (k from the initial state one larger), on 6 container constructions; plus seeded random walks of 10-50 actions compared after every action. distinct_nontrivial counts graph states reached plus distinct (state, action) edges replayed")
	c.Set("k_from_every_state", k)
	c.Set("k_from_init", kInit)
	c.Set("exhaustive", true)
	c.Assume = append(c.Assume, "keys {k1,k2,k3} (six and seventy in the simulated behaviours), values {v1,v2}; keys spelled as named and as the rows of OrderedMap!Spellings spell them (rotating over the exhaustive paths, every row for walks and simulated behaviours); value contents are not varied",
		"ischema.Constraints.MarshalJSON is not compared (integer keys; container not named by the statement)")
	return nil
}

func init() {
	register(&core.Check{ID: "C19", Level: "model_checking", Run: runC19,
		Replay: func(c *core.Ctx, raw json.RawMessage) ([]core.Finding, error) {
			var cs omCase
			if err := json.Unmarshal(raw, &cs); err != nil {
				return nil, err
			}
			return omEval(cs), nil
		}})
}
