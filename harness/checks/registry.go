// Package checks holds one file per property.
package checks

import "verif/harness/internal/core"

var All = map[string]*core.Check{}

func register(c *core.Check) { All[c.ID] = c }
