package checks

import (
	"encoding/json"
	"fmt"
	"sort"
	"strings"

	schema "github.com/jsightapi/jsight-schema-core"
	"github.com/jsightapi/jsight-schema-core/notations/jschema"

	"verif/harness/internal/core"
	"verif/harness/internal/model"
	"verif/harness/internal/tlc"
)

// C04: SchemaText.tla builds annotated projects and defines AstOf; every project is printed under all
// annotation placements and GetAST() is compared with AstOf.

type stCase struct {
	P      model.Project `json:"p"`
	Layout model.Layout  `json:"layout"`
	Warm   []string      `json:"warm,omitempty"` // call prefix (SchemaApi_orders) after which GetAST() is compared again
}

func stSchema(p model.Project, l model.Layout) (*jschema.JSchema, string, error) {
	text := l.Print(p)
	s := jschema.New("root", text)
	var ferr error
	rejected := false
	eachSupport(model.SupportTypes, func(n, t string) bool {
		if err := regSupport(s, n, t); err != nil {
			if jschema.New("root", text).Check() != nil {
				rejected = true // the root text itself is rejected: AddType reports the root's load error
				return false
			}
			ferr = fmt.Errorf("AddType(%s): %v", n, err)
			return false
		}
		return true
	})
	if ferr != nil {
		return nil, text, ferr
	}
	_ = rejected
	return s, text, nil
}

func normWS(s string) string { return strings.Join(strings.Fields(s), " ") }

func astRuleVal(r schema.RuleASTNode) model.AstRuleVal {
	v := model.AstRuleVal{TT: string(r.TokenType), Val: r.Value, Items: []model.AstRuleVal{}, Props: []model.AstRule{}}
	if strings.HasPrefix(v.Val, "@") && v.TT == "string" {
		v.TT = "reference" // a type name as rule value: written as a string, reported as string or reference
	}
	for _, it := range r.Items {
		v.Items = append(v.Items, astRuleVal(it))
	}
	if r.Properties != nil {
		r.Properties.EachSafe(func(k string, x schema.RuleASTNode) {
			v.Props = append(v.Props, model.AstRule{N: k, V: astRuleVal(x)})
		})
	}
	return v
}

// astNorm converts the real AST to the specification's shape; rules the library generated itself for
// reference elements (Source = generated) are the representation of the reference text and are left out.
func astNorm(a schema.ASTNode) model.Ast {
	n := model.Ast{TT: a.TokenType, Key: a.Key, Sc: a.IsKeyShortcut, Val: a.Value, Note: normWS(a.Comment), Rules: []model.AstRule{}, Kids: []model.Ast{}}
	if a.Rules != nil {
		a.Rules.EachSafe(func(k string, r schema.RuleASTNode) {
			if r.Source == schema.RuleASTNodeSourceGenerated {
				return
			}
			n.Rules = append(n.Rules, model.AstRule{N: k, V: astRuleVal(r)})
		})
	}
	for _, c := range a.Children {
		n.Kids = append(n.Kids, astNorm(c))
	}
	return n
}

func expectNorm(a model.Ast) model.Ast {
	// keys are written as they stand between the quotes: decode them; notes compare modulo blanks
	if !a.Sc && a.Key != "" {
		var k string
		if json.Unmarshal([]byte(`"`+a.Key+`"`), &k) == nil {
			a.Key = k
		}
	}
	a.Note = normWS(a.Note)
	if a.Rules == nil {
		a.Rules = []model.AstRule{}
	}
	kids := []model.Ast{}
	for _, k := range a.Kids {
		kids = append(kids, expectNorm(k))
	}
	a.Kids = kids
	for i := range a.Rules {
		a.Rules[i].V = expectRuleNorm(a.Rules[i].V)
	}
	return a
}

func expectRuleNorm(v model.AstRuleVal) model.AstRuleVal {
	if strings.HasPrefix(v.Val, "@") && v.TT == "string" {
		v.TT = "reference"
	}
	items := []model.AstRuleVal{}
	for _, it := range v.Items {
		items = append(items, expectRuleNorm(it))
	}
	v.Items = items
	props := []model.AstRule{}
	for _, p := range v.Props {
		props = append(props, model.AstRule{N: p.N, V: expectRuleNorm(p.V)})
	}
	v.Props = props
	return v
}

// astDiff returns a description of the first difference and a class tag.
func astDiff(got, want model.Ast, path string) (string, string) {
	switch {
	case got.TT != want.TT:
		return fmt.Sprintf("%s: kind %q, source says %q", path, got.TT, want.TT), "kind"
	case got.Key != want.Key || got.Sc != want.Sc:
		return fmt.Sprintf("%s: key %q (shortcut=%v), source says %q (shortcut=%v)", path, got.Key, got.Sc, want.Key, want.Sc), "key"
	case got.Val != want.Val:
		return fmt.Sprintf("%s: value %q, source says %q", path, got.Val, want.Val), "value"
	case got.Note != want.Note:
		return fmt.Sprintf("%s: note %q, source says %q", path, got.Note, want.Note), "note"
	}
	if len(got.Rules) != len(want.Rules) {
		return fmt.Sprintf("%s: rules %v, source has %v", path, ruleNames(got.Rules), ruleNames(want.Rules)), "rule-set"
	}
	for i := range want.Rules {
		if got.Rules[i].N != want.Rules[i].N {
			return fmt.Sprintf("%s: rule #%d is %q, source says %q (order %v vs %v)", path, i, got.Rules[i].N, want.Rules[i].N, ruleNames(got.Rules), ruleNames(want.Rules)), "rule-order"
		}
		g, _ := json.Marshal(got.Rules[i].V)
		w, _ := json.Marshal(want.Rules[i].V)
		if string(g) != string(w) {
			return fmt.Sprintf("%s: rule %q has value %s, source says %s", path, want.Rules[i].N, g, w), "rule-value:" + want.Rules[i].N
		}
	}
	if len(got.Kids) != len(want.Kids) {
		return fmt.Sprintf("%s: %d children, source has %d", path, len(got.Kids), len(want.Kids)), "children"
	}
	for i := range want.Kids {
		if d, c := astDiff(got.Kids[i], want.Kids[i], fmt.Sprintf("%s/%d", path, i)); d != "" {
			return d, c
		}
	}
	return "", ""
}

func ruleNames(rs []model.AstRule) []string {
	var out []string
	for _, r := range rs {
		out = append(out, r.N)
	}
	return out
}

// stEvalAST compares GetAST() of a fresh object with AstOf, and again on an object that has answered cs.Warm.
func stEvalAST(c *core.Ctx, cs stCase) []core.Finding {
	fs := stEvalASTAfter(c, cs, nil)
	if len(cs.Warm) > 0 {
		for _, f := range stEvalASTAfter(nil, cs, cs.Warm) {
			f.Class += ":after-other-calls"
			f.What = "after the calls " + strings.Join(cs.Warm, ", ") + " on the same object: " + f.What
			fs = append(fs, f)
		}
	}
	return fs
}

func stEvalASTAfter(c *core.Ctx, cs stCase, warm []string) []core.Finding {
	return core.Guard("GetAST", func() []core.Finding {
		s, text, err := stSchema(cs.P, cs.Layout)
		if err != nil {
			return []core.Finding{{Class: "ast:support-type", What: err.Error()}}
		}
		if p := warmUp(s, warm); p != "" {
			return []core.Finding{{Class: "ast:panic", What: "panic " + p + "\n" + text}}
		}
		ast, err := s.GetAST()
		if err != nil {
			// "for every accepted schema": a rejected project has no AST to compare; the generator is calibrated
			// so that this stays rare (counted)
			if c != nil {
				c.Inconclusive(fmt.Sprintf("project-rejected-code-%d", errCode(err)))
			}
			return nil
		}
		got, want := astNorm(ast), expectNorm(cs.P.Ast)
		if d, cl := astDiff(got, want, "$"); d != "" {
			return []core.Finding{{Class: "ast:" + cl, What: fmt.Sprintf("%s [%s]\n%s", d, cs.Layout, text)}}
		}
		return nil
	})
}

func stLayouts(thorough bool) []model.Layout {
	var out []model.Layout
	for _, multi := range []int{0, 1, 2} {
		for _, q := range []int{0, 1, 2, 4} {
			out = append(out, model.Layout{NL: "\n", Multi: multi, Quote: q})
		}
	}
	// one annotation written as two
	out = append(out, model.Layout{NL: "\n", Split: 1}, model.Layout{NL: "\n", Split: 2, Quote: 1}, model.Layout{NL: "\r\n", Split: 2, Pad: 1}, model.Layout{NL: "\r", Split: 1, Quote: 4})
	// padding that ends in a tab, with each annotation style
	out = append(out, model.Layout{NL: "\n", Multi: 0, Pad: 3}, model.Layout{NL: "\n", Multi: 1, Pad: 4, Quote: 4}, model.Layout{NL: "\r\n", Multi: 2, Pad: 3, Quote: 1})
	if thorough {
		out = append(out, model.Layout{NL: "\r\n", Multi: 0, Pad: 1}, model.Layout{NL: "\n", Multi: 2, Quote: 3, Pad: 2, LeadBlank: 1, TailBlank: 2})
	}
	return out
}

func stProjects(c *core.Ctx, cfgQuick string, thoroughBody string) ([]model.Project, error) {
	cfg := cfgQuick
	files := map[string][]byte{}
	if c.Thorough() && thoroughBody != "" {
		cfg = "SchemaText_thorough.cfg"
		files[cfg] = []byte(thoroughBody)
	}
	var ps []model.Project
	var lines []string
	res, err := tlc.Run(tlc.Opts{Module: "SchemaText", Cfg: cfg, Workers: 16, Files: files, Timeout: 0, HeapGB: 12, OnLine: func(l string) { lines = append(lines, l) }})
	res.Cleanup()
	if err != nil {
		return nil, err
	}
	if err := res.MustOK(); err != nil {
		return nil, err
	}
	c.AddTLC(cfg, res)
	// TLC's workers print in arrival order: sort, so that seeded samples of the projects are the same in every run
	sort.Strings(lines)
	for _, l := range lines {
		var p model.Project
		if err := json.Unmarshal([]byte(l), &p); err != nil {
			c.InfraError("bad project: %v", err)
			continue
		}
		p.Resolve()
		ps = append(ps, p)
	}
	if len(ps) == 0 {
		return nil, fmt.Errorf("no projects emitted")
	}
	return ps, nil
}

const stThoroughCfg = "SPECIFICATION Spec\nCONSTANTS\n  MaxProps = 3\n  ValueIdx = {1, 2, 3, 5, 7, 8, 9, 10, 11, 13, 14, 15}\n  AnnPerValue = 4\n  Contexts = {0, 1, 2}\nINVARIANTS OneNodePerElement Emit\nCHECK_DEADLOCK FALSE\n"

func runC04(c *core.Ctx) error {
	ps, err := stProjects(c, "SchemaText_quick.cfg", stThoroughCfg)
	if err != nil {
		return err
	}
	c.Set("projects", len(ps))
	layouts := stLayouts(c.Thorough())
	if _, err := loadCallOrders(); err != nil {
		return err
	}
	core.ParallelFor(len(ps), func(i int) {
		for li, l := range layouts {
			cs := stCase{P: ps[i], Layout: l, Warm: callPrefix(i*len(layouts)+li, c.Seed)}
			c.CountEval(2)
			c.Report(cs, stEvalAST(c, cs))
		}
		b, _ := json.Marshal(ps[i].Project)
		c.Nontrivial(string(b))
	})
	// direction 2: the scanner's event streams for a seeded sample of the printed projects (every layout of C04 and
	// a sample of Layout.tla's), validated by TLC against JSchemaLex
	{
		var texts []string
		stride := c.Pick(41, 7)
		for i := range ps {
			if (i+int(c.Seed))%stride != 0 {
				continue
			}
			l := layouts[(i/stride)%len(layouts)]
			l.Comments = (i / stride / len(layouts)) % 5
			if (i/stride)%3 == 0 {
				l.NL = []string{"\n", "\r\n", "\r"}[(i/stride/3)%3]
			}
			texts = append(texts, l.Print(ps[i]))
		}
		if err := lexValidate(c, texts, "project"); err != nil {
			return err
		}
	}
	c.Sample(layouts[2].Print(ps[len(ps)/2]))
	c.Set("layouts", len(layouts))
	c.Set("rule", "every finished project of SchemaText.tla (root object of 1-2(3) properties, values from a 13-entry menu incl. references, choices, nested arrays/objects, key shortcuts; annotations from per-value menus incl. nested or/enum/allOf lists, 2^64+1 numbers, notes) printed under every annotation placement (inline //, /* */, /* */ with the note on its own line) x quoted/bare rule names; GetAST() normalised and compared with AstOf. distinct_nontrivial = distinct projects")
	c.Assume = append(c.Assume, "rules the library synthesises for reference elements (Source = generated) are compared through the reference text, not as rules", "notes compared modulo blank runs")
	return nil
}

func init() {
	register(&core.Check{ID: "C04", Level: "model_checking", Run: runC04,
		Replay: func(c *core.Ctx, raw json.RawMessage) ([]core.Finding, error) {
			if fs, ok := lexReplay(raw); ok {
				return fs, nil
			}
			var cs stCase
			if err := json.Unmarshal(raw, &cs); err != nil {
				return nil, err
			}
			return stEvalAST(nil, cs), nil
		}})
}
