package checks

import (
	"encoding/json"
	"fmt"
	"math/rand"
	"strings"

	"verif/harness/internal/core"
	"verif/harness/internal/corpus"
	"verif/harness/internal/tlc"
)

// Direction 2 for C12: record what formats/json reports for whole documents (corpus, generated,
// mutated) and let TLC validate the traces against JsonDocTrace.

var jsonClassOfByte [256]string

func init() {
	for c, ms := range classMembers {
		for _, b := range ms {
			jsonClassOfByte[b] = c
		}
	}
	for _, b := range []byte{'@', '|', '#', '*'} {
		jsonClassOfByte[b] = "other"
	}
}

type jdTraceDoc struct {
	Src      string `json:"src"`
	Input    []byte `json:"input"`
	Trailing bool   `json:"trailing"`
}

func jdTraceLines(d jdTraceDoc) [][]byte {
	var lines [][]byte
	lines = append(lines, []byte(`{"ev":"reset"}`))
	for _, b := range d.Input {
		lines = append(lines, []byte(`{"ev":"feed","c":"`+jsonClassOfByte[b]+`"}`))
	}
	var accept bool
	var stream []jdEvent
	var length uint
	func() {
		defer func() {
			if r := recover(); r != nil {
				accept = false
				stream = []jdEvent{{T: "panic", B: -1, E: -1}}
			}
		}()
		checkErr, st, streamErr, ln, lenErr := jdReal(d.Input, d.Trailing)
		accept = checkErr == nil
		if accept && (streamErr != nil || lenErr != nil) {
			st = append(st, jdEvent{T: "error", B: -1, E: -1})
		}
		stream, length = st, ln
	}()
	if stream == nil || !accept {
		stream = []jdEvent{}
	}
	ev, _ := json.Marshal(map[string]any{"ev": "eof", "accept": accept, "len": int(length), "events": stream})
	lines = append(lines, ev)
	return lines
}

func genJSON(rng *rand.Rand, depth int, sb *strings.Builder) {
	ws := func() {
		for rng.Intn(3) == 0 {
			sb.WriteByte(" \t\n\r"[rng.Intn(4)])
		}
	}
	str := func() {
		sb.WriteByte('"')
		for n := rng.Intn(6); n > 0; n-- {
			switch rng.Intn(8) {
			case 0:
				sb.WriteString([]string{`\"`, `\\`, `\/`, `\b`, `\f`, `\n`, `\r`, `\t`}[rng.Intn(8)])
			case 1:
				fmt.Fprintf(sb, `\u%04x`, rng.Intn(0x10000))
			case 2:
				sb.WriteString([]string{"é", "日本", "😀", "\x7f"}[rng.Intn(4)])
			default:
				sb.WriteByte("abcxyz019 -_.:,{}[]"[rng.Intn(19)])
			}
		}
		sb.WriteByte('"')
	}
	k := rng.Intn(8)
	if depth <= 0 && k < 2 {
		k += 2
	}
	switch k {
	case 0:
		sb.WriteByte('{')
		ws()
		n := rng.Intn(4)
		for i := 0; i < n; i++ {
			if i > 0 {
				sb.WriteByte(',')
				ws()
			}
			str()
			ws()
			sb.WriteByte(':')
			ws()
			genJSON(rng, depth-1, sb)
			ws()
		}
		sb.WriteByte('}')
	case 1:
		sb.WriteByte('[')
		ws()
		n := rng.Intn(4)
		for i := 0; i < n; i++ {
			if i > 0 {
				sb.WriteByte(',')
				ws()
			}
			genJSON(rng, depth-1, sb)
			ws()
		}
		sb.WriteByte(']')
	case 2:
		str()
	case 3:
		sb.WriteString([]string{"true", "false", "null"}[rng.Intn(3)])
	default:
		if rng.Intn(3) == 0 {
			sb.WriteByte('-')
		}
		if rng.Intn(3) == 0 {
			sb.WriteByte('0')
		} else {
			fmt.Fprintf(sb, "%d", 1+rng.Intn(9999))
		}
		if rng.Intn(3) == 0 {
			fmt.Fprintf(sb, ".%d", rng.Intn(1000))
		}
		if rng.Intn(4) == 0 {
			sb.WriteString([]string{"e", "E", "e+", "e-", "E+", "E-"}[rng.Intn(6)])
			fmt.Fprintf(sb, "%d", rng.Intn(100))
		}
	}
}

func mutateBytes(rng *rand.Rand, in []byte) []byte {
	out := append([]byte{}, in...)
	alphabet := []byte("{}[]:,\"\\/-+.0127eEtrufalsnb x\t\n\r\x01\xc3@#*|")
	switch rng.Intn(4) {
	case 0:
		if len(out) > 0 {
			i := rng.Intn(len(out))
			out = append(out[:i], out[i+1:]...)
		}
	case 1:
		i := rng.Intn(len(out) + 1)
		out = append(out[:i], append([]byte{alphabet[rng.Intn(len(alphabet))]}, out[i:]...)...)
	case 2:
		if len(out) > 0 {
			out[rng.Intn(len(out))] = alphabet[rng.Intn(len(alphabet))]
		}
	default:
		if len(out) > 0 {
			out = out[:rng.Intn(len(out))]
		}
	}
	return out
}

func runC12Trace(c *core.Ctx) error {
	rng := rand.New(rand.NewSource(c.Seed))
	var docs []jdTraceDoc
	budget := c.Pick(60000, 600000) // bytes per option
	items := corpus.Harvest(400, "formats/json", "json", "notations/jschema", "rules/enum", "openapi", "notations/regex", ".")
	rng.Shuffle(len(items), func(i, j int) { items[i], items[j] = items[j], items[i] })
	used := 0
	for _, it := range items {
		if used > budget/3 {
			break
		}
		docs = append(docs, jdTraceDoc{Src: "corpus:" + it.Src, Input: []byte(it.Text)})
		used += len(it.Text) + 2
	}
	c.Set("trace_corpus_literals", len(docs))
	for used < budget {
		var sb strings.Builder
		for rng.Intn(3) == 0 {
			sb.WriteByte(" \n"[rng.Intn(2)])
		}
		genJSON(rng, 1+rng.Intn(7), &sb)
		for rng.Intn(3) == 0 {
			sb.WriteByte(" \n"[rng.Intn(2)])
		}
		d := []byte(sb.String())
		if len(d) > 600 {
			continue
		}
		docs = append(docs, jdTraceDoc{Src: "generated", Input: d})
		used += len(d) + 2
		if rng.Intn(2) == 0 {
			m := mutateBytes(rng, d)
			docs = append(docs, jdTraceDoc{Src: "mutated", Input: m})
			used += len(m) + 2
		}
	}
	// size: documents with hundreds (thorough: thousands) of members, long literals, deep nesting
	{
		sizes := []int{17, 65, 257, 1025}
		if c.Thorough() {
			sizes = append(sizes, 4097)
		}
		scal := []string{"0", "-1.5", "true", "null", `"a"`, `"\\n"`, "12", `""`, "false", "1e2"}
		for _, n := range sizes {
			var arr, obj strings.Builder
			arr.WriteString("[")
			obj.WriteString("{")
			for i := 0; i < n; i++ {
				if i > 0 {
					arr.WriteString(",")
					obj.WriteString(", ")
				}
				arr.WriteString(scal[(i+n)%len(scal)])
				fmt.Fprintf(&obj, `"k%d":%s`, i, scal[(i*3+n)%len(scal)])
			}
			arr.WriteString("]")
			obj.WriteString("}")
			docs = append(docs, jdTraceDoc{Src: "scaled", Input: []byte(arr.String())}, jdTraceDoc{Src: "scaled", Input: []byte(obj.String())})
			if n <= 300 {
				docs = append(docs, jdTraceDoc{Src: "scaled", Input: []byte(strings.Repeat("[", n) + strings.Repeat("]", n))},
					jdTraceDoc{Src: "scaled", Input: []byte(strings.Repeat(`{"a":`, n) + "1" + strings.Repeat("}", n))},
					jdTraceDoc{Src: "scaled", Input: []byte(`"` + strings.Repeat("ab\\u0041", n) + `"`)},
					jdTraceDoc{Src: "scaled", Input: []byte("-" + strings.Repeat("9", n) + "." + strings.Repeat("0", n) + "1e-" + strings.Repeat("3", 3))})
			}
		}
	}
	validated := 0
	for _, trailing := range []bool{false, true} {
		cfg := "JsonDocTrace_plain.cfg"
		if trailing {
			cfg = "JsonDocTrace_trailing.cfg"
		}
		cur := make([]jdTraceDoc, len(docs))
		for i := range docs {
			cur[i] = docs[i]
			cur[i].Trailing = trailing
		}
		var lines [][]byte
		var docOfLine []int
		for i, d := range cur {
			ls := jdTraceLines(d)
			for range ls {
				docOfLine = append(docOfLine, i)
			}
			lines = append(lines, ls...)
		}
		bad, res, err := tlc.ValidateTrace("JsonDocTrace", cfg, lines, nil)
		if res != nil {
			c.AddTLC(cfg, res)
			res.Cleanup()
		}
		if err != nil {
			return err
		}
		validated += len(cur) - len(bad)
		mode := "plain"
		if trailing {
			mode = "trailing"
		}
		for _, ln := range bad {
			d := cur[docOfLine[ln-1]]
			c.Report(d, []core.Finding{{Class: "jdoc-trace:" + mode + ":" + jdNumClass(d.Input),
				What: fmt.Sprintf("JsonDocTrace rejects what formats/json reported for %q (%s): %s", d.Input, d.Src, lines[ln-1])}})
		}
	}
	c.AddInt("traces_validated_against_impl", int64(validated))
	c.Sample(map[string]any{"trace_doc": string(docs[len(docs)/2].Input), "src": docs[len(docs)/2].Src})
	return nil
}

func jdTraceReplay(raw json.RawMessage) ([]core.Finding, error) {
	var d jdTraceDoc
	if err := json.Unmarshal(raw, &d); err != nil {
		return nil, err
	}
	cfg := "JsonDocTrace_plain.cfg"
	if d.Trailing {
		cfg = "JsonDocTrace_trailing.cfg"
	}
	one := jdTraceLines(d)
	bad, res, err := tlc.ValidateTrace("JsonDocTrace", cfg, one, nil)
	if res != nil {
		res.Cleanup()
	}
	if err != nil {
		return nil, err
	}
	if len(bad) != 0 {
		return []core.Finding{{Class: "jdoc-trace", What: fmt.Sprintf("trace of %q rejected at line %d: %s", d.Input, bad[0], one[bad[0]-1])}}, nil
	}
	return nil, nil
}
