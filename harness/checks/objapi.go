package checks

import (
	"encoding/json"
	"fmt"
	"regexp"
	"strings"
	"sync"

	schema "github.com/jsightapi/jsight-schema-core"
	jbytes "github.com/jsightapi/jsight-schema-core/bytes"
	jdoc "github.com/jsightapi/jsight-schema-core/formats/json"
	jnum "github.com/jsightapi/jsight-schema-core/json"
	"github.com/jsightapi/jsight-schema-core/notations/regex"
	"github.com/jsightapi/jsight-schema-core/rules/enum"

	"verif/harness/internal/core"
	"verif/harness/internal/tlc"
)

// Call histories on the small public objects (JSON document, number, regex schema, enum rule, literal guessing).
// SchemaApi.tla states for every kind of object that the result of a call is a function of the object's text and
// that a returned value never changes; SchemaApi_<kind>.cfg (two objects, two texts, every sequence of up to three
// calls) is enumerated by TLC, the harness substitutes pairs of catalogue texts and replays every history:
//   (i)  every result equals the result of the same call on a fresh object,
//   (ii) every value handed out earlier still reads the same after every later call.

type objKind struct {
	name   string
	create func(text string) any
	// call performs op and returns the observable result and, if the result is a value the caller keeps,
	// a function that re-reads that very value
	call func(obj any, op string) (res string, held func() string)
	// stable is false for operations whose result is not a function of the text (random examples): only (ii)
	// and the kind's own validity check apply
	stable func(op string) bool
	valid  func(text, op, res string) string // "" or a complaint
	// stream gives, for kinds with a read cursor, the results of reading a fresh object to its end (the last entry is
	// the terminal answer); the result of a "Next" at cursor k is stream[k] (SchemaApi!CursorAt)
	stream func(text string) []string
}

var (
	objHistMu sync.Mutex
	objHist   = map[string][]apiHist{}
)

// objHistories loads the histories of SchemaApi_<kind>.cfg (once per process).
func objHistories(c *core.Ctx, kind string) ([]apiHist, error) {
	objHistMu.Lock()
	defer objHistMu.Unlock()
	if h, ok := objHist[kind]; ok {
		return h, nil
	}
	cfg := "SchemaApi_" + kind + ".cfg"
	var lines []string
	res, err := tlc.Run(tlc.Opts{Module: "SchemaApi", Cfg: cfg, Workers: 4, OnLine: func(l string) { lines = append(lines, l) }})
	if res != nil {
		defer res.Cleanup()
	}
	if err != nil {
		return nil, err
	}
	if err := res.MustOK(); err != nil {
		return nil, err
	}
	c.AddTLC(cfg, res)
	var hs []apiHist
	for _, l := range lines {
		var h apiHist
		if json.Unmarshal([]byte(l), &h) != nil {
			continue
		}
		calls := 0
		for _, st := range h.Hist {
			if st.Op != "New" {
				calls++
			}
		}
		if calls >= 2 { // single calls are what every other part of the check does already
			hs = append(hs, h)
		}
	}
	if len(hs) == 0 {
		return nil, fmt.Errorf("%s: no histories", cfg)
	}
	objHist[kind] = hs
	return hs, nil
}

type objHistCase struct {
	Kind   string    `json:"objkind"`
	T1     string    `json:"t1"`
	T2     string    `json:"t2"`
	Steps  []apiStep `json:"hist"`
	Cursor []int     `json:"cursor,omitempty"`
}

func objReplay(k objKind, cs objHistCase) []core.Finding {
	return core.Guard(k.name+"-history", func() []core.Finding {
		texts := map[string]string{"c1": cs.T1, "c2": cs.T2}
		objs := map[string]any{}
		content := map[string]string{}
		type heldT struct {
			step int
			op   string
			read func() string
			snap string
		}
		var held []heldT
		var fs []core.Finding
		describe := func() string {
			var sb strings.Builder
			for _, st := range cs.Steps {
				if st.Op == "New" {
					fmt.Fprintf(&sb, "%s := New(%.60q); ", st.Obj, texts[st.Arg])
				} else {
					fmt.Fprintf(&sb, "%s.%s(); ", st.Obj, st.Op)
				}
			}
			return sb.String()
		}
		for i, st := range cs.Steps {
			if st.Op == "New" {
				objs[st.Obj] = k.create(texts[st.Arg])
				content[st.Obj] = texts[st.Arg]
				continue
			}
			res, rd := k.call(objs[st.Obj], st.Op)
			if st.Op == "Next" && k.stream != nil && i < len(cs.Cursor) && cs.Cursor[i] >= 0 {
				// beyond the first terminal answer (end of input, or a refusal) nothing is demanded
				if want := k.stream(content[st.Obj]); cs.Cursor[i] < len(want) && want[cs.Cursor[i]] != res {
					fs = append(fs, core.Finding{Class: k.name + ":cursor:Next", What: fmt.Sprintf("step %d %s.Next() = %.120q, element %d of the text's stream is %.120q; history: %s", i, st.Obj, res, cs.Cursor[i], want[cs.Cursor[i]], describe())})
				}
			} else if k.stable == nil || k.stable(st.Op) {
				ref, _ := k.call(k.create(content[st.Obj]), st.Op)
				if ref != res {
					fs = append(fs, core.Finding{Class: k.name + ":history-dependent:" + st.Op, What: fmt.Sprintf("step %d %s.%s() = %.200q, on a fresh object with the same text %.200q; history: %s", i, st.Obj, st.Op, res, ref, describe())})
				}
			}
			if k.valid != nil {
				if msg := k.valid(content[st.Obj], st.Op, res); msg != "" {
					fs = append(fs, core.Finding{Class: k.name + ":invalid-result:" + st.Op, What: fmt.Sprintf("step %d %s.%s(): %s; history: %s", i, st.Obj, st.Op, msg, describe())})
				}
			}
			for hi := range held {
				if now := held[hi].read(); now != held[hi].snap {
					fs = append(fs, core.Finding{Class: k.name + ":held-result-changed:" + held[hi].op + "-after-" + st.Op, What: fmt.Sprintf("the value returned by step %d (%s) read %.120q then and reads %.120q after step %d %s.%s(); history: %s", held[hi].step, held[hi].op, held[hi].snap, now, i, st.Obj, st.Op, describe())})
					held[hi].snap = now
				}
			}
			if rd != nil {
				held = append(held, heldT{step: i, op: st.Op, read: rd, snap: rd()})
			}
		}
		return fs
	})
}

// runObjHistories replays every history of the kind on the given pairs of texts.
func runObjHistories(c *core.Ctx, k objKind, pairs [][2]string) error {
	hs, err := objHistories(c, k.name)
	if err != nil {
		return err
	}
	core.ParallelFor(len(pairs), func(pi int) {
		for _, h := range hs {
			cs := objHistCase{Kind: k.name, T1: pairs[pi][0], T2: pairs[pi][1], Steps: h.Hist, Cursor: h.Cursor}
			c.CountEval(1)
			c.Report(cs, objReplay(k, cs))
		}
	})
	c.Set("object_histories_"+k.name, len(hs)*len(pairs))
	return nil
}

// objReplayCase is used by the --replay entry of the checks: it recognises a stored history case.
func objReplayCase(raw json.RawMessage) ([]core.Finding, bool) {
	var cs objHistCase
	if json.Unmarshal(raw, &cs) != nil || cs.Kind == "" || len(cs.Steps) == 0 {
		return nil, false
	}
	k, ok := objKinds[cs.Kind]
	if !ok {
		return nil, false
	}
	return objReplay(k, cs), true
}

func objErr(err error) string {
	if err == nil {
		return "nil"
	}
	return "ERR " + err.Error()
}

func objPanic(res *string) {
	if r := recover(); r != nil {
		*res = "PANIC " + firstLineStr(fmt.Sprint(r))
	}
}

var objKinds = map[string]objKind{
	"jdoc": {name: "jdoc",
		create: func(text string) any {
			if strings.HasPrefix(text, "\x00trailing:") {
				return jdoc.New("doc", strings.TrimPrefix(text, "\x00trailing:"), jdoc.AllowTrailingNonSpaceCharacters())
			}
			return jdoc.New("doc", text)
		},
		call: func(obj any, op string) (res string, held func() string) {
			defer objPanic(&res)
			d := obj.(schema.Document)
			switch op {
			case "Check":
				return objErr(d.Check()), nil
			case "Len":
				n, err := d.Len()
				return fmt.Sprint(n, " ", objErr(err)), nil
			case "Next":
				lex, err := d.NextLexeme()
				if err != nil {
					return "END " + objErr(err), nil
				}
				return lex.String(), nil
			}
			return "unknown op", nil
		},
		stable: func(op string) bool { return op != "Next" }},
	"number": {name: "number",
		create: func(text string) any {
			n, err := jnum.NewNumber(jbytes.NewBytes(text))
			if err != nil {
				return nil
			}
			return n
		},
		call: func(obj any, op string) (res string, held func() string) {
			defer objPanic(&res)
			if obj == nil {
				return "rejected", nil
			}
			n := obj.(*jnum.Number)
			other := func(t string) *jnum.Number { x, _ := jnum.NewNumber(jbytes.NewBytes(t)); return x }
			switch op {
			case "String":
				return n.String(), nil
			case "Cmp025":
				return fmt.Sprint(n.Cmp(other("0.25")), n.GreaterThan(other("0.25")), n.LessThanOrEqual(other("0.25"))), nil
			case "Cmp0":
				return fmt.Sprint(n.Cmp(other("0")), n.GreaterThan(other("0")), n.Equal(other("-0.0"))), nil
			case "EqSelf":
				s := n.String()
				return fmt.Sprint(n.Equal(n), n.Cmp(n), s, n.LengthOfFractionalPart()), nil
			case "Int":
				return fmt.Sprint(n.LengthOfFractionalPart(), n.ToFloat()), nil
			}
			return "unknown op", nil
		}},
	"regex": {name: "regex",
		create: func(text string) any { return regex.New("re", text) },
		call: func(obj any, op string) (res string, held func() string) {
			defer objPanic(&res)
			s := obj.(*regex.RSchema)
			switch op {
			case "Check":
				return objErr(s.Check()), nil
			case "Len":
				n, err := s.Len()
				return fmt.Sprint(n, " ", objErr(err)), nil
			case "Pattern":
				p, err := s.Pattern()
				return p + " " + objErr(err), nil
			case "GetAST":
				a, err := s.GetAST()
				b, _ := json.Marshal(a)
				return string(b) + " " + objErr(err), nil
			case "Example":
				ex, err := s.Example()
				if err != nil {
					return objErr(err), nil
				}
				return string(ex), func() string { return string(ex) }
			}
			return "unknown op", nil
		},
		stable: func(op string) bool { return op != "Example" },
		valid: func(text, op, res string) string {
			if op != "Example" || strings.HasPrefix(res, "ERR ") || strings.HasPrefix(res, "PANIC ") {
				return ""
			}
			p, err := regex.New("re", text).Pattern()
			if err != nil {
				return ""
			}
			re, err := regexp.Compile(p)
			if err == nil && !re.MatchString(res) {
				return fmt.Sprintf("example %q is not matched by /%s/", res, p)
			}
			return ""
		}},
	"enum": {name: "enum",
		create: func(text string) any { return enum.New("@e", text) },
		call: func(obj any, op string) (res string, held func() string) {
			defer objPanic(&res)
			e := obj.(*enum.Enum)
			switch op {
			case "Check":
				return objErr(e.Check()), nil
			case "Len":
				n, err := e.Len()
				return fmt.Sprint(n, " ", objErr(err)), nil
			case "GetAST":
				a, err := e.GetAST()
				b, _ := json.Marshal(a)
				return string(b) + " " + objErr(err), nil
			case "Values":
				vs, err := e.Values()
				rd := func() string {
					var sb strings.Builder
					for _, v := range vs {
						fmt.Fprintf(&sb, "%s:%s:%q;", v.Value.String(), v.Type, v.Comment)
					}
					return sb.String()
				}
				if err != nil {
					return objErr(err), nil
				}
				return rd(), rd
			}
			return "unknown op", nil
		}},
	"guess": {name: "guess",
		create: func(text string) any { return text },
		call: func(obj any, op string) (res string, held func() string) {
			defer objPanic(&res)
			t, err := schema.GuessSchemaType([]byte(obj.(string)))
			return fmt.Sprint(t, " ", objErr(err)), nil
		}},
}

// objPairs draws n ordered pairs from the texts (every text is first in at least one pair when n allows).
func objPairs(texts []string, n int, seed int64) [][2]string {
	var out [][2]string
	if len(texts) == 0 {
		return out
	}
	for i := 0; len(out) < n; i++ {
		a := texts[i%len(texts)]
		b := texts[(i*7+int(seed%13)+1+i/len(texts))%len(texts)]
		out = append(out, [2]string{a, b})
		if i > 4*n {
			break
		}
	}
	return out
}

// jdocStream reads a fresh document to its first terminal answer.
func jdocStream(text string) []string {
	k := objKinds["jdoc"]
	d := k.create(text)
	var out []string
	for i := 0; i < 100000; i++ {
		res, _ := k.call(d, "Next")
		out = append(out, res)
		if strings.HasPrefix(res, "END ") || strings.HasPrefix(res, "PANIC ") {
			break
		}
	}
	return out
}

func init() {
	j := objKinds["jdoc"]
	j.stream = jdocStream
	objKinds["jdoc"] = j
	j.name = "jdoc1"
	objKinds["jdoc1"] = j
}
