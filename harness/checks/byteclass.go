package checks

import "math/rand"

// Byte classes of the lexical specifications (ByteClass in spec/lex): representative and members.
var classRep = map[string]byte{
	"sp": ' ', "tab": '\t', "nl": '\n', "lbrace": '{', "rbrace": '}', "lbrack": '[', "rbrack": ']', "colon": ':', "comma": ',',
	"quote": '"', "bslash": '\\', "slash": '/', "minus": '-', "plus": '+', "dot": '.', "zero": '0', "d19": '7',
	"e": 'e', "E": 'E', "t": 't', "r": 'r', "u": 'u', "f": 'f', "a": 'a', "l": 'l', "s": 's', "n": 'n', "b": 'b',
	"hex": 'C', "ctl": 0x01, "other": 'x', "hi": 0xc3,
	"at": '@', "pipe": '|', "hash": '#', "star": '*',
}

var classMembers = map[string][]byte{}

func init() {
	assigned := map[byte]string{}
	for c, b := range classRep {
		assigned[b] = c
	}
	add := func(c string, bs ...byte) {
		for _, b := range bs {
			assigned[b] = c
		}
	}
	add("nl", '\n', '\r')
	add("d19", '1', '2', '3', '4', '5', '6', '7', '8', '9')
	add("hex", 'A', 'B', 'C', 'D', 'F', 'c', 'd')
	for b := 0; b < 256; b++ {
		if _, ok := assigned[byte(b)]; ok {
			continue
		}
		switch {
		case b < 0x20:
			assigned[byte(b)] = "ctl"
		case b >= 0x80:
			assigned[byte(b)] = "hi"
		default:
			assigned[byte(b)] = "other"
		}
	}
	for b := 0; b < 256; b++ {
		c := assigned[byte(b)]
		classMembers[c] = append(classMembers[c], byte(b))
	}
}

// jsonClassMembers: for pure JSON automata '@', '|', '#', '*' belong to class "other".
func jsonMembers(c string) []byte {
	if c == "other" {
		m := append([]byte{}, classMembers["other"]...)
		return append(m, '@', '|', '#', '*')
	}
	return classMembers[c]
}

// concretise maps a class string to bytes: representative bytes when rng == nil, random members otherwise.
func concretise(classes []string, in []int, rng *rand.Rand, members func(string) []byte) []byte {
	out := make([]byte, len(in))
	for i, c := range in {
		name := classes[c]
		if rng == nil {
			out[i] = classRep[name]
		} else {
			m := members(name)
			out[i] = m[rng.Intn(len(m))]
		}
	}
	return out
}
