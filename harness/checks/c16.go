package checks

import (
	"encoding/json"
	"fmt"

	jbytes "github.com/jsightapi/jsight-schema-core/bytes"
	"github.com/jsightapi/jsight-schema-core/errs"
	"github.com/jsightapi/jsight-schema-core/fs"
	"github.com/jsightapi/jsight-schema-core/kit"

	"verif/harness/internal/core"
	"verif/harness/internal/tlc"
)

// C16: (1) LineCol.tla enumerates texts under a consistent newline convention with the line/column/line text
// of every byte; each is replayed directly on kit.JSchemaError. (2) every rejection met by the shared
// generators is judged (crash.go: judgeError).

type lcByte struct {
	B       string `json:"b"`
	Line    int    `json:"line"`
	Col     int    `json:"col"`
	Verdict bool   `json:"verdict"`
}
type lcCase struct {
	Conv  string   `json:"conv"`
	Bytes []lcByte `json:"bytes"`
}

func lcText(cs lcCase) []byte {
	var b []byte
	for _, x := range cs.Bytes {
		switch x.B {
		case "CR":
			b = append(b, '\r')
		case "LF":
			b = append(b, '\n')
		default:
			b = append(b, x.B[0])
		}
	}
	return b
}

func lcEval(cs lcCase) []core.Finding {
	return core.Guard("kit.JSchemaError", func() []core.Finding {
		text := lcText(cs)
		var fs []core.Finding
		for i, x := range cs.Bytes {
			if !x.Verdict {
				continue
			}
			e := kit.NewJSchemaError(fs2file(text), errs.ErrEmptySchema.F())
			e.SetIndex(toIndex(i))
			if int(e.Line()) != x.Line || int(e.Column()) != x.Col {
				fs = append(fs, core.Finding{Class: "c16:linecol:" + cs.Conv, What: fmt.Sprintf("text %q (%s) index %d: line %d column %d, specification says line %d column %d", text, cs.Conv, i, e.Line(), e.Column(), x.Line, x.Col)})
				break
			}
			// the harness's own line/column function must agree with the specification too (it judges the generators' rejections)
			l, c, _, ok := lineColOf(text, i)
			if !ok || l != x.Line || c != x.Col {
				fs = append(fs, core.Finding{Class: "harness:linecol", What: fmt.Sprintf("harness lineColOf(%q, %d) = %d,%d,%v; specification %d,%d", text, i, l, c, ok, x.Line, x.Col)})
				break
			}
			s := e.Error()
			_ = s
		}
		return fs
	})
}

func fs2file(text []byte) *fs.File { return fs.NewFile("linecol", text) }
func toIndex(i int) jbytes.Index   { return jbytes.Index(i) }

func runC16(c *core.Ctx) error {
	res, err := tlc.Run(tlc.Opts{Module: "LineCol", Cfg: "LineCol.cfg", Workers: 8})
	res.Cleanup()
	if err != nil {
		return err
	}
	if err := res.MustOK(); err != nil {
		return err
	}
	c.AddTLC("LineCol.cfg", res)
	var cases []lcCase
	for _, l := range res.Lines {
		var cs lcCase
		if err := json.Unmarshal([]byte(l), &cs); err != nil {
			return err
		}
		cases = append(cases, cs)
	}
	core.ParallelFor(len(cases), func(i int) {
		c.CountEval(1)
		c.Report(cases[i], lcEval(cases[i]))
	})
	c.Set("linecol_texts", len(cases))
	return runCrash("c16")(c)
}

func init() {
	register(&core.Check{ID: "C16", Level: "model_checking", Run: runC16,
		Replay: func(c *core.Ctx, raw json.RawMessage) ([]core.Finding, error) {
			var probe struct {
				Conv string `json:"conv"`
			}
			if json.Unmarshal(raw, &probe) == nil && probe.Conv != "" {
				var cs lcCase
				if err := json.Unmarshal(raw, &cs); err != nil {
					return nil, err
				}
				return lcEval(cs), nil
			}
			return crashReplay("c16")(c, raw)
		}})
}
