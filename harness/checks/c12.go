package checks

import (
	"bytes"
	"encoding/json"
	"errors"
	"fmt"
	"io"
	"math/rand"
	"strings"
	"sync/atomic"

	jdoc "github.com/jsightapi/jsight-schema-core/formats/json"

	"verif/harness/internal/core"
	"verif/harness/internal/tlc"
	"verif/harness/internal/walk"
)

// C12: JsonDoc.tla is the reference automaton. Direction 1: its TLC-dumped graph is walked
// (all strings <= N, W-method suite, random walks) against formats/json.

type jdEvent struct {
	T string `json:"t"`
	B int    `json:"b"`
	E int    `json:"e"`
}

type jdCase struct {
	Input    []byte    `json:"input"`
	Trailing bool      `json:"trailing"`
	Accept   bool      `json:"accept"`
	Ambig    bool      `json:"ambig,omitempty"`
	Events   []jdEvent `json:"events,omitempty"` // expected stream when accepted
	State    string    `json:"model_state"`
}

type jdAutomaton struct {
	a        *walk.Automaton
	trailing bool
	out      [][]struct{ t, e string }
	eofev    [][]struct{ t, e string }
	acc      []bool
	status   []string
	ctl      []string
}

func evList(v any) []struct{ t, e string } {
	var out []struct{ t, e string }
	for _, x := range tlc.Seq(v) {
		r := tlc.Rec(x)
		out = append(out, struct{ t, e string }{tlc.Str(r["t"]), tlc.Str(r["e"])})
	}
	return out
}

func loadJsonDoc(c *core.Ctx, trailing bool, depth int) (*jdAutomaton, error) {
	cfg := fmt.Sprintf("SPECIFICATION Spec\nCONSTANTS\n  MaxDepth = %d\n  AllowTrailing = %v\nINVARIANTS TypeOK AcceptingIsClosed ErrIsFinal\nCHECK_DEADLOCK FALSE\n", depth, map[bool]string{true: "TRUE", false: "FALSE"}[trailing])
	name := fmt.Sprintf("JsonDoc_graph_d%d_t%v.cfg", depth, trailing)
	res, err := tlc.Run(tlc.Opts{Module: "JsonDoc", Cfg: name, Workers: 4, DumpDot: true, Files: map[string][]byte{name: []byte(cfg)}})
	defer res.Cleanup()
	if err != nil {
		return nil, err
	}
	if err := res.MustOK(); err != nil {
		return nil, err
	}
	c.AddTLC(name, res)
	g, err := tlc.LoadDot(res.DotPath)
	if err != nil {
		return nil, err
	}
	a, err := walk.FromGraph(g, "Feed")
	if err != nil {
		return nil, err
	}
	ja := &jdAutomaton{a: a, trailing: trailing}
	for _, st := range a.State {
		ja.out = append(ja.out, evList(st["out"]))
		ja.eofev = append(ja.eofev, evList(st["eofev"]))
		ja.acc = append(ja.acc, tlc.Bool(st["acc"]))
		ja.status = append(ja.status, tlc.Str(st["status"]))
		ja.ctl = append(ja.ctl, tlc.Str(st["ctl"]))
	}
	a.Out = func(s int) string { return fmt.Sprint(ja.acc[s], ja.status[s], ja.out[s], ja.eofev[s]) }
	return ja, nil
}

// expect computes the model's verdict and event stream for a run (states has len(in)+1 entries unless cut).
func (ja *jdAutomaton) expect(states []int, inputLen int) (accept, ambig, deep bool, evs []jdEvent) {
	last := states[len(states)-1]
	st := ja.status[last]
	if st == "deep" {
		return false, false, true, nil
	}
	if st == "ambig" {
		return false, true, false, nil
	}
	if len(states) != inputLen+1 && st != "trail" {
		// the run was cut in an absorbing state
		return false, false, false, nil
	}
	accept = ja.acc[last]
	if !accept {
		return false, false, false, nil
	}
	var stack []int
	emit := func(t, e string, pos int) {
		end := pos
		if e == "prev" {
			end = pos - 1
		}
		if strings.HasSuffix(t, "-begin") || t == "end-top" {
			evs = append(evs, jdEvent{t, pos, pos})
			if t != "end-top" {
				stack = append(stack, pos)
			}
			return
		}
		b := -1
		if len(stack) > 0 {
			b = stack[len(stack)-1]
			stack = stack[:len(stack)-1]
		}
		evs = append(evs, jdEvent{t, b, end})
	}
	for i := 1; i < len(states); i++ {
		for _, ev := range ja.out[states[i]] {
			emit(ev.t, ev.e, i-1)
		}
	}
	if st != "trail" {
		for _, ev := range ja.eofev[last] {
			emit(ev.t, ev.e, inputLen)
		}
	}
	return accept, false, false, evs
}

func jdReal(input []byte, trailing bool) (checkErr error, stream []jdEvent, streamErr error, length uint, lenErr error) {
	mk := func() interface {
		Check() error
		Len() (uint, error)
	} {
		if trailing {
			return jdoc.New("doc.json", input, jdoc.AllowTrailingNonSpaceCharacters())
		}
		return jdoc.New("doc.json", input)
	}
	checkErr = mk().Check()
	var d = jdoc.New("doc.json", input)
	if trailing {
		d = jdoc.New("doc.json", input, jdoc.AllowTrailingNonSpaceCharacters())
	}
	for n := 0; n < 4*len(input)+8; n++ {
		lex, err := d.NextLexeme()
		if err != nil {
			if errors.Is(err, io.EOF) {
				if lex.Type().String() == "end-top" {
					stream = append(stream, jdEvent{lex.Type().String(), int(lex.Begin()), int(lex.End())})
				}
			} else {
				streamErr = err
			}
			break
		}
		stream = append(stream, jdEvent{lex.Type().String(), int(lex.Begin()), int(lex.End())})
	}
	length, lenErr = mk().Len()
	return
}

func jdNumClass(input []byte) string {
	// normalised description of how the text ends, for narrow finding classes
	s := strings.TrimRight(string(input), " \t\r\n")
	if s == "" {
		return "blank"
	}
	switch c := s[len(s)-1]; {
	case c == '.':
		return "ends-in-dot"
	case c == 'e' || c == 'E':
		return "ends-in-e"
	case c == '+' || c == '-':
		return "ends-in-sign"
	case c >= '0' && c <= '9':
		return "ends-in-digit"
	case c == '"':
		return "ends-in-quote"
	case c == '}' || c == ']':
		return "ends-in-bracket"
	}
	return "ends-in-other"
}

func jdEval(cs jdCase) []core.Finding {
	return core.Guard("jdoc", func() []core.Finding {
		if cs.Ambig {
			return nil
		}
		var fs []core.Finding
		mode := "plain"
		if cs.Trailing {
			mode = "trailing"
		}
		checkErr, stream, streamErr, length, lenErr := jdReal(cs.Input, cs.Trailing)
		// Check() never honours the trailing option in the statement's sense? It does: a document with the option
		// is "a JSON value followed by anything".
		if cs.Accept && checkErr != nil {
			fs = append(fs, core.Finding{Class: fmt.Sprintf("jdoc:%s:rejects-valid:%s", mode, jdNumClass(cs.Input)),
				What: fmt.Sprintf("Check(%q) [%s] = %v, RFC 8259 reference accepts (model state %s)", cs.Input, mode, firstLineOf(checkErr), cs.State)})
			return fs
		}
		if !cs.Accept && checkErr == nil {
			fs = append(fs, core.Finding{Class: fmt.Sprintf("jdoc:%s:accepts-invalid:%s:%s", mode, cs.State, jdNumClass(cs.Input)),
				What: fmt.Sprintf("Check(%q) [%s] = nil, RFC 8259 reference rejects (model state %s)", cs.Input, mode, cs.State)})
			return fs
		}
		if !cs.Accept {
			return nil
		}
		if streamErr != nil {
			fs = append(fs, core.Finding{Class: "jdoc:" + mode + ":stream-error", What: fmt.Sprintf("NextLexeme on accepted %q: %v", cs.Input, firstLineOf(streamErr))})
			return fs
		}
		if !sameEvents(stream, cs.Events) {
			fs = append(fs, core.Finding{Class: "jdoc:" + mode + ":stream:" + firstEventDiff(stream, cs.Events),
				What: fmt.Sprintf("lexemes of %q [%s]: got %v, reference %v", cs.Input, mode, stream, cs.Events)})
		}
		// Len = end of the value without trailing blanks = end of the last closing event + 1
		wantLen := 0
		for _, e := range cs.Events {
			if e.T != "end-top" && e.E+1 > wantLen {
				wantLen = e.E + 1
			}
		}
		if lenErr != nil {
			fs = append(fs, core.Finding{Class: "jdoc:" + mode + ":len-error", What: fmt.Sprintf("Len(%q) error %v", cs.Input, firstLineOf(lenErr))})
		} else if int(length) != wantLen {
			cl := "len"
			if cs.Trailing && len(cs.Events) > 0 && cs.Events[len(cs.Events)-1].T == "end-top" {
				cl = "len-with-trailing-text"
				if wantLen < len(cs.Input) && !isBlankByte(cs.Input[wantLen]) {
					cl = "len-with-adjacent-trailing-text"
				}
			}
			fs = append(fs, core.Finding{Class: "jdoc:" + mode + ":" + cl, What: fmt.Sprintf("Len(%q) [%s] = %d, value ends at %d", cs.Input, mode, length, wantLen)})
		}
		// the tree rebuilt from the stream equals the decoder's tree
		if !cs.Trailing || wantLen == len(bytes.TrimRight(cs.Input, " \t\r\n")) {
			if msg := jdTreeCheck(cs.Input[:wantLen], stream); msg != "" {
				fs = append(fs, core.Finding{Class: "jdoc:" + mode + ":tree", What: fmt.Sprintf("%q: %s", cs.Input, msg)})
			}
		}
		return fs
	})
}

func isBlankByte(b byte) bool { return b == ' ' || b == '\t' || b == '\n' || b == '\r' }

func firstLineOf(err error) string {
	if err == nil {
		return "nil"
	}
	s := err.Error()
	if i := strings.IndexByte(s, '\n'); i >= 0 {
		s = s[:i]
	}
	return s
}

func sameEvents(a, b []jdEvent) bool {
	if len(a) != len(b) {
		return false
	}
	for i := range a {
		if a[i] != b[i] {
			return false
		}
	}
	return true
}

func firstEventDiff(got, want []jdEvent) string {
	for i := 0; i < len(got) && i < len(want); i++ {
		if got[i] != want[i] {
			if got[i].T != want[i].T {
				return "type:" + want[i].T
			}
			return "span:" + want[i].T
		}
	}
	if len(got) < len(want) {
		return "missing:" + want[len(got)].T
	}
	return "extra:" + got[len(want)].T
}

// jdTreeCheck rebuilds the value from the lexeme stream (structure from events, scalar/key text from
// spans) and compares it with encoding/json's decoding of the same bytes.
func jdTreeCheck(doc []byte, stream []jdEvent) string {
	var std any
	dec := json.NewDecoder(bytes.NewReader(doc))
	dec.UseNumber()
	if err := dec.Decode(&std); err != nil {
		return "independent decoder rejects: " + err.Error()
	}
	type frame struct {
		kind string // "o","a"
		keys []string
		vals []any
		key  string
	}
	var stack []*frame
	var root any
	haveRoot := false
	put := func(v any) {
		if len(stack) == 0 {
			root, haveRoot = v, true
			return
		}
		f := stack[len(stack)-1]
		if f.kind == "o" {
			f.keys = append(f.keys, f.key)
		}
		f.vals = append(f.vals, v)
	}
	for _, e := range stream {
		if e.B < 0 || e.E >= len(doc) || e.B > e.E {
			if e.T == "end-top" {
				continue
			}
			return fmt.Sprintf("event %v outside the content", e)
		}
		switch e.T {
		case "object-begin":
			stack = append(stack, &frame{kind: "o"})
		case "array-begin":
			stack = append(stack, &frame{kind: "a"})
		case "key-end":
			var k string
			if err := json.Unmarshal(doc[e.B:e.E+1], &k); err != nil {
				return fmt.Sprintf("key span %v is not a JSON string: %q", e, doc[e.B:e.E+1])
			}
			if len(stack) == 0 {
				return "key outside object"
			}
			stack[len(stack)-1].key = k
		case "literal-end":
			var v any
			d := json.NewDecoder(bytes.NewReader(doc[e.B : e.E+1]))
			d.UseNumber()
			if err := d.Decode(&v); err != nil {
				return fmt.Sprintf("literal span %v is not a JSON scalar: %q", e, doc[e.B:e.E+1])
			}
			if d.More() {
				return fmt.Sprintf("literal span %v covers more than one scalar: %q", e, doc[e.B:e.E+1])
			}
			put(v)
		case "object-end", "array-end":
			if len(stack) == 0 {
				return "unbalanced end"
			}
			f := stack[len(stack)-1]
			stack = stack[:len(stack)-1]
			if f.kind == "o" {
				m := map[string]any{}
				for i, k := range f.keys {
					m[k] = f.vals[i]
				}
				put(m)
			} else {
				if f.vals == nil {
					f.vals = []any{}
				}
				put(f.vals)
			}
		}
	}
	if len(stack) != 0 || !haveRoot {
		return "stream is not properly nested"
	}
	a, _ := json.Marshal(root)
	b, _ := json.Marshal(std)
	if !bytes.Equal(a, b) {
		return fmt.Sprintf("tree from lexemes %s differs from decoder's %s", a, b)
	}
	return ""
}

func (ja *jdAutomaton) caseOf(in []int, states []int, rng *rand.Rand) jdCase {
	input := concretise(ja.a.Classes, in, rng, jsonMembers)
	acc, ambig, deep, evs := ja.expect(states, len(in))
	last := states[len(states)-1]
	cs := jdCase{Input: input, Trailing: ja.trailing, Accept: acc, Ambig: ambig || deep, Events: evs, State: ja.ctl[last]}
	if ja.status[last] != "run" {
		cs.State = ja.status[last] + "/" + ja.ctl[last]
	}
	return cs
}

func runC12(c *core.Ctx) error {
	// design level: automaton == grammar
	gcfg := "JsonGrammarCheck_4.cfg"
	if c.Thorough() {
		gcfg = "JsonGrammarCheck_5.cfg"
	}
	gres, err := tlc.Run(tlc.Opts{Module: "JsonGrammarCheck", Cfg: gcfg, Workers: 16})
	gres.Cleanup()
	if err != nil {
		return err
	}
	if err := gres.MustOK(); err != nil {
		return err
	}
	c.AddTLC(gcfg, gres)

	var total int64
	for _, trailing := range []bool{false, true} {
		ja, err := loadJsonDoc(c, trailing, 3)
		if err != nil {
			return err
		}
		a := ja.a
		seenState := make([]int32, len(a.IDs))
		seenEdge := make([]int32, len(a.IDs)*len(a.Classes))
		eval := func(in []int, states []int, rng *rand.Rand) {
			cs := ja.caseOf(in, states, rng)
			atomic.AddInt64(&total, 1)
			c.CountEval(1)
			for i := 1; i < len(states); i++ {
				atomic.StoreInt32(&seenEdge[states[i-1]*len(a.Classes)+in[i-1]], 1)
			}
			atomic.StoreInt32(&seenState[states[len(states)-1]], 1)
			if cs.Ambig {
				c.Inconclusive("greedy-ambiguous-or-deeper-than-model")
				return
			}
			c.Report(cs, jdEval(cs))
		}
		// (a) all strings <= N
		n := c.Pick(4, 5)
		pre := a.Prefixes(2)
		core.ParallelFor(len(pre), func(i int) {
			var rng *rand.Rand
			a.From(pre[i], n-len(pre[i]), func(in []int, st []int) { eval(in, st, rng) })
		})
		for _, p := range a.Prefixes(1) {
			eval(p, a.Run(p), nil)
		}
		eval(nil, []int{a.Init}, nil)
		// (b) W-method: P . Sigma^{<=k} . W
		w := a.CharacterisingSet()
		acc := a.Access()
		k := c.Pick(0, 1)
		c.Set(fmt.Sprintf("W_size_trailing_%v", trailing), len(w))
		core.ParallelFor(len(acc), func(si int) {
			if acc[si] == nil {
				return
			}
			rng := rand.New(rand.NewSource(c.Seed*7919 + int64(si)))
			a.From(acc[si], k+1, func(in []int, st []int) {
				if len(in) == len(acc[si]) {
					return
				}
				for _, suf := range w {
					full := append(append([]int{}, in...), suf...)
					states := a.Run(full)
					eval(full[:len(states)-1], states, nil)
					if c.Thorough() {
						eval(full[:len(states)-1], states, rng) // same classes, random member bytes
					}
				}
			})
		})
		// (c) random long walks biased to stay alive, random member bytes
		nw := c.Pick(20000, 400000)
		core.ParallelFor(nw, func(i int) {
			rng := rand.New(rand.NewSource(c.Seed*1000003 + int64(i)))
			ln := 5 + rng.Intn(60)
			in := a.RandomWalk(rng, ln, func(from, to int) bool {
				return ja.status[to] != "run" && rng.Intn(8) != 0 // mostly avoid dying
			})
			eval(in, a.Run(in), rng)
		})
		ns, ne := 0, 0
		for _, v := range seenState {
			if v != 0 {
				ns++
			}
		}
		for i, v := range seenEdge {
			if v != 0 {
				ne++
				c.Nontrivial(fmt.Sprintf("t%v:edge:%d", trailing, i))
			}
		}
		c.Set(fmt.Sprintf("model_states_ended_in_trailing_%v", trailing), ns)
		c.Set(fmt.Sprintf("model_edges_crossed_trailing_%v", trailing), ne)
		c.Set(fmt.Sprintf("model_edges_total_trailing_%v", trailing), a.G.NEdge)
		if !trailing {
			smp := ja.caseOf(acc[len(acc)/2], a.Run(acc[len(acc)/2]), nil)
			c.Sample(map[string]any{"input": string(smp.Input), "accept": smp.Accept, "model_state": smp.State})
		}
	}
	if err := runC12Trace(c); err != nil {
		return err
	}
	// call histories (SchemaApi_jdoc.cfg): results do not depend on earlier calls, returned values stay intact
	// one document read lexeme by lexeme, Check and Len in between (SchemaApi_jdoc1.cfg: up to eight calls)
	{
		var one [][2]string
		for _, t := range []string{"[1]", "{\"a\":1}", "{\"a\":[true,null]}", "[1, [2, {\"k\": \"v\"}], 3]", "12", "[1, 2", "\x00trailing:[1] x", "{\"a\": 1,}"} {
			one = append(one, [2]string{t, t})
		}
		if err := runObjHistories(c, objKinds["jdoc1"], one); err != nil {
			return err
		}
	}
	if err := runObjHistories(c, objKinds["jdoc"], objPairs([]string{"", " ", "\n\t \r\n", "1", "12.5 ", "[1, 2]", "{\"a\": [true, null]}", "tru", "[1, 2", "\"s\"", "\x00trailing:", "\x00trailing:   ", "\x00trailing:42\n\nrest", "\x00trailing:{\"a\": 1} x", "\x00trailing:x"}, c.Pick(15, 60), c.Seed)); err != nil {
		return err
	}
	c.Set("rule", "class strings from the TLC-dumped JsonDoc automaton (nesting <= 3), plain and trailing option: all strings <= N, W-method suite access.Sigma^{<=k+1}.W, seeded random walks with random member bytes; every case runs Check, the NextLexeme stream, Len and the tree rebuild. distinct_nontrivial = distinct (model state, byte class) edges crossed")
	c.Set("N", c.Pick(4, 5))
	c.Set("k", c.Pick(0, 1))
	c.Assume = append(c.Assume, "bytes >= 0x80 inside strings are accepted by the reference whether or not they are well-formed UTF-8 (the scanner is byte-level)",
		"with the trailing option the reference is the greedy reading; inputs where a number dies inside its own extension (1.x, 1ex) are counted inconclusive")
	return nil
}

func init() {
	register(&core.Check{ID: "C12", Level: "model_checking", Run: runC12,
		Replay: func(c *core.Ctx, raw json.RawMessage) ([]core.Finding, error) {
			if fs, ok := objReplayCase(raw); ok {
				return fs, nil
			}
			var probe struct {
				Src string `json:"src"`
			}
			if json.Unmarshal(raw, &probe) == nil && probe.Src != "" {
				return jdTraceReplay(raw)
			}
			var cs jdCase
			if err := json.Unmarshal(raw, &cs); err != nil {
				return nil, err
			}
			return jdEval(cs), nil
		}})
}
