package checks

import (
	"bufio"
	"encoding/json"
	"fmt"
	"os/exec"
	"sort"
	"strings"
	"sync"

	"github.com/jsightapi/jsight-schema-core/notations/jschema"
	"github.com/jsightapi/jsight-schema-core/openapi"

	"verif/harness/internal/core"
	"verif/harness/internal/model"
	"verif/harness/internal/tlc"
)

// C08: accepted projects of the other specifications (SchemaModel, SchemaModelExtra, SchemaText, AllOf,
// RefPositions) are converted to OpenAPI; the example and every variation the rules accept must be an
// instance of the Schema Object as judged by the independent validator (tools/oas_validate.py).

type oaProgram struct {
	ID         int               `json:"id"`
	Family     string            `json:"family"`
	Root       string            `json:"root"`
	Types      map[string]string `json:"types"`
	Variations []string          `json:"variations,omitempty"` // root-level instance texts the rules accept (besides the example)
	Tags       []string          `json:"tags,omitempty"`
	Warm       []string          `json:"warm,omitempty"`       // call prefix (SchemaApi_orders) after which a second object is converted
	OptDef     bool              `json:"optdefault,omitempty"` // the schema objects are created with AreKeysOptionalByDefault
}

type oaLine struct {
	ID         int               `json:"id"`
	Schema     string            `json:"schema"`
	Components map[string]string `json:"components"`
	Instances  []string          `json:"instances"`
}

type oaResult struct {
	ID       int `json:"id"`
	Problems []struct {
		Kind string `json:"kind"`
		Msg  string `json:"msg"`
	} `json:"problems"`
}

// oaConvert runs the library: returns the validator line, or findings if the library itself fails.
func oaConvert(p oaProgram) (*oaLine, []core.Finding, bool) {
	var out *oaLine
	skipped := false
	fs := core.Guard("openapi", func() []core.Finding {
		s := jschema.New("root", p.Root)
		s.AreKeysOptionalByDefault = p.OptDef
		typeObjs := map[string]*jschema.JSchema{}
		for n, t := range p.Types {
			if strings.HasPrefix(n, "rule:") {
				if err := regSupport(s, n, t); err != nil {
					skipped = true
					return nil
				}
			}
		}
		for n, t := range p.Types {
			if strings.HasPrefix(n, "rule:") {
				continue
			}
			ts := jschema.New(n, t)
			ts.AreKeysOptionalByDefault = p.OptDef
			typeObjs[n] = ts
			if err := s.AddType(n, ts); err != nil {
				skipped = true
				return nil
			}
		}
		if err := s.Check(); err != nil {
			skipped = true // only accepted schemas are in the statement
			return nil
		}
		var fs []core.Finding
		ex, err := s.Example()
		if err != nil {
			return []core.Finding{{Class: "openapi:example-error:" + p.Family, What: fmt.Sprintf("accepted schema %q: Example() = %v", p.Root, firstLineOf(err))}}
		}
		b, err := openapi.NewSchemaObject(s).MarshalJSON()
		if err != nil {
			return []core.Finding{{Class: "openapi:conversion-error:" + p.Family, What: fmt.Sprintf("accepted schema %q: OpenAPI conversion = %v", p.Root, firstLineOf(err))}}
		}
		// SchemaApi.tla: a conversion is a function of the text and the registrations. The same object converted
		// again, and a second object that has answered other calls before, give the same bytes; the AST and the
		// example are what they were before the conversion.
		ast0, _ := s.GetAST()
		astBefore, _ := json.Marshal(ast0)
		if b2, err2 := openapi.NewSchemaObject(s).MarshalJSON(); err2 != nil || string(b2) != string(b) {
			fs = append(fs, core.Finding{Class: "openapi:second-conversion-differs:" + p.Family, What: fmt.Sprintf("accepted schema %q: converted twice, first %.300q then %.300q %v", p.Root, b, b2, err2)})
		}
		ast1, _ := s.GetAST()
		astAfter, _ := json.Marshal(ast1)
		if string(astBefore) != string(astAfter) {
			fs = append(fs, core.Finding{Class: "openapi:conversion-changes-ast:" + p.Family, What: fmt.Sprintf("accepted schema %q: GetAST() before the conversions %.300q, after %.300q", p.Root, astBefore, astAfter)})
		}
		if ex2, err2 := s.Example(); err2 != nil || string(ex2) != string(ex) {
			fs = append(fs, core.Finding{Class: "openapi:conversion-changes-example:" + p.Family, What: fmt.Sprintf("accepted schema %q: Example() before the conversions %q, after %q %v", p.Root, ex, ex2, err2)})
		}
		if len(p.Warm) > 0 {
			s2 := jschema.New("root", p.Root)
			s2.AreKeysOptionalByDefault = p.OptDef
			for n, t := range p.Types {
				if strings.HasPrefix(n, "rule:") {
					_ = regSupport(s2, n, t)
				}
			}
			for n, t := range p.Types {
				if strings.HasPrefix(n, "rule:") {
					continue
				}
				t2 := jschema.New(n, t)
				t2.AreKeysOptionalByDefault = p.OptDef
				_ = s2.AddType(n, t2)
			}
			if pn := warmUp(s2, p.Warm); pn != "" {
				fs = append(fs, core.Finding{Class: "openapi:panic:" + p.Family, What: fmt.Sprintf("accepted schema %q: panic %s during %v", p.Root, pn, p.Warm)})
			} else if s2.Check() == nil {
				if b3, err3 := openapi.NewSchemaObject(s2).MarshalJSON(); err3 != nil || string(b3) != string(b) {
					fs = append(fs, core.Finding{Class: "openapi:conversion-depends-on-earlier-calls:" + p.Family, What: fmt.Sprintf("accepted schema %q: after the calls %v the conversion is %.300q %v, on a fresh object %.300q", p.Root, p.Warm, b3, err3, b)})
				}
			}
		}
		line := &oaLine{ID: p.ID, Schema: string(b), Components: map[string]string{}, Instances: append([]string{string(ex)}, p.Variations...)}
		for n, ts := range typeObjs {
			cb, err := openapi.NewSchemaObject(ts).MarshalJSON()
			if err != nil {
				fs = append(fs, core.Finding{Class: "openapi:component-conversion-error:" + p.Family, What: fmt.Sprintf("type %s %q: %v", n, p.Types[n], firstLineOf(err))})
				continue
			}
			line.Components[strings.TrimPrefix(n, "@")] = string(cb)
		}
		out = line
		return fs
	})
	return out, fs, skipped
}

func oaTagsOf(root string, types map[string]string) []string {
	all := root
	for _, t := range types {
		all += "\n" + t
	}
	var tags []string
	for _, kw := range []string{"allOf", "additionalProperties", "enum", "const", "nullable", "or:", "precision", "exclusiveMinimum", "exclusiveMaximum", "regex", "optional", "minItems", "maxItems", "minLength", "maxLength", " | ", "type: \"@", "@k", "email", "uri", "uuid", "date"} {
		if strings.Contains(all, kw) {
			tags = append(tags, strings.Trim(kw, ": \""))
		}
	}
	sort.Strings(tags)
	return tags
}

func oaValidate(lines []*oaLine) (map[int]oaResult, error) {
	cmd := exec.Command("python3-vt", "-W", "ignore", tlc.VerifRoot()+"/tools/oas_validate.py")
	stdin, err := cmd.StdinPipe()
	if err != nil {
		return nil, err
	}
	stdout, err := cmd.StdoutPipe()
	if err != nil {
		return nil, err
	}
	var stderr strings.Builder
	cmd.Stderr = &stderr
	if err := cmd.Start(); err != nil {
		return nil, err
	}
	go func() {
		w := bufio.NewWriter(stdin)
		for _, l := range lines {
			b, _ := json.Marshal(l)
			w.Write(b)
			w.WriteByte('\n')
		}
		w.Flush()
		stdin.Close()
	}()
	res := map[int]oaResult{}
	sc := bufio.NewScanner(stdout)
	sc.Buffer(make([]byte, 1<<20), 1<<26)
	for sc.Scan() {
		var r oaResult
		if err := json.Unmarshal(sc.Bytes(), &r); err != nil {
			return nil, fmt.Errorf("validator output %q: %v", sc.Text(), err)
		}
		res[r.ID] = r
	}
	if err := cmd.Wait(); err != nil {
		return nil, fmt.Errorf("validator failed: %v: %s", err, firstLineStr(stderr.String()))
	}
	if len(res) != len(lines) {
		return nil, fmt.Errorf("validator answered %d of %d programs: %s", len(res), len(lines), firstLineStr(stderr.String()))
	}
	return res, nil
}

func oaValidateParallel(lines []*oaLine) (map[int]oaResult, error) {
	const shards = 12
	var mu sync.Mutex
	out := map[int]oaResult{}
	var firstErr error
	var wg sync.WaitGroup
	for s := 0; s < shards; s++ {
		var part []*oaLine
		for i := s; i < len(lines); i += shards {
			part = append(part, lines[i])
		}
		if len(part) == 0 {
			continue
		}
		wg.Add(1)
		go func(part []*oaLine) {
			defer wg.Done()
			r, err := oaValidate(part)
			mu.Lock()
			defer mu.Unlock()
			if err != nil && firstErr == nil {
				firstErr = err
			}
			for k, v := range r {
				out[k] = v
			}
		}(part)
	}
	wg.Wait()
	return out, firstErr
}

func oaFindings(p oaProgram, r oaResult) []core.Finding {
	var fs []core.Finding
	for _, pr := range r.Problems {
		// class: what the validator objects to, on which family of programs; programs that use allOf are their own
		// family because the converter's treatment of inheritance is one call site (jsoac/allof.go)
		fam := p.Family
		for _, t := range p.Tags {
			if t == "allOf" {
				fam = "uses-allOf"
			}
		}
		cl := "openapi:" + pr.Kind + ":" + fam
		ts := ""
		for n, t := range p.Types {
			ts += fmt.Sprintf("  TYPE %s %q", n, t)
		}
		fs = append(fs, core.Finding{Class: cl, What: fmt.Sprintf("%s\n  schema %q%s", pr.Msg, p.Root, ts)})
		break
	}
	return fs
}

// wrap a scalar variation in the skeleton of a SchemaModel case
func smWrapInstance(skel, v string) string {
	switch skel {
	case "prop", "ref2":
		return `{"k": ` + v + `}`
	case "item":
		return `[` + v + `]`
	}
	return v
}

func runC08(c *core.Ctx) error {
	var progs []oaProgram
	add := func(p oaProgram) {
		p.ID = len(progs)
		p.Tags = oaTagsOf(p.Root, p.Types)
		progs = append(progs, p)
	}
	// (1) SchemaModel: group the accepted cases that share skeleton, rules and type example: their values are
	//     the variations "the schema's own rules still accept"
	{
		files := map[string][]byte{}
		cfg := "SchemaModel_quick.cfg"
		var cases, rejected []smCase
		res, err := tlc.Run(tlc.Opts{Module: "SchemaModel", Cfg: cfg, Workers: 16, Files: files, Timeout: 0, HeapGB: 12, OnLine: func(l string) {
			var cs smCase
			if json.Unmarshal([]byte(l), &cs) == nil {
				if cs.Expect == "accept" {
					cases = append(cases, cs)
				} else {
					rejected = append(rejected, cs)
				}
			}
		}})
		res.Cleanup()
		if err != nil {
			return err
		}
		if err := res.MustOK(); err != nil {
			return err
		}
		c.AddTLC(cfg, res)
		groups := map[string][]smCase{}
		var order []string
		for _, cs := range cases {
			// variations keep the JSON kind of the example (an example without a decimal point makes the node an integer)
			k := fmt.Sprint(cs.Skel, "|", cs.Kind, "|", cs.TV, "|", cs.Rules, "|", strings.Contains(cs.V, "."))
			if _, ok := groups[k]; !ok {
				order = append(order, k)
			}
			groups[k] = append(groups[k], cs)
		}
		stride := c.Pick(5, 1)
		for gi, k := range order {
			if (gi+int(c.Seed))%stride != 0 {
				continue
			}
			g := groups[k]
			root, types := smProject(g[0])
			p := oaProgram{Family: "rules:" + g[0].Skel + ":" + g[0].Kind, Root: root, Types: types}
			for _, o := range g[1:] {
				if g[0].Kind == "arr" {
					continue
				}
				p.Variations = append(p.Variations, smWrapInstance(g[0].Skel, o.V))
			}
			add(p)
		}
		// the statement is about every schema the library accepts: projects the model expects to be refused are
		// converted too whenever Check() lets them through (all string cases, a sample of the others)
		sort.Slice(rejected, func(i, j int) bool { return fmt.Sprint(rejected[i]) < fmt.Sprint(rejected[j]) })
		for i, cs := range rejected {
			if cs.Kind != "str" && (i+int(c.Seed))%c.Pick(11, 2) != 0 {
				continue
			}
			root, types := smProject(cs)
			add(oaProgram{Family: "rules-expected-refused:" + cs.Skel + ":" + cs.Kind, Root: root, Types: types})
		}
	}
	// (2) SchemaModelExtra accepted cases
	{
		extra, res, err := smExtraCases(c)
		if err != nil {
			return err
		}
		c.AddTLC("SchemaModelExtra.cfg", res)
		famSize := map[string]int{}
		for _, cs := range extra {
			famSize[cs.Skel]++
		}
		for i, cs := range extra {
			// "unknown" verdicts (the vocabulary families) are converted whenever the library accepts them;
			// small families are taken whole, the large ones stride-sampled in the quick tier
			if cs.Expect == "reject" || (famSize[cs.Skel] > 300 && (i+int(c.Seed))%c.Pick(6, 1) != 0) {
				continue
			}
			types := map[string]string{}
			if cs.Extra["type"] != "" {
				types["@t"] = cs.Extra["type"]
			}
			add(oaProgram{Family: "extra:" + cs.Skel, Root: cs.Extra["root"], Types: types})
		}
	}
	// (3) SchemaText projects
	{
		ps, err := stProjects(c, "SchemaText_quick.cfg", "")
		if err != nil {
			return err
		}
		for i, p := range ps {
			if (i+int(c.Seed))%c.Pick(4, 1) != 0 {
				continue
			}
			add(oaProgram{Family: "annotated-object", Root: model.Layout{NL: "\n"}.Print(p), Types: model.SupportTypes})
		}
	}
	// (4) accepted inheritance projects
	{
		cfg := "AllOf_2.cfg"
		body := "SPECIFICATION Spec\nCONSTANTS\n  N = 2\n  KeySet = {\"k1\", \"k2\"}\n  MaxList = 2\n  APs = {\"absent\", \"false\", \"true\"}\n  Nest = FALSE\n  RootChoice = FALSE\n  OptDefTypes = FALSE\n  SelfReg = FALSE\nINVARIANTS Emit\nCHECK_DEADLOCK FALSE\n"
		kv := map[string]string{"k1": "1", "k2": `"two"`, "k3": "true"}
		n := 0
		res, err := tlc.Run(tlc.Opts{Module: "AllOf", Cfg: cfg, Workers: 16, Timeout: 0, HeapGB: 16, Files: map[string][]byte{cfg: []byte(body)}, OnLine: func(l string) {
			if !strings.Contains(l, `"refusals":[]`) {
				return
			}
			n++
			if (n+int(c.Seed))%c.Pick(6, 1) != 0 {
				return
			}
			var cs aoCase
			if json.Unmarshal([]byte(l), &cs) != nil {
				return
			}
			types := map[string]string{}
			for _, t := range cs.Types {
				if t.D.Kind != "withheld" {
					types["@"+t.Name] = aoText(t.D, kv)
				}
			}
			add(oaProgram{Family: fmt.Sprintf("inheritance:allOf-%d", len(cs.Root.AllOf)), Root: aoText(cs.Root, kv), Types: types})
		}})
		res.Cleanup()
		if err != nil {
			return err
		}
		if err := res.MustOK(); err != nil {
			return err
		}
		c.AddTLC(cfg, res)
	}
	// (5) complete reference projects
	{
		n := 0
		res, err := tlc.Run(tlc.Opts{Module: "RefPositions", Cfg: "RefPositions_quick.cfg", Workers: 16, OnLine: func(l string) {
			if !strings.Contains(l, `"missing":[]`) {
				return
			}
			n++
			if (n+int(c.Seed))%c.Pick(8, 1) != 0 {
				return
			}
			var cs rpCase
			if json.Unmarshal([]byte(l), &cs) != nil || cs.Unused {
				return
			}
			types := map[string]string{}
			for _, r := range cs.Registered {
				types["@"+r] = rpTypeText(r, cs.Variant[r])
			}
			add(oaProgram{Family: "references:" + rpPositions(cs), Root: rpRootText(cs.Root, cs.Place), Types: types})
		}})
		res.Cleanup()
		if err != nil {
			return err
		}
		if err := res.MustOK(); err != nil {
			return err
		}
		c.AddTLC("RefPositions_quick.cfg", res)
	}
	c.Set("programs", len(progs))
	if _, err := loadCallOrders(); err != nil {
		return err
	}
	// every fifth program also with keys that are optional by default (the example still has every key: it must
	// be an instance of the conversion, whose `required` list is then shorter)
	np := len(progs)
	for i := 0; i < np; i += 5 {
		q := progs[i]
		q.ID = len(progs)
		q.OptDef = true
		q.Variations = nil
		q.Family += ":keys-optional-by-default"
		progs = append(progs, q)
	}
	for i := range progs {
		progs[i].Warm = callPrefix(i, c.Seed)
	}
	lines := make([]*oaLine, len(progs))
	skipped := make([]bool, len(progs))
	core.ParallelFor(len(progs), func(i int) {
		l, fs, sk := oaConvert(progs[i])
		c.CountEval(1)
		c.Report(progs[i], fs)
		lines[i], skipped[i] = l, sk
	})
	var todo []*oaLine
	nsk := 0
	for i, l := range lines {
		if l != nil {
			todo = append(todo, l)
			c.Nontrivial(progs[i].Root + fmt.Sprint(progs[i].Types))
		}
		if skipped[i] {
			nsk++
		}
	}
	c.Set("programs_not_accepted_by_the_library", nsk)
	res, err := oaValidateParallel(todo)
	if err != nil {
		return err
	}
	ninst := 0
	for _, l := range todo {
		ninst += len(l.Instances)
		c.Report(progs[l.ID], oaFindings(progs[l.ID], res[l.ID]))
	}
	c.Set("instances_validated", ninst)
	if len(todo) > 0 {
		c.Sample(todo[len(todo)/2])
	}
	c.Set("rule", "accepted projects of SchemaModel (grouped by skeleton+rules: the group's values are the accepted variations), SchemaModelExtra, SchemaText, AllOf and RefPositions (stride-sampled in the quick tier): Example() and the OpenAPI conversions of the root and of every registered type are produced by the library; tools/oas_validate.py (jsonschema, Draft 4 + nullable, exact decimals) checks well-formed JSON, well-formed Schema Object (own meta-schema), example and variations are instances with $ref resolved into the registered types' conversions. distinct_nontrivial = distinct programs converted")
	c.Assume = append(c.Assume, "jsonschema is the independent validator; format is an annotation; the OpenAPI 3.0 Schema Object meta-schema in tools/oas_validate.py is hand-written from the specification")
	return nil
}

func init() {
	register(&core.Check{ID: "C08", Level: "model_checking", Run: runC08,
		Replay: func(c *core.Ctx, raw json.RawMessage) ([]core.Finding, error) {
			var p oaProgram
			if err := json.Unmarshal(raw, &p); err != nil {
				return nil, err
			}
			l, fs, _ := oaConvert(p)
			if l == nil {
				return fs, nil
			}
			res, err := oaValidate([]*oaLine{l})
			if err != nil {
				return nil, err
			}
			return append(fs, oaFindings(p, res[l.ID])...), nil
		}})
}
