package checks

import (
	"encoding/json"
	"fmt"
	"strconv"
	"strings"

	"github.com/jsightapi/jsight-schema-core/notations/jschema"
	"github.com/jsightapi/jsight-schema-core/rules/enum"

	"verif/harness/internal/core"
	"verif/harness/internal/tlc"
)

// Families of SchemaModelExtra.tla: enum, const, nullable, formats, `or` with two real alternatives.
// The specification prints the schema text itself; the case carries it in Extra.

func smExtraCases(c *core.Ctx) ([]smCase, *tlc.Result, error) {
	var cases []smCase
	res, err := tlc.Run(tlc.Opts{Module: "SchemaModelExtra", Cfg: "SchemaModelExtra.cfg", Workers: 16, OnLine: func(l string) {
		var r struct{ Fam, Root, Typ, Expect string }
		if err := json.Unmarshal([]byte(l), &r); err != nil {
			c.InfraError("bad extra case %s: %v", l, err)
			return
		}
		r.Root = strings.ReplaceAll(r.Root, "<E9>", "é")
		r.Typ = strings.ReplaceAll(r.Typ, "<E9>", "é")
		if strings.HasPrefix(r.Fam, "scaled:") {
			// the specification gives shape, size and the member pattern; the text is built here
			parts := strings.Split(r.Fam, ":")
			n, _ := strconv.Atoi(parts[2])
			open, close := "{", "}"
			if parts[1] == "array-of-refs" {
				open, close = "[", "]"
			}
			var sb strings.Builder
			sb.WriteString(open + "\n")
			for i := 0; i < n; i++ {
				line := strings.ReplaceAll(r.Root, "#", strconv.Itoa(i))
				if i < n-1 {
					if k := strings.Index(line, " // "); k >= 0 {
						line = line[:k] + "," + line[k:]
					} else {
						line += ","
					}
				}
				sb.WriteString(line + "\n")
			}
			sb.WriteString(close)
			r.Root = sb.String()
			r.Fam = "scaled:" + parts[1]
		}
		ex := map[string]string{"root": r.Root, "type": r.Typ}
		if strings.HasPrefix(r.Typ, "rule:") {
			// the supporting text is a named enum rule (registered as @t with AddRule), not a type
			ex = map[string]string{"root": r.Root, "type": "", "rule": strings.TrimPrefix(r.Typ, "rule:")}
		}
		cases = append(cases, smCase{Skel: r.Fam, Kind: "extra", Expect: r.Expect, Extra: ex})
	}})
	res.Cleanup()
	if err != nil {
		return nil, res, err
	}
	if err := res.MustOK(); err != nil {
		return nil, res, err
	}
	return cases, res, nil
}

func smExtraEval(c *core.Ctx, cs smCase) []core.Finding {
	return core.Guard("schema.Check", func() []core.Finding {
		s := jschema.New("root", cs.Extra["root"])
		if t := cs.Extra["type"]; t != "" {
			if err := s.AddType("@t", jschema.New("@t", t)); err != nil {
				if c != nil {
					c.Inconclusive("extra-addtype-failed:" + cs.Skel)
				}
				return nil
			}
		}
		if r := cs.Extra["rule"]; r != "" {
			if err := s.AddRule("@t", enum.New("@t", r)); err != nil {
				if c != nil {
					c.Inconclusive("extra-addrule-failed:" + cs.Skel)
				}
				return nil
			}
			show := fmt.Sprintf("%q  RULE @t: %q", cs.Extra["root"], r)
			if err := s.Check(); cs.Expect == "accept" && err != nil {
				return []core.Finding{{Class: "check:rejects-satisfying-example:" + cs.Skel, What: fmt.Sprintf("every example is in the list of the rule but Check() = %v: %s", firstLineOf(err), show)}}
			} else if cs.Expect == "reject" && err == nil {
				return []core.Finding{{Class: "check:accepts-violating-example:" + cs.Skel, What: "an example is not in the list of the rule but Check() = nil: " + show}}
			}
			return nil
		}
		err := s.Check()
		code := errCode(err)
		show := fmt.Sprintf("%q", cs.Extra["root"])
		if cs.Extra["type"] != "" {
			show += fmt.Sprintf("  TYPE @t: %q", cs.Extra["type"])
		}
		switch {
		case cs.Expect == "reject" && err == nil:
			return []core.Finding{{Class: "check:accepts-violating-example:" + cs.Skel, What: "the example breaks its own rules but Check() = nil: " + show}}
		case cs.Expect == "accept" && err != nil && valueReasonCodes[code]:
			return []core.Finding{{Class: "check:rejects-satisfying-example:" + cs.Skel, What: fmt.Sprintf("every example satisfies its rules but Check() = %v: %s", firstLineOf(err), show)}}
		case cs.Expect == "accept" && err != nil:
			if c != nil {
				c.Inconclusive(fmt.Sprintf("structural-code-%d:%s", code, cs.Skel))
			}
		}
		return nil
	})
}
