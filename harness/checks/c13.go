package checks

import (
	"encoding/json"
	"fmt"
	"math/big"
	"math/rand"
	"regexp"
	"strings"
	"sync"
	"time"

	jbytes "github.com/jsightapi/jsight-schema-core/bytes"
	jnum "github.com/jsightapi/jsight-schema-core/json"

	"verif/harness/internal/core"
	"verif/harness/internal/tlc"
	"verif/harness/internal/walk"
)

// C13: Number.tla. (1) TLC checks the lemmas (NormOrderCorrect ...). (2) The recogniser's graph is
// walked against json.NewNumber. (3) Observations of NewNumber/Cmp/.../String/LengthOfFractionalPart
// are recorded and validated by TLC against NumberTrace (oracle = Norm/CmpNorm in TLA+).

type numCase struct {
	Kind string `json:"kind"` // "grammar" | "trace"
	Text string `json:"text,omitempty"`
	Want bool   `json:"want_accept,omitempty"`
	A    string `json:"a,omitempty"`
	B    string `json:"b,omitempty"`
}

// newNumber parses s the way a caller who cuts numbers out of a larger text does: the bytes handed over are a window
// into a buffer that goes on (other numbers follow). The text is the caller's: nothing of the buffer may change,
// now or during the later calls on the number (numBuffersIntact).
func newNumber(s string) (n *jnum.Number, err error, panicked string) {
	defer func() {
		if r := recover(); r != nil {
			panicked = fmt.Sprint(r)
		}
	}()
	const before, after = "[15, ", ", 15, 30, 45] and the text goes on ............................................."
	buf := []byte(before + s + after)
	n, err = jnum.NewNumber(jbytes.NewBytes(buf[len(before) : len(before)+len(s)]))
	if string(buf) != before+s+after {
		panicked = fmt.Sprintf("NewNumber wrote into the caller's buffer: %.80q became %.80q", before+s+after, buf)
		return
	}
	if n != nil {
		numBufMu.Lock()
		if len(numBufs) > 4096 {
			numBufs = map[*jnum.Number][2]string{}
		}
		numBufs[n] = [2]string{before + s + after, ""}
		numBufLive[n] = buf
		numBufMu.Unlock()
	}
	return
}

var (
	numBufMu   sync.Mutex
	numBufs    = map[*jnum.Number][2]string{}
	numBufLive = map[*jnum.Number][]byte{}
)

// numBuffersIntact: the buffers the numbers were cut from still read as they were written.
func numBuffersIntact(ns ...*jnum.Number) string {
	numBufMu.Lock()
	defer numBufMu.Unlock()
	for _, n := range ns {
		if n == nil {
			continue
		}
		want, ok := numBufs[n]
		buf := numBufLive[n]
		delete(numBufs, n)
		delete(numBufLive, n)
		if ok && buf != nil && string(buf) != want[0] {
			return fmt.Sprintf("a call on the number wrote into the caller's buffer: %.80q became %.80q", want[0], buf)
		}
	}
	return ""
}

func numShape(s string) string {
	// normalised description of a number text for narrow finding classes
	var sb strings.Builder
	prev := byte(0)
	for i := 0; i < len(s); i++ {
		c := s[i]
		k := c
		switch {
		case c == '0':
			k = '0'
		case c >= '1' && c <= '9':
			k = 'd'
		case c == 'E':
			k = 'e'
		}
		if k == prev && (k == 'd' || k == '0') {
			continue
		}
		sb.WriteByte(k)
		prev = k
		if sb.Len() > 12 {
			sb.WriteString("..")
			break
		}
	}
	return sb.String()
}

func numGrammarEval(cs numCase) []core.Finding {
	n, err, p := newNumber(cs.Text)
	if p != "" {
		return []core.Finding{{Class: "number:panic:" + numShape(cs.Text), What: fmt.Sprintf("NewNumber(%q) panicked: %s", cs.Text, firstLineStr(p))}}
	}
	got := err == nil && n != nil
	if !got && cs.Want && expBeyondLimit(cs.Text) {
		// RFC 8259 section 9: "An implementation may set limits on the range and precision of numbers."
		// NewNumber materialises the exponent as digits and refuses exponents beyond +-10^6 (a repair of an
		// out-of-memory crash): such texts have no verdict here
		return nil
	}
	if got != cs.Want {
		verb := "rejects"
		if got {
			verb = "accepts"
		}
		cl := "number:grammar:" + verb + ":" + numGrammarClass(cs.Text)
		if !got && reZeroExp.MatchString(cs.Text) {
			cl = "number:rejects:zero-integer-part-with-exponent"
		}
		return []core.Finding{{Class: cl,
			What: fmt.Sprintf("NewNumber(%q) %s it; the JSON number grammar says accept=%v", cs.Text, verb, cs.Want)}}
	}
	return nil
}

// smallExponent: no exponent, or one of at most two significant digits.
func smallExponent(t string) bool {
	i := strings.IndexAny(t, "eE")
	if i < 0 {
		return true
	}
	return len(strings.TrimLeft(strings.TrimLeft(t[i+1:], "+-"), "0")) <= 2
}

// expBeyondLimit: the text has an exponent whose absolute value exceeds 10^6.
func expBeyondLimit(t string) bool {
	i := strings.IndexAny(t, "eE")
	if i < 0 {
		return false
	}
	d := strings.TrimLeft(strings.TrimLeft(t[i+1:], "+-"), "0")
	return len(d) > 7 || (len(d) == 7 && d > "1000000")
}

// numGrammarClass names the grammar production at which a text stops or that it uses, coarsely:
// digits collapse to d, a leading zero integer part stays 0.
func numGrammarClass(t string) string {
	var sb strings.Builder
	prev := byte(0)
	for i := 0; i < len(t); i++ {
		k := t[i]
		switch {
		case k >= '0' && k <= '9':
			if k == '0' && (i == 0 || t[i-1] == '-') && (i+1 == len(t) || t[i+1] < '0' || t[i+1] > '9') {
				k = '0'
			} else {
				k = 'd'
			}
		case k == 'E':
			k = 'e'
		case k == '+' || k == '-':
			if i > 0 {
				k = 's'
			}
		}
		if k == prev && k == 'd' {
			continue
		}
		sb.WriteByte(k)
		prev = k
	}
	return sb.String()
}

func firstLineStr(s string) string {
	if i := strings.IndexByte(s, '\n'); i >= 0 {
		s = s[:i]
	}
	if len(s) > 160 {
		s = s[:160]
	}
	return s
}

func chars(s string) []string {
	out := make([]string, len(s))
	for i := 0; i < len(s); i++ {
		out[i] = s[i : i+1]
	}
	return out
}

// numLine records a "num" observation; ok=false lines carry empty str.
func numLine(t string) ([]byte, string) {
	n, err, p := newNumber(t)
	if p != "" {
		return nil, p
	}
	ev := map[string]any{"ev": "num", "t": chars(t), "ok": err == nil, "str": []string{}, "frac": 0}
	if err == nil {
		var s string
		var f uint
		func() {
			defer func() {
				if r := recover(); r != nil {
					p = fmt.Sprint(r)
				}
			}()
			s = n.String()
			f = n.LengthOfFractionalPart()
		}()
		if p != "" {
			return nil, p
		}
		ev["str"] = chars(s)
		ev["frac"] = int(f)
	}
	if w := numBuffersIntact(n); w != "" {
		return nil, w
	}
	b, _ := json.Marshal(ev)
	return b, ""
}

func cmpLine(a, b string) ([]byte, string) {
	x, e1, p1 := newNumber(a)
	y, e2, p2 := newNumber(b)
	if p1 != "" || p2 != "" {
		return nil, p1 + p2
	}
	if e1 != nil || e2 != nil {
		return nil, "" // rejected texts are reported by their own num line
	}
	var p string
	ev := map[string]any{"ev": "cmp", "a": chars(a), "b": chars(b)}
	func() {
		defer func() {
			if r := recover(); r != nil {
				p = fmt.Sprint(r)
			}
		}()
		ev["cmp"] = x.Cmp(y)
		ev["eq"] = x.Equal(y)
		ev["lt"] = x.LessThan(y)
		ev["le"] = x.LessThanOrEqual(y)
		ev["gt"] = x.GreaterThan(y)
		ev["ge"] = x.GreaterThanOrEqual(y)
	}()
	if p != "" {
		return nil, p
	}
	if w := numBuffersIntact(x, y); w != "" {
		return nil, w
	}
	out, _ := json.Marshal(ev)
	return out, ""
}

type numTraceItem struct {
	cs   numCase
	line []byte
}

func numTraceItemOf(cs numCase) (numTraceItem, []core.Finding) {
	var line []byte
	var p string
	if cs.A != "" {
		line, p = cmpLine(cs.A, cs.B)
	} else {
		line, p = numLine(cs.Text)
	}
	if p != "" {
		return numTraceItem{}, []core.Finding{{Class: "number:panic:" + numShape(cs.Text+cs.A), What: fmt.Sprintf("panic on %+v: %s", cs, firstLineStr(p))}}
	}
	return numTraceItem{cs, line}, nil
}

func validateNumItems(c *core.Ctx, items []numTraceItem) error {
	if len(items) == 0 {
		return nil
	}
	lines := make([][]byte, len(items))
	for i := range items {
		lines[i] = items[i].line
	}
	bad, res, err := tlc.ValidateTrace("NumberTrace", "NumberTrace.cfg", lines, nil)
	if res != nil {
		c.AddTLC("NumberTrace.cfg", res)
		res.Cleanup()
	}
	if err != nil {
		return err
	}
	c.AddInt("traces_validated_against_impl", int64(len(items)-len(bad)))
	for _, ln := range bad {
		it := items[ln-1]
		line := string(it.line)
		if len(line) > 400 {
			line = line[:400] + "..."
		}
		c.Report(it.cs, []core.Finding{{Class: numTraceClass(it), What: "NumberTrace rejects the observation " + line}})
	}
	return nil
}

var reZeroExp = regexp.MustCompile(`^-?0[eE][-+]?[0-9]+$`)

func numTraceClass(it numTraceItem) string {
	if it.cs.A != "" {
		return "number:cmp:" + numGrammarClass(it.cs.A) + ":" + numGrammarClass(it.cs.B)
	}
	if reZeroExp.MatchString(it.cs.Text) && strings.Contains(string(it.line), `"ok":false`) {
		return "number:rejects:zero-integer-part-with-exponent"
	}
	return "number:value:" + numGrammarClass(it.cs.Text)
}

func randDigits(rng *rand.Rand, n int) string {
	b := make([]byte, n)
	for i := range b {
		b[i] = byte('0' + rng.Intn(10))
	}
	return string(b)
}

// respell writes the same value differently: moves the point by an exponent, adds trailing zeros.
func respell(rng *rand.Rand, neg bool, intd, frac string, maxShift int) string {
	sh := rng.Intn(2*maxShift+1) - maxShift // value = digits * 10^sh written with exponent -sh... build: move point left by sh
	all := intd + frac
	pt := len(intd) - sh // new point position
	var i2, f2 string
	switch {
	case pt <= 0:
		i2, f2 = "0", strings.Repeat("0", -pt)+all
	case pt >= len(all):
		i2, f2 = all+strings.Repeat("0", pt-len(all)), ""
	default:
		i2, f2 = all[:pt], all[pt:]
	}
	i2 = strings.TrimLeft(i2, "0")
	if i2 == "" {
		i2 = "0"
	}
	for rng.Intn(3) == 0 {
		f2 += "0"
	}
	s := i2
	if f2 != "" {
		s += "." + f2
	}
	if sh != 0 || rng.Intn(2) == 0 {
		s += []string{"e", "E"}[rng.Intn(2)]
		if sh >= 0 && rng.Intn(2) == 0 {
			s += "+"
		}
		s += fmt.Sprint(sh)
	}
	if neg {
		s = "-" + s
	}
	return s
}

func runC13(c *core.Ctx) error {
	// (1) lemmas
	lres, err := tlc.Run(tlc.Opts{Module: "Number", Cfg: "Number_lemma.cfg", Workers: 16, Timeout: 40 * time.Minute})
	lres.Cleanup()
	if err != nil {
		return err
	}
	if err := lres.MustOK(); err != nil {
		return err
	}
	c.AddTLC("Number_lemma.cfg", lres)
	// (2) recogniser graph walked against NewNumber
	gres, err := tlc.Run(tlc.Opts{Module: "Number", Cfg: "Number_graph.cfg", Workers: 2, DumpDot: true})
	defer gres.Cleanup()
	if err != nil {
		return err
	}
	if err := gres.MustOK(); err != nil {
		return err
	}
	c.AddTLC("Number_graph.cfg", gres)
	g, err := tlc.LoadDot(gres.DotPath)
	if err != nil {
		return err
	}
	a, err := walk.FromGraph(g, "RecogFeed")
	if err != nil {
		return err
	}
	final := map[string]bool{"zero": true, "int": true, "frac": true, "expd": true}
	n := c.Pick(7, 9)
	rng := rand.New(rand.NewSource(c.Seed))
	var accepted []string
	a.AllStrings(n, func(in []int, st []int) {
		var sb strings.Builder
		for _, ci := range in {
			ch := a.Classes[ci]
			if ch == "5" {
				ch = string(rune('1' + rng.Intn(9)))
			}
			sb.WriteString(ch)
		}
		ctl := tlc.Str(a.State[st[len(st)-1]]["ctl"])
		cs := numCase{Kind: "grammar", Text: sb.String(), Want: final[ctl]}
		c.CountEval(1)
		c.Nontrivial("g:" + ctl + ":" + fmt.Sprint(len(in)))
		c.Report(cs, numGrammarEval(cs))
		if cs.Want && len(in) <= 6 {
			accepted = append(accepted, cs.Text)
		}
	})
	c.Set("grammar_strings_len", n)
	c.Set("accepted_small_texts", len(accepted))
	// the same recogniser run over longer texts: spellings of the exponent (leading zeros, explicit signs, many digits,
	// the implementation's limit of 10^6 on both sides), long integer and fraction parts
	{
		classIdx := map[string]int{}
		for i, cl := range a.Classes {
			classIdx[cl] = i
		}
		run := func(t string) bool {
			in := make([]int, len(t))
			for i := 0; i < len(t); i++ {
				ch := string(t[i])
				switch {
				case t[i] >= '1' && t[i] <= '9':
					ch = "5"
				case strings.ContainsRune("-+.0eE", rune(t[i])):
				default:
					ch = "x"
				}
				in[i] = classIdx[ch]
			}
			st := a.Run(in)
			return len(st) == len(in)+1 && final[tlc.Str(a.State[st[len(st)-1]]["ctl"])]
		}
		var long []string
		for _, mant := range []string{"1", "-12.5", "0.25", "9"} {
			for _, e := range []string{"e", "E"} {
				for _, sign := range []string{"", "+", "-"} {
					for _, digits := range []string{"2", "02", "00000002", "0000000000000000000002", "0", "000", "1000000", "01000000", "999999", "0999999", "1000001", "12345678", ""} {
						long = append(long, mant+e+sign+digits)
					}
				}
			}
		}
		long = append(long, "1"+strings.Repeat("0", 400), "0."+strings.Repeat("0", 400)+"1", "-"+strings.Repeat("9", 1000)+"."+strings.Repeat("9", 1000), "1e+-2", "1e2e3", "1e2.5", "1e 2")
		for _, t := range long {
			cs := numCase{Kind: "grammar", Text: t, Want: run(t)}
			c.CountEval(1)
			c.Nontrivial("long:" + t)
			c.Report(cs, numGrammarEval(cs))
			// value observations only for the short spellings (an exponent of 10^6 is a million digits for the trace)
			if cs.Want && len(t) <= 30 && smallExponent(t) {
				accepted = append(accepted, t)
			}
		}
		c.Set("grammar_long_texts", len(long))
	}
	// (3) traces
	var items []numTraceItem
	add := func(cs numCase) {
		it, fs := numTraceItemOf(cs)
		c.CountEval(1)
		if fs != nil {
			c.Report(cs, fs)
			return
		}
		if it.line != nil {
			items = append(items, it)
			if cs.A != "" {
				c.Nontrivial("cmp:" + numShape(cs.A) + ":" + numShape(cs.B))
			}
		}
	}
	// every small accepted text and a sample of rejected ones: value observations
	small := accepted
	if len(small) > c.Pick(3000, 30000) {
		rng.Shuffle(len(small), func(i, j int) { small[i], small[j] = small[j], small[i] })
		small = small[:c.Pick(3000, 30000)]
	}
	for _, t := range small {
		add(numCase{Kind: "trace", Text: t})
	}
	for _, t := range []string{"", "-", "1.", "1e", "1e+", "01", "+1", ".5", "1.e1", "0e5", "-0e1", "1e5+3", "1e5-3", "0.0e0", "-0.0", "1E+0", "00", "1e05", "1e-05"} {
		add(numCase{Kind: "trace", Text: t})
	}
	// pairs from the small set (values around each other: same digits, different spellings)
	np := c.Pick(30000, 300000)
	for i := 0; i < np; i++ {
		x := accepted[rng.Intn(len(accepted))]
		y := accepted[rng.Intn(len(accepted))]
		add(numCase{Kind: "trace", A: x, B: y})
	}
	// long numbers: same value respelled, and neighbours differing in the last digit
	nl := c.Pick(200, 2000)
	for i := 0; i < nl; i++ {
		maxDigits := 40
		maxShift := 30
		if i%5 == 0 {
			maxDigits, maxShift = 1500, 2500
		}
		intd := strings.TrimLeft(randDigits(rng, 1+rng.Intn(maxDigits)), "0")
		if intd == "" {
			intd = "0"
		}
		frac := ""
		if rng.Intn(3) != 0 {
			frac = randDigits(rng, 1+rng.Intn(maxDigits))
		}
		neg := rng.Intn(2) == 0
		x := respell(rng, neg, intd, frac, maxShift)
		y := respell(rng, neg, intd, frac, maxShift)
		add(numCase{Kind: "trace", A: x, B: y})
		add(numCase{Kind: "trace", Text: x})
		// neighbour: bump one digit
		all := []byte(intd + frac)
		k := rng.Intn(len(all))
		all[k] = byte('0' + (int(all[k]-'0')+1+rng.Intn(8))%10)
		i2, f2 := string(all[:len(intd)]), string(all[len(intd):])
		if strings.TrimLeft(i2, "0") != i2 && i2 != "0" {
			i2 = strings.TrimLeft(i2, "0")
			if i2 == "" {
				i2 = "0"
			}
		}
		z := respell(rng, rng.Intn(4) != 0 == neg, i2, f2, maxShift)
		add(numCase{Kind: "trace", A: x, B: z})
		add(numCase{Kind: "trace", A: z, B: y})
	}
	// digit-length and machine-word boundaries: for every length up to 40 digits the smallest, the largest and two
	// random numbers of that length with their successors; 2^k-1, 2^k, 2^k+1 around the word sizes. All pairs of equal
	// length (the comparison that walks digits) and pairs across adjacent lengths, both signs, with and without a fraction.
	{
		var groups [][]string
		one := big.NewInt(1)
		for L := 1; L <= 40; L++ {
			lo := new(big.Int).Exp(big.NewInt(10), big.NewInt(int64(L-1)), nil)
			hi := new(big.Int).Sub(new(big.Int).Exp(big.NewInt(10), big.NewInt(int64(L)), nil), one)
			g := []string{lo.String(), hi.String(), new(big.Int).Add(lo, one).String(), new(big.Int).Sub(hi, one).String()}
			for k := 0; k < 2; k++ {
				x, _ := new(big.Int).SetString(strings.TrimLeft(randDigits(rng, L), "0")+"0", 10)
				x.Mod(x, hi).Add(x, lo).Mod(x, hi)
				if x.Cmp(lo) < 0 {
					x.Add(x, lo)
				}
				g = append(g, x.String(), new(big.Int).Add(x, one).String())
			}
			groups = append(groups, g)
		}
		var pow []string
		for _, k := range []uint{8, 16, 31, 32, 53, 63, 64, 65, 127, 128} {
			p := new(big.Int).Lsh(one, k)
			pow = append(pow, new(big.Int).Sub(p, one).String(), p.String(), new(big.Int).Add(p, one).String())
		}
		groups = append(groups, pow)
		dress := func(t string, v int) string {
			switch v % 4 {
			case 1:
				return "-" + t
			case 2:
				return t + ".0"
			case 3:
				return t + ".5"
			}
			return t
		}
		nb := 0
		for gi, g := range groups {
			pool := append([]string{}, g...)
			if gi > 0 && gi < 40 {
				pool = append(pool, groups[gi-1][1], groups[gi-1][0])
			}
			for i, x := range pool {
				for j, y := range pool {
					if !c.Thorough() && (i*7+j*3+gi+int(c.Seed))%3 != 0 {
						continue
					}
					v := (i + j + gi) % 8
					add(numCase{Kind: "trace", A: dress(x, v), B: dress(y, v/2)})
					nb++
				}
			}
		}
		c.Set("boundary_pairs", nb)
	}
	c.Set("trace_lines", len(items))
	if err := validateNumItems(c, items); err != nil {
		return err
	}
	for _, it := range items[:3] {
		c.Sample(json.RawMessage(it.line))
	}
	if len(items) > 0 {
		last := string(items[len(items)-1].line)
		if len(last) > 300 {
			last = last[:300] + "..."
		}
		c.Sample(last)
	}
	// call histories (SchemaApi_number.cfg): results do not depend on earlier calls, returned values stay intact
	if err := runObjHistories(c, objKinds["number"], objPairs([]string{"0.5", "-0.25", "5e-1", "125e-3", "0.05", "1.5", "0", "-0", "10", "1e2", "0.50", "12345678901234567890.5", "0.9", "-0.9e0", "1e-3", "x"}, c.Pick(16, 64), c.Seed)); err != nil {
		return err
	}
	c.Set("rule", "grammar: every string <= N over {-,+,.,0,digit,e,E,x} reachable in the TLC-dumped recogniser, verdict compared with NewNumber; values: num/cmp observations of the real code (all small accepted texts, random pairs of them, long numbers respelled with exponent shifts up to 2500 and last-digit neighbours) validated line by line by TLC against NumberTrace. distinct_nontrivial = distinct (recogniser state, length) classes + distinct shape pairs compared")
	c.Assume = append(c.Assume, "exponents beyond +-2500 are not part of the value oracle (TLC integers); they are C02's concern")
	return nil
}

func init() {
	register(&core.Check{ID: "C13", Level: "model_checking", Run: runC13,
		Replay: func(c *core.Ctx, raw json.RawMessage) ([]core.Finding, error) {
			if fs, ok := objReplayCase(raw); ok {
				return fs, nil
			}
			var cs numCase
			if err := json.Unmarshal(raw, &cs); err != nil {
				return nil, err
			}
			if cs.Kind == "grammar" {
				return numGrammarEval(cs), nil
			}
			it, fs := numTraceItemOf(cs)
			if fs != nil {
				return fs, nil
			}
			if it.line == nil {
				return nil, nil
			}
			bad, res, err := tlc.ValidateTrace("NumberTrace", "NumberTrace.cfg", [][]byte{it.line}, nil)
			if res != nil {
				res.Cleanup()
			}
			if err != nil {
				return nil, err
			}
			if len(bad) != 0 {
				return []core.Finding{{Class: "number:trace", What: "NumberTrace rejects " + string(it.line)}}, nil
			}
			return nil, nil
		}})
}
