package checks

import (
	"encoding/json"
	"fmt"
	"strings"

	"github.com/jsightapi/jsight-schema-core/fs"
	"github.com/jsightapi/jsight-schema-core/notations/jschema/scanner"

	"verif/harness/internal/core"
	"verif/harness/internal/tlc"
)

// Direction 2 for the schema scanner: the event stream of notations/jschema/scanner is recorded (span, byte classes,
// a summary of the text skipped before each event) and validated by TLC against JSchemaLex.tla / JSchemaLexTrace.tla.

func lexClass(c byte) string {
	switch {
	case c == '{':
		return "lbrace"
	case c == '}':
		return "rbrace"
	case c == '[':
		return "lbrack"
	case c == ']':
		return "rbrack"
	case c == '"':
		return "quote"
	case c >= '0' && c <= '9':
		return "digit"
	case c == '-':
		return "minus"
	case c == 't', c == 'f', c == 'n':
		return string(c)
	case c == '@':
		return "at"
	case c == '/':
		return "slash"
	case c == '*':
		return "star"
	case c == '\r':
		return "cr"
	case c == '\n':
		return "lf"
	case c == '#':
		return "hash"
	}
	return "other"
}

type lexGap struct {
	Comma int  `json:"comma"`
	Colon int  `json:"colon"`
	Other int  `json:"other"`
	Hash  bool `json:"hash"`
}

func lexGapOf(b []byte) lexGap {
	var g lexGap
	for _, c := range b {
		switch c {
		case ' ', '\t', '\r', '\n':
		case ',':
			g.Comma++
		case ':':
			g.Colon++
		case '#':
			g.Hash = true
			g.Other++
		default:
			g.Other++
		}
	}
	return g
}

type lexLine struct {
	Ev     string `json:"ev"`
	T      string `json:"t,omitempty"`
	B      int    `json:"b"`
	E      int    `json:"e"`
	Fc     string `json:"fc"`
	Lc     string `json:"lc"`
	Nc     string `json:"nc"`
	From   int    `json:"from"`
	Gap    lexGap `json:"gap"`
	Scalar bool   `json:"scalar"`
	How    string `json:"how,omitempty"`
}

var lexScalarOpen = map[string]bool{"literal-begin": true, "key-begin": true, "key-shortcut-begin": true, "mixed-value-begin": true,
	"types-shortcut-begin": true, "value-begin": true, "item-begin": true, "inline-annotation-text-begin": true, "multi-line-annotation-text-begin": true}
var lexScalarClose = map[string]bool{"literal-end": true, "key-end": true, "key-shortcut-end": true, "types-shortcut-end": true,
	"inline-annotation-text-end": true, "multi-line-annotation-text-end": true}
var lexNoGapClose = map[string]bool{"mixed-value-end": true, "value-end": true, "item-end": true, "inline-annotation-end": true}
var lexBlockOpen = map[string]bool{"object-begin": true, "array-begin": true, "inline-annotation-begin": true, "multi-line-annotation-begin": true}
var lexBlockClose = map[string]bool{"object-end": true, "array-end": true, "multi-line-annotation-end": true}

// lexTrace scans text and returns the trace lines (reset, lex*, done).
func lexTrace(text string) (lines [][]byte) {
	data := []byte(text)
	add := func(l lexLine) {
		b, _ := json.Marshal(l)
		lines = append(lines, b)
	}
	add(lexLine{Ev: "reset"})
	how := "complete"
	cur := 0
	func() {
		defer func() {
			if r := recover(); r != nil {
				how = "refused"
			}
		}()
		s := scanner.New(fs.NewFile("lextrace", text))
		for {
			lex, ok := s.Next()
			if !ok {
				return
			}
			t := lex.Type().String()
			b, e := int(lex.Begin()), int(lex.End())
			l := lexLine{Ev: "lex", T: t, B: b, E: e, From: cur, Fc: "none", Lc: "none", Nc: "none"}
			if e+1 >= 0 && e+1 < len(data) {
				l.Nc = lexClass(data[e+1])
			}
			if b >= 0 && b < len(data) {
				l.Fc = lexClass(data[b])
			}
			if e >= 0 && e < len(data) {
				l.Lc = lexClass(data[e])
			}
			clip := func(from, to int) []byte {
				if from < 0 || to > len(data) || from > to {
					return nil
				}
				return data[from:to]
			}
			switch {
			case lexBlockOpen[t]:
				l.Gap = lexGapOf(clip(cur, b))
				cur = e + 1
			case lexScalarOpen[t]:
				l.Gap = lexGapOf(clip(cur, b))
				if b > cur {
					cur = b
				}
			case lexScalarClose[t]:
				if e+1 > cur {
					cur = e + 1
				}
			case lexNoGapClose[t]:
			case lexBlockClose[t]:
				l.Gap = lexGapOf(clip(cur, e))
				cur = e + 1
			case t == "new-line":
				l.Gap = lexGapOf(clip(cur, b))
				cur = e + 1
			}
			if t == "literal-end" && b >= 0 && e < len(data) && b <= e {
				v := data[b : e+1]
				l.Scalar = json.Valid(v) && v[0] != '{' && v[0] != '['
			}
			add(l)
		}
	}()
	add(lexLine{Ev: "done", How: how})
	return lines
}

// lexValidate validates the recorded streams of the texts with TLC and reports every text with a line that
// JSchemaLex does not explain.
func lexValidate(c *core.Ctx, texts []string, label string) error {
	// TLC validates some ten thousand events a second: a bounded, evenly spaced sample of the texts
	if max := c.Pick(3000, 30000); len(texts) > max {
		step := float64(len(texts)) / float64(max)
		var pick []string
		for i := 0; i < max; i++ {
			pick = append(pick, texts[int(float64(i)*step)])
		}
		texts = pick
	}
	fs, res, n, err := lexFindings(texts, label)
	if res != nil {
		c.AddTLC("JSchemaLexTrace.cfg", res)
		res.Cleanup()
	}
	if err != nil {
		return err
	}
	c.AddInt("lexeme_events_validated", int64(n))
	c.AddInt("traces_validated_against_impl", int64(len(texts)))
	for i, f := range fs {
		c.Report(map[string]any{"lextrace": texts[i], "label": label}, []core.Finding{f})
	}
	return nil
}

// lexFindings: text index -> finding for every text with an unexplained event.
func lexFindings(texts []string, label string) (map[int]core.Finding, *tlc.Result, int, error) {
	out := map[int]core.Finding{}
	var all [][]byte
	var owner []int
	for i, t := range texts {
		for _, l := range lexTrace(t) {
			all = append(all, l)
			owner = append(owner, i)
		}
	}
	if len(all) == 0 {
		return out, nil, 0, nil
	}
	bad, res, err := tlc.ValidateTrace("JSchemaLexTrace", "JSchemaLexTrace.cfg", all, nil)
	if err != nil {
		return out, res, len(all), err
	}
	for _, b := range bad {
		i := owner[b-1]
		if _, seen := out[i]; seen {
			continue
		}
		var l lexLine
		_ = json.Unmarshal(all[b-1], &l)
		what := l.T
		if l.Ev == "done" {
			what = "end-of-scan:" + l.How
		}
		out[i] = core.Finding{Class: "lexemes:" + label + ":" + what,
			What: fmt.Sprintf("JSchemaLex does not explain the event %s of the scan of %q", strings.TrimSpace(string(all[b-1])), texts[i])}
	}
	return out, res, len(all), nil
}

// lexReplay validates one recorded text again (replay of a finding).
func lexReplay(raw json.RawMessage) ([]core.Finding, bool) {
	var cs struct {
		Text  *string `json:"lextrace"`
		Label string  `json:"label"`
	}
	if json.Unmarshal(raw, &cs) != nil || cs.Text == nil {
		return nil, false
	}
	fs, res, _, err := lexFindings([]string{*cs.Text}, cs.Label)
	if res != nil {
		res.Cleanup()
	}
	if err != nil {
		return []core.Finding{{Class: "lexemes:infra", What: err.Error()}}, true
	}
	var out []core.Finding
	for _, f := range fs {
		out = append(out, f)
	}
	return out, true
}
