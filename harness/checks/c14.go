package checks

import (
	"encoding/json"
	"fmt"
	"math/rand"
	"strings"

	"github.com/jsightapi/jsight-schema-core/notations/jschema"
	"github.com/jsightapi/jsight-schema-core/openapi"

	"verif/harness/internal/core"
	"verif/harness/internal/corpus"
	"verif/harness/internal/model"
	"verif/harness/internal/tlc"
)

// C14: the projects of SchemaText.tla are printed under the layouts of Layout.tla; all observables
// must be equal within the orbit. The repository corpus is checked under context-free transformations.

type loCase struct {
	P       *model.Project `json:"p,omitempty"`
	Base    model.Layout   `json:"base"`
	Other   model.Layout   `json:"other"`
	Text    string         `json:"text,omitempty"` // corpus text
	Variant string         `json:"variant,omitempty"`
}

type loObs struct {
	verdict string
	ast     string
	example string
	used    string
	oas     string
}

func loObserve(text string, types map[string]string) (o loObs) {
	defer func() {
		if r := recover(); r != nil {
			o.verdict = "PANIC: " + firstLineStr(fmt.Sprint(r))
		}
	}()
	s := jschema.New("root", text)
	eachSupport(types, func(n, t string) bool { _ = regSupport(s, n, t); return true })
	err := s.Check()
	if err != nil {
		o.verdict = fmt.Sprintf("rejected code=%d", errCode(err))
		return
	}
	o.verdict = "accepted"
	if a, err := s.GetAST(); err == nil {
		b, _ := json.Marshal(astNorm(a))
		o.ast = string(b)
	} else {
		o.ast = "ERR " + firstLineOf(err)
	}
	ex, err := s.Example()
	o.example = string(ex) + " " + firstLineOf(err)
	u, _ := s.UsedUserTypes()
	o.used = strings.Join(u, ",")
	func() {
		defer func() {
			if r := recover(); r != nil {
				o.oas = "PANIC " + firstLineStr(fmt.Sprint(r))
			}
		}()
		b, err := openapi.NewSchemaObject(s).MarshalJSON()
		// descriptions carry the notes: compare modulo blank runs
		o.oas = normWS(string(b)) + " " + firstLineOf(err)
	}()
	return
}

func loDiff(a, b loObs) (string, string) {
	switch {
	case a.verdict != b.verdict:
		return "verdict", fmt.Sprintf("%s vs %s", a.verdict, b.verdict)
	case a.ast != b.ast:
		return "ast", fmt.Sprintf("%.300s vs %.300s", a.ast, b.ast)
	case a.example != b.example:
		return "example", fmt.Sprintf("%.200q vs %.200q", a.example, b.example)
	case a.used != b.used:
		return "used-types", fmt.Sprintf("%s vs %s", a.used, b.used)
	case a.oas != b.oas:
		return "openapi", fmt.Sprintf("%.300s vs %.300s", a.oas, b.oas)
	}
	return "", ""
}

func layoutDelta(a, b model.Layout) string {
	var d []string
	if a.NL != b.NL {
		d = append(d, "newline")
	}
	if a.Multi != b.Multi {
		d = append(d, "annotation-style")
	}
	if a.Quote != b.Quote {
		d = append(d, "quoted-names")
	}
	if a.Pad != b.Pad {
		d = append(d, "padding")
	}
	if a.Comments != b.Comments {
		d = append(d, "user-comments")
	}
	if a.LeadBlank != b.LeadBlank || a.TailBlank != b.TailBlank {
		d = append(d, "blank-lines")
	}
	return strings.Join(d, "+")
}

func loEval(cs loCase) []core.Finding {
	if cs.P != nil {
		t1, t2 := cs.Base.Print(*cs.P), cs.Other.Print(*cs.P)
		a, b := loObserve(t1, model.SupportTypes), loObserve(t2, model.SupportTypes)
		if what, d := loDiff(a, b); what != "" {
			return []core.Finding{{Class: "layout:" + what + ":" + layoutDelta(cs.Base, cs.Other),
				What: fmt.Sprintf("two presentations of one schema differ in %s: %s\n--- [%s]\n%s\n--- [%s]\n%s", what, d, cs.Base, t1, cs.Other, t2)}}
		}
		return nil
	}
	t2 := loTransform(cs.Text, cs.Variant)
	a, b := loObserve(cs.Text, nil), loObserve(t2, nil)
	if a.verdict == "rejected code=303" && strings.HasPrefix(cs.Variant, "tail") {
		// a text that stops in the middle of an element is not "complete": what follows it is not mere presentation
		return nil
	}
	if what, d := loDiff(a, b); what != "" {
		return []core.Finding{{Class: "layout-corpus:" + what + ":" + cs.Variant, What: fmt.Sprintf("%q and its %s variant differ in %s: %s", cs.Text, cs.Variant, what, d)}}
	}
	return nil
}

func loTransform(text, variant string) string {
	switch variant {
	case "crlf":
		return strings.ReplaceAll(text, "\n", "\r\n")
	case "cr":
		return strings.ReplaceAll(text, "\n", "\r")
	case "lead-blank":
		return "\n\n" + text
	case "tail-blank":
		return text + "\n\n"
	case "tail-spaces":
		return text + "   "
	}
	return text
}

func runC14(c *core.Ctx) error {
	res, err := tlc.Run(tlc.Opts{Module: "Layout", Cfg: "Layout.cfg", Workers: 4})
	res.Cleanup()
	if err != nil {
		return err
	}
	if err := res.MustOK(); err != nil {
		return err
	}
	c.AddTLC("Layout.cfg", res)
	var layouts []model.Layout
	for _, l := range res.Lines {
		var r struct {
			NL                                         string
			Multi, Pad, Comments, LeadBlank, TailBlank int
			Quote                                      int
		}
		var raw map[string]any
		if err := json.Unmarshal([]byte(l), &raw); err != nil {
			return err
		}
		r.NL = map[string]string{"lf": "\n", "crlf": "\r\n", "cr": "\r"}[raw["nl"].(string)]
		layouts = append(layouts, model.Layout{NL: r.NL, Multi: int(raw["multi"].(float64)), Quote: int(raw["quote"].(float64)), Pad: int(raw["pad"].(float64)),
			Comments: int(raw["comments"].(float64)), Split: int(raw["split"].(float64)), LeadBlank: int(raw["lead_blank"].(float64)), TailBlank: int(raw["tail_blank"].(float64))})
	}
	if len(layouts) != 13500 {
		return fmt.Errorf("expected 13500 layouts, TLC emitted %d", len(layouts))
	}
	ps, err := stProjects(c, "SchemaText_quick.cfg", "")
	if err != nil {
		return err
	}
	base := model.Layout{NL: "\n"}
	per := c.Pick(24, 160)
	core.ParallelFor(len(ps), func(i int) {
		rng := rand.New(rand.NewSource(c.Seed*7001 + int64(i)))
		for k := 0; k < per; k++ {
			cs := loCase{P: &ps[i], Base: base, Other: layouts[rng.Intn(len(layouts))]}
			c.CountEval(1)
			c.Nontrivial(fmt.Sprint(i, cs.Other))
			c.Report(cs, loEval(cs))
		}
	})
	// corpus: context-free transformations
	items := corpus.Harvest(1500, "notations/jschema", "openapi", "test", ".")
	n := 0
	for _, it := range items {
		if !strings.Contains(it.Text, "{") && !strings.Contains(it.Text, "[") && !strings.Contains(it.Text, "//") {
			continue
		}
		if strings.Contains(it.Text, "\r") {
			continue
		}
		n++
		for _, v := range []string{"crlf", "cr", "lead-blank", "tail-blank", "tail-spaces"} {
			cs := loCase{Text: it.Text, Variant: v}
			c.CountEval(1)
			c.Report(cs, loEval(cs))
		}
	}
	c.Set("corpus_texts", n)
	c.Set("projects", len(ps))
	c.Set("layouts", len(layouts))
	c.Set("layouts_per_project", per)
	c.Sample(layouts[len(layouts)/3].Print(ps[len(ps)/3]))
	c.Set("rule", "every project of SchemaText.tla printed under the plain layout and under a seeded sample of the 13500 layouts of Layout.tla (line ends x annotation style x quoted names x padding x user comments x leading/trailing blank lines): verdict + code, AST (notes modulo blank runs), example, used types and OpenAPI JSON equal; every schema-like literal of the repository's tests under newline-style, blank-line and trailing-blank transformations. distinct_nontrivial = distinct (project, layout) pairs")
	return nil
}

func init() {
	register(&core.Check{ID: "C14", Level: "model_checking", Run: runC14,
		Replay: func(c *core.Ctx, raw json.RawMessage) ([]core.Finding, error) {
			var cs loCase
			if err := json.Unmarshal(raw, &cs); err != nil {
				return nil, err
			}
			return loEval(cs), nil
		}})
}
