package checks

import (
	"encoding/json"
	"fmt"
	"math/rand"
	"strings"

	"github.com/jsightapi/jsight-schema-core/notations/jschema"

	"verif/harness/internal/core"
	"verif/harness/internal/corpus"
	"verif/harness/internal/model"
	"verif/harness/internal/tlc"
)

// C15: observations (S, T) -> Len/verdict/AST facts are recorded from the real code and validated by TLC
// against LenLaws. S ranges over printed SchemaText projects, JsonGen documents, root forms and the corpus.

type lenCase struct {
	S    string   `json:"s"`
	T    string   `json:"t"`
	Warm []string `json:"warm,omitempty"` // call prefix (SchemaApi_orders) answered by every object before its Len()
	// Before lets another schema text be measured first in the same process (texts that stop in every lexical state):
	// whatever the library keeps between calls, Len() of the next text is a function of that text
	Before string `json:"before,omitempty"`
}

// texts that end while a literal, a reference, a choice, a string, an annotation or a comment is still open
var lenOpenEnded = []string{`{"id": @catId`, `[1, @a`, `"abc`, `12`, `{"a": 1 // note`, `@a |`, `tru`, `1.`, `{"k": "v`, `1 /* x`, `1 # c`, `{"a": 1,`, `[`, `-`, `{"a"`, `@`, "1 // {min: 1", `{"a": @b}`, `"done"`}

// lenOf is Len() of a new object with the text, after the object has answered the call prefix.
func lenOf(text string, warm []string) (uint, error) {
	s := jschema.New("root", text)
	if len(warm) > 0 {
		eachSupport(model.SupportTypes, func(n, t string) bool { _ = regSupport(s, n, t); return true })
		_ = warmUp(s, warm)
	}
	return s.Len()
}

type lenObs struct {
	Slen     int    `json:"slen"`
	Len      int    `json:"len"`
	Vs       string `json:"vs"`
	Vp       string `json:"vp"`
	AstEq    bool   `json:"asteq"`
	Lenp     int    `json:"lenp"`
	Lenst    int    `json:"lenst"`
	Complete bool   `json:"complete"`
}

func lenVerdictAST(text string) (string, string) {
	s := jschema.New("root", text)
	eachSupport(model.SupportTypes, func(n, t string) bool { _ = regSupport(s, n, t); return true })
	err := s.Check()
	if err != nil {
		return fmt.Sprintf("rejected-%d", errCode(err)), ""
	}
	a, err := s.GetAST()
	if err != nil {
		return "accepted", "ERR"
	}
	b, _ := json.Marshal(astNorm(a))
	return "accepted", string(b)
}

// lenObserve returns nil when Len(S) itself fails (S has no measurable root value).
func lenObserve(cs lenCase) (o *lenObs, panicked string) {
	defer func() {
		if r := recover(); r != nil {
			panicked = fmt.Sprint(r)
		}
	}()
	if cs.Before != "" {
		_, _ = jschema.New("before", cs.Before).Len()
	}
	n, err := lenOf(cs.S, cs.Warm)
	if err != nil {
		// a text Check() accepts has an end: Len() may only fail where Check() refuses
		if vs, _ := lenVerdictAST(cs.S); vs == "accepted" {
			return &lenObs{Slen: len(cs.S), Len: -1, Vs: vs, Vp: "len-error: " + firstLineOf(err)}, ""
		}
		return nil, ""
	}
	if n == 0 {
		return nil, "" // no root value
	}
	o = &lenObs{Slen: len(cs.S), Len: int(n)}
	if int(n) > len(cs.S) {
		o.Vs, o.Vp = "?", "?"
		return o, ""
	}
	prefix := cs.S[:n]
	vs, as := lenVerdictAST(cs.S)
	if vs == "accepted" && strings.HasPrefix(as, `{"tt":""`) {
		return nil, "" // annotation or comment only: no root value
	}
	vp, ap := lenVerdictAST(prefix)
	o.Vs, o.Vp, o.AstEq = vs, vp, as == ap
	if vs != "accepted" && int(n) < len(strings.TrimRight(cs.S, " \t\r\n")) {
		// S is itself "a schema followed by other text" (Check() refuses the rest, Len() finds the boundary):
		// the prefix law is demanded of accepted S and of rejected S that Len() covers entirely
		o.Vp, o.AstEq = o.Vs, true
	}
	np, err := lenOf(prefix, cs.Warm)
	o.Lenp = int(np)
	if err != nil {
		o.Lenp = -1
	}
	// complete: accepted, and the text does not stop inside a user comment (a "#" line without its line end
	// is not closed: DESIGN C15)
	lastLine := cs.S
	if i := strings.LastIndexAny(strings.TrimRight(cs.S, "\r\n"), "\r\n"); i >= 0 {
		lastLine = cs.S[i+1:]
	}
	o.Complete = vs == "accepted" && (!strings.Contains(lastLine, "#") || strings.HasSuffix(cs.S, "\n") || strings.HasSuffix(cs.S, "\r"))
	nst, err := lenOf(cs.S+"\n"+cs.T, cs.Warm)
	o.Lenst = int(nst)
	if err != nil {
		o.Lenst = -1
	}
	return o, ""
}

func lenClass(cs lenCase, o *lenObs) string {
	switch {
	case o.Len < 0:
		return "len:error-on-accepted-schema"
	case o.Len > o.Slen:
		return "len:exceeds-text"
	case o.Vs != o.Vp || !o.AstEq:
		return "len:prefix-differs"
	case o.Lenp != o.Len:
		return "len:not-idempotent"
	}
	first := "empty"
	if cs.T != "" {
		first = fmt.Sprintf("%q", cs.T[:1])
	}
	last := ""
	if t := strings.TrimRight(cs.S, " \t\r\n"); t != "" {
		last = t[len(t)-1:]
	}
	return fmt.Sprintf("len:boundary-moves:S-ends-%q:T-starts-%s", last, first)
}

func runC15(c *core.Ctx) error {
	rng := rand.New(rand.NewSource(c.Seed))
	var ss []string
	ps, err := stProjects(c, "SchemaText_quick.cfg", "")
	if err != nil {
		return err
	}
	lays := []model.Layout{{NL: "\n"}, {NL: "\n", Multi: 1, Quote: 2}, {NL: "\r\n", Multi: 2, Comments: 1}, {NL: "\n", Comments: 2, TailBlank: 2}, {NL: "\r", Pad: 1},
		{NL: "\n", Split: 2}, {NL: "\r\n", Split: 1, Pad: 3}, {NL: "\r", Split: 2, Quote: 1}}
	rng.Shuffle(len(ps), func(i, j int) { ps[i], ps[j] = ps[j], ps[i] })
	for i, p := range ps {
		if i >= c.Pick(700, 6000) {
			break
		}
		ss = append(ss, lays[i%len(lays)].Print(p))
	}
	roots := []string{`@t`, `@a | @b`, `12 // {min: 1}`, `12 // {min: 1} - note`, `"Tom" /* {minLength: 1} */`, `"Tom"`, `12`, `-0.50`, `true`, `null`,
		"[\n  1,\n  2\n]", "[ // {minItems: 1}\n  @t\n]", `{}`, `[]`, "{\n  \"a\": @t // {optional: true}\n}", "{\n  @k: 1\n}", `[1, 2]`, `{"a": 1}`,
		"12 # user comment", "12 // note only",
		// notes that end in a character whose last byte is 0x85 or 0xA0 (white space in some code pages), or in other bytes >= 0x80
		"42 // \u0432\u0441\u0435\u0445", "\"Roma\" // la citt\u00e0", "{} // {additionalProperties: true} - dane s\u0105", "null // \U0001F605", "[1] // {minItems: 1} - \u00e9\u00a0", "12 // caf\u00e9",
		// one element, two annotations: the note on the line after the rules, or in an annotation of its own before them
		"42 // {min: 1}\n// the answer", "42 // {min: 1}\r// the answer", "\"Tom\" // {minLength: 1}\r// a note\r", "[] // {maxItems: 0}\r  // n", "\"Tom\" // {minLength: 1}\r\n// a note", "[] // {maxItems: 0}\n  // n", "@t // {optional: false}\n// note",
		"42 /* {min: 1} - the note */ // {max: 50}", "42 /* the note */ // {min: 1, max: 50}", "{ // {additionalProperties: true}\n// n\n}", "{ // note\n}", "@t // {optional: false}", "  12  ", "\n\n12\n\n"}
	ss = append(ss, roots...)
	for _, it := range corpus.Harvest(600, "notations/jschema") {
		ss = append(ss, it.Text)
	}
	// follow-up texts: every first byte except '/' and '#', a few rests
	var ts []string
	rests := []string{"", "x", ` {"a": 1}`, "ET /path HTTP", " // later", "   ", "\n{\n}", `: "v", 1]`}
	for b := 0; b < 256; b++ {
		if b == '/' || b == '#' {
			continue
		}
		for _, r := range rests {
			if (b == ' ' || b == '\t' || b == '\n' || b == '\r') && strings.ContainsAny(strings.TrimLeft(r, " \t\r\n")+"x", "/#") && (strings.HasPrefix(strings.TrimLeft(r, " \t\r\n"), "/") || strings.HasPrefix(strings.TrimLeft(r, " \t\r\n"), "#")) {
				continue // "does not start with / or #" under either reading of "start"
			}
			ts = append(ts, string([]byte{byte(b)})+r)
		}
	}
	ts = append(ts, "")
	c.Set("schema_texts", len(ss))
	c.Set("follow_up_texts", len(ts))
	// pairs: every S with a seeded sample of T
	perS := c.Pick(12, 60)
	var cases []lenCase
	for _, s := range ss {
		for k := 0; k < perS; k++ {
			cases = append(cases, lenCase{S: s, T: ts[rng.Intn(len(ts))]})
		}
	}
	// every first byte at least once on a few S
	for _, s := range roots {
		for i := 0; i < len(ts); i += len(rests) {
			cases = append(cases, lenCase{S: s, T: ts[i]})
		}
	}
	// SchemaApi.tla: Len() is a function of the text. Every third observation is also made with objects that have
	// answered a call prefix first (SchemaApi_orders.cfg); the laws are the same
	if _, err := loadCallOrders(); err != nil {
		return err
	}
	nplain := len(cases)
	for i := 0; i < nplain; i += 3 {
		w := cases[i]
		w.Warm = callPrefix(i, c.Seed)
		cases = append(cases, w)
	}
	for i := 1; i < nplain; i += 4 {
		w := cases[i]
		w.Before = lenOpenEnded[(i/4)%len(lenOpenEnded)]
		cases = append(cases, w)
	}
	lines := make([][]byte, len(cases))
	keep := make([]bool, len(cases))
	core.ParallelFor(len(cases), func(i int) {
		o, p := lenObserve(cases[i])
		c.CountEval(1)
		if p != "" {
			c.Report(cases[i], []core.Finding{{Class: "len:panic", What: fmt.Sprintf("Len panicked on %q + %q: %s", cases[i].S, cases[i].T, firstLineStr(p))}})
			return
		}
		if o == nil {
			return
		}
		lines[i], _ = json.Marshal(o)
		keep[i] = true
	})
	var tl [][]byte
	var idx []int
	for i := range cases {
		if keep[i] {
			tl = append(tl, lines[i])
			idx = append(idx, i)
			c.Nontrivial(cases[i].S + "\x00" + cases[i].T + "\x00" + strings.Join(cases[i].Warm, ",") + "\x00" + cases[i].Before)
		}
	}
	bad, res, err := tlc.ValidateTrace("LenLaws", "LenLaws.cfg", tl, nil)
	if res != nil {
		c.AddTLC("LenLaws.cfg", res)
		res.Cleanup()
	}
	if err != nil {
		return err
	}
	c.AddInt("traces_validated_against_impl", int64(len(tl)-len(bad)))
	for _, b := range bad {
		cs := cases[idx[b-1]]
		var o lenObs
		_ = json.Unmarshal(tl[b-1], &o)
		c.Report(cs, []core.Finding{{Class: lenClass(cs, &o), What: fmt.Sprintf("S=%q T=%q: observation %s breaks LenLaws", cs.S, cs.T, tl[b-1])}})
	}
	c.Sample(map[string]any{"S": cases[3].S, "T": cases[3].T, "observation": json.RawMessage(tl[0])})
	c.Set("rule", "S: printed SchemaText projects under 5 layouts, root forms (references, choices, annotated scalars, comments), schema literals of the repository's tests; T: every first byte except / and # with 8 rests; for each pair the library's Len/verdict/AST facts are recorded and TLC validates each record against LenLaws (Len <= len, prefix has the same verdict and AST, idempotence, Len(S.nl.T) = Len(S) for complete S). distinct_nontrivial = distinct (S, T) pairs with a measurable S")
	return nil
}

func init() {
	register(&core.Check{ID: "C15", Level: "model_checking", Run: runC15,
		Replay: func(c *core.Ctx, raw json.RawMessage) ([]core.Finding, error) {
			var cs lenCase
			if err := json.Unmarshal(raw, &cs); err != nil {
				return nil, err
			}
			o, p := lenObserve(cs)
			if p != "" {
				return []core.Finding{{Class: "len:panic", What: p}}, nil
			}
			if o == nil {
				return nil, nil
			}
			line, _ := json.Marshal(o)
			bad, res, err := tlc.ValidateTrace("LenLaws", "LenLaws.cfg", [][]byte{line}, nil)
			if res != nil {
				res.Cleanup()
			}
			if err != nil {
				return nil, err
			}
			if len(bad) > 0 {
				return []core.Finding{{Class: lenClass(cs, o), What: "observation " + string(line) + " breaks LenLaws"}}, nil
			}
			return nil, nil
		}})
}
