package checks

import (
	"encoding/json"
	"fmt"
	"sort"
	"strings"
	"sync"
	"unsafe"

	"bytes"

	schema "github.com/jsightapi/jsight-schema-core"
	"github.com/jsightapi/jsight-schema-core/notations/jschema"
	"github.com/jsightapi/jsight-schema-core/openapi"
	"github.com/jsightapi/jsight-schema-core/rules/enum"
	"github.com/jsightapi/jsight-schema-core/verifhook"

	"verif/harness/internal/core"
)

// Replay of SchemaApi histories on the real library (shared by C10, C09, C11).

var apiTexts = map[string]string{
	"shallow":  `{"a": 1}`,
	"nested":   `{"b": {"c": [1, 2, {"d": "x"}]}}`,
	"deeper":   `{"e": {"f": {"g": {"h": [[["deep", {"i": {"j": [1, 2, 3]}}]]]}}}, "z": "a longer string that overwrites whatever lies in a recycled buffer ......................................................"}`,
	"badscan":  `{"a": 1,`,
	"badrule":  "{\n  \"a\": 1, // {min: 0}\n  \"b\": 2 // {nosuchrule: 1}\n}",
	"badvalue": "{\n  \"a\": 1 // {min: 2}\n}",
	"usesT":    `{"r": @t, "s": [@t, @t]}`,
	"typeT":    `"str" // {minLength: 1}`,
	// contents whose OpenAPI conversion walks nested rule values (or rule-sets with format types, enum, allOf-free objects)
	"orset": `"2021-01-02T07:23:12+03:00" // {or: [{type: "datetime"}, {type: "integer", min: 1}, "email"]}`,
	"rich":  "{ // {additionalProperties: \"string\"}\n  \"e\": \"x\", // {enum: [\"x\", 1, null]}\n  \"d\": \"2021-12-31\", // {type: \"date\", optional: true}\n  \"u\": [ // {minItems: 1}\n    \"550e8400-e29b-41d4-a716-446655440000\" // {type: \"uuid\"}\n  ],\n  \"c\": @t | @u\n}",
	"typeU": `12.5 // {type: "decimal", precision: 1, nullable: true}`,
	"big":   apiBigText(),
	// texts without a value: the load succeeds and leaves an empty schema behind
	"blank":   " \n",
	"comment": "# nothing but a user comment",
	// rejected schemas with CR-only line ends and the defect on a later line (the diagnostics carry line and column)
	"badvalueCR": "# " + strings.Repeat("a long first line ", 40) + "\r{\r  \"a\": 1 // {min: 2}\r}",
	"badscanCR":  "{\r  \"a\": 1,\r  \"b\": tru\r}",
	"badrefLF":   "{\n  \"a\": 1,\n  \"b\": @nowhere\n}",
	// an heir and its parent as separate type objects: shared by two roots the heir is complete on one of them only
	"heir":     "{ // {allOf: \"@typeObj\"}\n  \"hk\": 1\n}",
	"typeObj":  "{\n  \"ok\": 1\n}",
	"usesHeir": `{"r": @heir}`,
	// plan shared-parent: heirs of one and of two types (the second root is created with keys optional by default)
	"heirOfTwo": "{} // {allOf: [\"@typeObj\", \"@typeObj2\"]}",
	// (its own property has the name of a key of @typeObj2 and refers to the root itself, which is registered on itself:
	// the property is optional - keys are optional by default here - so the root does not require itself)
	"heirOfOne": "{ // {allOf: \"@typeObj\"}\n  \"ok2\": @heirOfOne\n}",
	"typeObj2":  "{\n  \"ok2\": 2\n}",
	// a type that refers to another one, @id, which two roots define differently
	"usesItem": `{"item": @item}`,
	"item":     "{\n  \"id\": @id,\n  \"n\": 1\n}",
	"idNum":    `1`,
	"idStr":    `"abc"`,
	// a schema that refers to a named enum rule: every object of one history with this content is given the SAME
	// rule object (apiWorld.rule), as the schemas of one project are
	"usesRule": `"WOLF" // {enum: @animals}`,
	// keys that have to be escaped when they are written out again
	"esckeys": `{"a\"b": 1, "c\\d": {"e\nf": [true, {"\u2028": null}]}, "t\tab": "v", "\u0001": 2}`,
	// a root that is nothing but a reference to an object type / a choice between an object type and a string type
	"rootRef":    `@typeObj`,
	"rootChoice": `@typeObj | @t`,
	// a type with two defective choices: four internal (unnamed) types, the first defect in source order is reported
	"typeC": "{\n  \"p\": @n1 | @n2,\n  \"q\": @n3 | @n4\n}",
}

// regSupport registers a supporting text of a project on s: a user type, or - for names with the prefix "rule:" -
// a named enum rule.
// eachSupport visits the named rules first (a rule cannot be added once the schema has been loaded by AddType),
// then the types in map order.
func eachSupport(m map[string]string, f func(n, t string) bool) {
	for n, t := range m {
		if strings.HasPrefix(n, "rule:") && !f(n, t) {
			return
		}
	}
	for n, t := range m {
		if !strings.HasPrefix(n, "rule:") && !f(n, t) {
			return
		}
	}
}

func regSupport(s *jschema.JSchema, n, t string) error {
	if strings.HasPrefix(n, "rule:") {
		return s.AddRule(n[5:], enum.New(n[5:], t))
	}
	return s.AddType(n, jschema.New(n, t))
}

func apiBigText() string {
	var sb strings.Builder
	sb.WriteString("{\n")
	for i := 0; i < 150; i++ {
		fmt.Fprintf(&sb, "  \"p%d\": %d, // {min: 0}\n", i, i)
	}
	sb.WriteString("  \"last\": [1, 2, 3]\n}")
	return sb.String()
}

var _ = fmt.Sprint

func apiTypeName(content string) string {
	if content == "typeT" {
		return "@t"
	}
	if content == "typeU" {
		return "@u"
	}
	if content == "idNum" || content == "idStr" {
		return "@id"
	}
	return "@" + content
}

type apiStep struct {
	Op  string `json:"op"`
	Obj string `json:"obj"`
	Arg string `json:"arg"`
	G   int    `json:"g,omitempty"`
}

type apiHist struct {
	Hist   []apiStep `json:"hist"`
	Cursor []int     `json:"cursor,omitempty"` // SchemaApi!Cursors: for every "Next" the position it reads (else -1)
	Trace  bool      `json:"trace,omitempty"`
}

type heldResult struct {
	step  int
	op    string
	bytes []byte         // the very slice returned
	ast   schema.ASTNode // the very value returned
	isAST bool
	err   error
	list  []string
	snap  string
}

func (h *heldResult) read() string {
	switch {
	case h.err != nil:
		return "ERR:" + h.err.Error()
	case h.isAST:
		b, _ := json.Marshal(h.ast)
		return "OK:" + string(b)
	case h.list != nil:
		return "OK:" + strings.Join(h.list, ",")
	default:
		return "OK:" + string(h.bytes)
	}
}

type apiWorld struct {
	objs    map[string]*jschema.JSchema
	content map[string]string
	regs    map[string][]string // contents registered, in call order
	held    []*heldResult
	rule    *enum.Enum // the one enum rule object of the history (content usesRule)
}

const apiRuleText = "[\n  \"DOG\", // a dog\n  // a line that holds nothing but a comment\n  \"WOLF\",\n  \"LION\" // last\n]"

func newWorld() *apiWorld {
	return &apiWorld{objs: map[string]*jschema.JSchema{}, content: map[string]string{}, regs: map[string][]string{}, rule: enum.New("@animals", apiRuleText)}
}

// call performs one public call and returns the normalised result and the held value.
func (w *apiWorld) call(op, obj, arg string) (res string, h *heldResult, panicked string) {
	defer func() {
		if r := recover(); r != nil {
			panicked = fmt.Sprint(r)
			res = "PANIC:" + panicked
		}
	}()
	h = &heldResult{op: op}
	s := w.objs[obj]
	switch op {
	case "New":
		w.objs[obj] = jschema.New("schema-"+arg, apiTexts[arg])
		w.content[obj] = arg
		if arg == "heirOfOne" {
			w.objs[obj].AreKeysOptionalByDefault = true
			_ = w.objs[obj].AddType("@heirOfOne", w.objs[obj])
		}
		if arg == "usesRule" {
			_ = w.objs[obj].AddRule("@animals", w.rule)
		}
		return "OK", nil, ""
	case "AddType":
		t := w.objs[arg]
		w.regs[obj] = append(w.regs[obj], w.content[arg])
		h.err = s.AddType(apiTypeName(w.content[arg]), t)
	case "Check":
		h.err = s.Check()
	case "Example":
		h.bytes, h.err = s.Example()
	case "GetAST":
		h.ast, h.err = s.GetAST()
		h.isAST = h.err == nil
	case "Len":
		n, err := s.Len()
		h.err = err
		h.bytes = []byte(fmt.Sprint(n))
	case "Used":
		h.list, h.err = s.UsedUserTypes()
		if h.list == nil {
			h.list = []string{}
		}
	case "OpenAPI":
		if err := s.Check(); err != nil {
			h.bytes = []byte("not-converted")
			break
		}
		h.bytes, h.err = openapi.NewSchemaObject(s).MarshalJSON()
	default:
		return "ERR:unknown op", nil, ""
	}
	h.snap = h.read()
	return h.snap, h, ""
}

// reference result of op on a fresh object with the given content and registrations (sorted contents)
var (
	refMu  sync.Mutex
	refTab = map[string]string{}
)

func apiRefKey(op, content string, regs []string) string {
	r := append([]string{}, regs...)
	sort.Strings(r)
	return op + "|" + content + "|" + strings.Join(r, ",")
}

func apiReference(op, content string, regs []string) string {
	key := apiRefKey(op, content, regs)
	refMu.Lock()
	defer refMu.Unlock()
	if v, ok := refTab[key]; ok {
		return v
	}
	w := newWorld()
	w.call("New", "x", content)
	r := append([]string{}, regs...)
	sort.Strings(r)
	for i, rc := range r {
		n := fmt.Sprint("t", i)
		w.call("New", n, rc)
		w.call("AddType", "x", n)
	}
	res, _, _ := w.call(op, "x", "")
	refTab[key] = res
	return res
}

// apiDefectSources counts the independent reasons for which the project (root content + registered contents) is rejected.
func apiDefectSources(content string, regs []string) int {
	n := 0
	hasT := false
	all := append([]string{content}, regs...)
	for _, c := range regs {
		if c == "typeT" {
			hasT = true
		}
	}
	hasObj := false
	for _, c := range regs {
		if c == "typeObj" {
			hasObj = true
		}
	}
	for _, c := range all {
		if c == "heir" && !hasObj {
			n++
		}
		if c == "usesHeir" {
			hasHeir := false
			for _, r := range regs {
				if r == "heir" {
					hasHeir = true
				}
			}
			if !hasHeir {
				n++
			}
		}
		switch c {
		case "badscan", "badrule", "badvalue", "blank", "comment", "typeC", "badvalueCR", "badscanCR", "badrefLF":
			n++
		case "usesT":
			if !hasT {
				n++
			}
		case "rootRef":
			if !hasObj {
				n++
			}
		case "heirOfTwo", "heirOfOne":
			if !hasObj {
				n++
			}
			if c == "heirOfTwo" {
				has2 := false
				for _, r := range regs {
					if r == "typeObj2" {
						has2 = true
					}
				}
				if !has2 {
					n++
				}
			}
		case "usesItem", "item":
			has := func(x string) bool {
				for _, r := range regs {
					if r == x {
						return true
					}
				}
				return false
			}
			if c == "usesItem" && !has("item") {
				n++
			}
			if !has("idNum") && !has("idStr") {
				n++
			}
			if has("idNum") && has("idStr") {
				n++
			}
		case "rootChoice":
			if !hasObj {
				n++
			}
			if !hasT {
				n++
			}
		case "rich":
			if !hasT {
				n++
			}
			hasU := false
			for _, r := range regs {
				if r == "typeU" {
					hasU = true
				}
			}
			if !hasU {
				n++
			}
		}
	}
	return n
}

// apiPrecompute fills the reference table before anything else happens in the process.
func apiPrecompute(contents []string, maxRegs int) {
	ops := []string{"Check", "Example", "GetAST", "Len", "Used", "OpenAPI"}
	var sets [][]string
	sets = append(sets, nil)
	for _, a := range contents {
		sets = append(sets, []string{a})
		if maxRegs >= 2 {
			for _, b := range contents {
				if a <= b {
					sets = append(sets, []string{a, b})
				}
			}
		}
	}
	for _, c := range contents {
		for _, s := range sets {
			for _, op := range ops {
				apiReference(op, c, s)
			}
		}
	}
}

// ---- pool observation through the verif hooks ----

type poolObs struct {
	mu     sync.Mutex
	ids    map[*bytes.Buffer]int
	base   map[int]uintptr
	capOf  map[int]int
	events []string
	gid    func() int
	record bool
}

var pools = &poolObs{ids: map[*bytes.Buffer]int{}, base: map[int]uintptr{}, capOf: map[int]int{}, gid: func() int { return 0 }}

func (p *poolObs) install() {
	verifhook.Pool = func(ev string, pool any, b *bytes.Buffer) {
		p.mu.Lock()
		id, ok := p.ids[b]
		if !ok {
			id = len(p.ids) + 1
			p.ids[b] = id
		}
		bb := b.Bytes()
		full := bb[:cap(bb)]
		if len(full) > 0 {
			p.base[id] = uintptr(unsafe.Pointer(unsafe.SliceData(full)))
			p.capOf[id] = len(full)
		}
		if p.record {
			p.events = append(p.events, fmt.Sprintf(`{"ev":"%s","g":%d,"buf":%d}`, ev, p.gid(), id))
		}
		p.mu.Unlock()
	}
}

// aliasOf returns the id of the pooled buffer whose memory b shares, or -1.
func (p *poolObs) aliasOf(b []byte) int {
	if cap(b) == 0 {
		return -1
	}
	ptr := uintptr(unsafe.Pointer(unsafe.SliceData(b[:cap(b)])))
	p.mu.Lock()
	defer p.mu.Unlock()
	for id, base := range p.base {
		if ptr >= base && ptr < base+uintptr(p.capOf[id]) {
			return id
		}
	}
	return -1
}

func (p *poolObs) emit(line string) {
	p.mu.Lock()
	if p.record {
		p.events = append(p.events, line)
	}
	p.mu.Unlock()
}

func (p *poolObs) take() []string {
	p.mu.Lock()
	defer p.mu.Unlock()
	e := p.events
	p.events = nil
	return e
}

// apiReplay replays one history sequentially and returns findings and (if h.Trace) pool trace lines.
func apiReplay(h apiHist) ([]core.Finding, []string) {
	var fs []core.Finding
	w := newWorld()
	pools.mu.Lock()
	pools.record = h.Trace
	pools.events = nil
	pools.mu.Unlock()
	if h.Trace {
		pools.emit(`{"ev":"reset","g":0,"buf":0}`)
	}
	frozenRegs := map[string][]string{}
	// objects that have been part of a successfully compiled project (as its root or as one of its types), and the
	// root they were compiled with: the library expands `allOf` in place, in the nodes the type object shares with
	// every root it is registered on
	compiledWith := map[string]string{}
	typeObjs := map[string][]string{} // root -> objects registered on it
	for i, st := range h.Hist {
		if st.Op != "New" {
			pools.emit(fmt.Sprintf(`{"ev":"call","g":0,"op":"%s","buf":0}`, st.Op))
		}
		res, held, p := w.call(st.Op, st.Obj, st.Arg)
		if p != "" {
			fs = append(fs, core.Finding{Class: "api:panic:" + st.Op + ":" + w.content[st.Obj], What: fmt.Sprintf("step %d %s(%s): panic %s", i, st.Op, st.Obj, firstLineStr(p))})
			return fs, pools.take()
		}
		if st.Op == "New" {
			continue
		}
		// (i) history independence: equals the reference result for (content, registrations)
		if st.Op != "AddType" {
			if _, ok := frozenRegs[st.Obj]; !ok {
				frozenRegs[st.Obj] = append([]string{}, w.regs[st.Obj]...)
			}
			ref := apiReference(st.Op, w.content[st.Obj], frozenRegs[st.Obj])
			if apiDefectSources(w.content[st.Obj], frozenRegs[st.Obj]) >= 2 && strings.HasPrefix(ref, "ERR:") && strings.HasPrefix(res, "ERR:") {
				// several defects are present: which one is reported first is C09's concern, not a history effect
				ref = res
			}
			if ref != res {
				class := "api:history-dependent:" + st.Op + ":" + w.content[st.Obj]
				for _, o := range append([]string{st.Obj}, typeObjs[st.Obj]...) {
					if r, ok := compiledWith[o]; ok && r != st.Obj {
						// an object of this project was compiled before as part of another project
						class = "api:history-dependent:object-compiled-in-another-project-before:" + st.Op + ":" + w.content[st.Obj]
					}
				}
				fs = append(fs, core.Finding{Class: class,
					What: fmt.Sprintf("step %d %s(%s=%s): result %.200q differs from the result on a fresh object %.200q", i, st.Op, st.Obj, w.content[st.Obj], res, ref)})
			}
			if strings.HasPrefix(res, "OK") {
				for _, o := range append([]string{st.Obj}, typeObjs[st.Obj]...) {
					if _, ok := compiledWith[o]; !ok {
						compiledWith[o] = st.Obj
					}
				}
			}
		} else {
			typeObjs[st.Obj] = append(typeObjs[st.Obj], st.Arg)
		}
		// (ii) held results stable
		same := true
		for _, old := range w.held {
			if now := old.read(); now != old.snap {
				same = false
				fs = append(fs, core.Finding{Class: "api:held-result-changed:" + old.op + "-after-" + st.Op,
					What: fmt.Sprintf("result of step %d (%s) read %.120q when returned and reads %.120q after step %d %s(%s)", old.step, old.op, old.snap, now, i, st.Op, st.Obj)})
				old.snap = now
			}
		}
		alias := -1
		if held != nil {
			held.step = i
			w.held = append(w.held, held)
			if held.bytes != nil && (st.Op == "Example" || st.Op == "OpenAPI") {
				alias = pools.aliasOf(held.bytes)
				if alias >= 0 {
					// Pools!NoLiveAlias evaluated on the state observed through the hooks, for every history (PoolsTrace
					// validates the whole event sequence of the traced ones): what was handed out is pool memory
					fs = append(fs, core.Finding{Class: "api:result-aliases-pooled-buffer:" + st.Op + ":" + w.content[st.Obj],
						What: fmt.Sprintf("step %d %s(%s=%s): the bytes returned lie inside pooled buffer #%d, which the next user of the pool overwrites", i, st.Op, st.Obj, w.content[st.Obj], alias)})
				}
			}
		}
		pools.emit(fmt.Sprintf(`{"ev":"ret","g":0,"alias":%d,"same":%v,"buf":0}`, alias, same))
	}
	return fs, pools.take()
}
