package checks

import (
	"encoding/json"
	"fmt"
	"os"
	"regexp"
	"runtime"
	"sort"
	"strconv"
	"strings"
	"sync"
	"sync/atomic"

	"verif/harness/internal/core"
	"verif/harness/internal/tlc"
)

// C11: Concurrent.tla is model-checked over all interleavings of hook points; its initial states are
// the work assignments, which a race-instrumented build of the harness runs free (several rounds,
// several GOMAXPROCS). Results must equal the sequential references, the race detector must stay
// silent, and recorded hook traces (with goroutine ids) are validated by TLC against PoolsTrace.

type ccCase struct {
	Shared bool                `json:"shared"`
	Fresh  bool                `json:"fresh,omitempty"` // shared object not checked before the goroutines start
	Progs  map[string][]string `json:"progs"`
	Objs   map[string]string   `json:"objs"`
	Rounds int                 `json:"rounds,omitempty"`
	Procs  int                 `json:"gomaxprocs,omitempty"`
	Trace  bool                `json:"trace,omitempty"`
}

func goid() int {
	var buf [64]byte
	n := runtime.Stack(buf[:], false)
	f := strings.Fields(string(buf[:n]))
	if len(f) >= 2 {
		id, _ := strconv.Atoi(f[1])
		return id
	}
	return -1
}

var (
	gidMu  sync.Mutex
	gidMap = map[int]int{}
)

func ccGid() int {
	gidMu.Lock()
	defer gidMu.Unlock()
	return gidMap[goid()]
}

func ccMakeObject(w *apiWorld, name, content string) {
	w.call("New", name, content)
	if content == "usesT" || content == "rich" {
		w.call("New", name+"-t", "typeT")
		w.call("AddType", name, name+"-t")
	}
	if content == "rich" {
		w.call("New", name+"-u", "typeU")
		w.call("AddType", name, name+"-u")
	}
}

func ccRegs(content string) []string {
	if content == "usesT" {
		return []string{"typeT"}
	}
	if content == "rich" {
		return []string{"typeT", "typeU"}
	}
	return nil
}

func ccRun(cs ccCase) ([]core.Finding, []string) {
	var fs []core.Finding
	var fmu sync.Mutex
	add := func(f core.Finding) { fmu.Lock(); fs = append(fs, f); fmu.Unlock() }
	if cs.Procs > 0 {
		runtime.GOMAXPROCS(cs.Procs)
	}
	rounds := cs.Rounds
	if rounds == 0 {
		rounds = 1
	}
	var ps []string
	for p := range cs.Progs {
		ps = append(ps, p)
	}
	sort.Strings(ps)
	pools.mu.Lock()
	pools.record = cs.Trace
	pools.events = nil
	pools.mu.Unlock()
	for r := 0; r < rounds; r++ {
		if cs.Trace {
			pools.emit(`{"ev":"reset","g":0,"buf":0}`)
		}
		world := newWorld() // shared world (clause 2): objects created and first Check() done before the goroutines start
		if cs.Shared {
			ccMakeObject(world, "shared", cs.Objs[ps[0]])
			if !cs.Fresh {
				world.call("Check", "shared", "")
			}
		}
		// contents that are new to the process: every goroutine of every round gets a text nobody has seen before
		// (whatever the library remembers between schemas - compiled patterns, interned names - is cold)
		objContent := map[string]string{}
		for _, p := range ps {
			objContent[p] = cs.Objs[p]
			if tmpl, ok := apiFreshTemplates[cs.Objs[p]]; ok {
				n := atomic.AddInt64(&apiFreshSeq, 1)
				key := fmt.Sprintf("%s#%d", cs.Objs[p], n)
				apiTexts[key] = strings.ReplaceAll(tmpl, "<n>", fmt.Sprint(n))
				objContent[p] = key
			}
		}
		start := make(chan struct{})
		var wg sync.WaitGroup
		for gi, p := range ps {
			wg.Add(1)
			go func(gi int, p string) {
				defer wg.Done()
				gidMu.Lock()
				gidMap[goid()] = gi + 1
				gidMu.Unlock()
				w := world
				name := "shared"
				if !cs.Shared {
					w = newWorld()
					name = "own" + p
					ccMakeObject(w, name, objContent[p])
				}
				<-start
				var held []*heldResult
				for i, op := range cs.Progs[p] {
					pools.emit(fmt.Sprintf(`{"ev":"call","g":%d,"op":"%s","buf":0}`, gi+1, op))
					var res string
					var h *heldResult
					var pn string
					if cs.Shared {
						// a shared world's maps are not written by call() for these ops
						res, h, pn = w.call(op, name, "")
					} else {
						res, h, pn = w.call(op, name, "")
					}
					if pn != "" {
						add(core.Finding{Class: "concurrent:panic:" + op, What: fmt.Sprintf("goroutine %s call %d %s: panic %s", p, i, op, firstLineStr(pn))})
						return
					}
					ref := apiReference(op, objContent[p], ccRegs(cs.Objs[p]))
					if res != ref {
						add(core.Finding{Class: "concurrent:result-differs:" + op, What: fmt.Sprintf("goroutine %s call %d %s on %s (shared=%v): %.160q, sequential result %.160q", p, i, op, cs.Objs[p], cs.Shared, res, ref)})
					}
					same := true
					for _, old := range held {
						if now := old.read(); now != old.snap {
							same = false
							add(core.Finding{Class: "concurrent:held-result-changed:" + old.op, What: fmt.Sprintf("goroutine %s: result of %s changed from %.100q to %.100q", p, old.op, old.snap, now)})
							old.snap = now
						}
					}
					alias := -1
					if h != nil {
						held = append(held, h)
						if h.bytes != nil && (op == "Example" || op == "OpenAPI") {
							alias = pools.aliasOf(h.bytes)
						}
					}
					pools.emit(fmt.Sprintf(`{"ev":"ret","g":%d,"alias":%d,"same":%v,"buf":0}`, gi+1, alias, same))
				}
			}(gi, p)
		}
		close(start)
		wg.Wait()
	}
	return fs, pools.take()
}

// templates of contents that are instantiated with a number nobody has used before
var apiFreshTemplates = map[string]string{
	"rxfresh": "{\n  \"name\": \"T<n>\", // {regex: \"^T<n>$\"}\n  \"tag\": \"k<n>\" // {enum: [\"k<n>\", \"other<n>\"]}\n}",
}
var apiFreshSeq int64

var c11Once sync.Once

func c11Init() {
	c11Once.Do(func() {
		apiPrecompute([]string{"nested", "usesT", "typeT", "shallow", "orset", "big"}, 1)
		pools.gid = ccGid
		pools.install()
	})
}

var reRaceFrame = regexp.MustCompile(`jsight-schema-core/([A-Za-z0-9_/.()*\[\]-]+)\(\)`)

func raceClass(stderr string) (string, string) {
	if !strings.Contains(stderr, "DATA RACE") {
		return "", ""
	}
	seen := map[string]bool{}
	var fr []string
	for _, m := range reRaceFrame.FindAllStringSubmatch(stderr, -1) {
		f := m[1]
		if strings.Contains(f, "verifhook") || seen[f] {
			continue
		}
		seen[f] = true
		fr = append(fr, f)
		if len(fr) == 2 {
			break
		}
	}
	return "race:" + strings.Join(fr, "|"), strings.Join(fr, " / ")
}

func init() {
	core.Workers["c11"] = func(raw json.RawMessage) core.WorkerOut {
		c11Init()
		var cs ccCase
		if err := json.Unmarshal(raw, &cs); err != nil {
			return core.WorkerOut{Findings: []core.Finding{{Class: "harness", What: err.Error()}}}
		}
		fs, lines := ccRun(cs)
		return core.WorkerOut{Findings: fs, Lines: lines, Keys: []string{string(raw)}}
	}
	register(&core.Check{ID: "C11", Level: "model_checking", Run: runC11,
		Replay: func(c *core.Ctx, raw json.RawMessage) ([]core.Finding, error) {
			// replay in the race build through the sharded runner (20 attempts)
			bin := os.Getenv("VERIF_RACE_BIN")
			if bin == "" {
				return nil, fmt.Errorf("VERIF_RACE_BIN not set (run through bin/check)")
			}
			var cs ccCase
			if err := json.Unmarshal(raw, &cs); err != nil {
				return nil, err
			}
			cs.Rounds = 50
			b, _ := json.Marshal(cs)
			var cases []json.RawMessage
			for i := 0; i < 8; i++ {
				cases = append(cases, b)
			}
			var out []core.Finding
			var mu sync.Mutex
			cc := core.NewCtx("C11", "quick", 1)
			err := cc.RunSharded(cases, core.ShardOpts{Worker: "c11", Binary: bin, MaxCrashes: 24, Env: []string{"GORACE=halt_on_error=1 exitcode=66"},
				OnOut: func(o core.WorkerOut, raw json.RawMessage) { mu.Lock(); out = append(out, o.Findings...); mu.Unlock() },
				CrashClass: func(raw json.RawMessage, how string) core.Finding {
					cl, what := raceClass(how)
					if cl == "" {
						return core.Finding{Class: "concurrent:crash", What: how}
					}
					mu.Lock()
					out = append(out, core.Finding{Class: cl, What: "data race: " + what})
					mu.Unlock()
					return core.Finding{}
				}})
			return out, err
		}})
}

func runC11(c *core.Ctx) error {
	bin := os.Getenv("VERIF_RACE_BIN")
	if bin == "" {
		return fmt.Errorf("VERIF_RACE_BIN not set (run through bin/check)")
	}
	var cases []json.RawMessage
	rounds := c.Pick(3, 30)
	n := 0
	ops := `{"Check","Example","GetAST","OpenAPI"}`
	mkcfg := func(shared, pre bool, contents string) []byte {
		b := map[bool]string{true: "TRUE", false: "FALSE"}
		return []byte(fmt.Sprintf("SPECIFICATION Spec\nCONSTANTS\n  Procs = {1, 2}\n  OpsC = "+ops+"\n  ContentsC = %s\n  MaxProg = 2\n  Buffers = {\"b1\",\"b2\",\"b3\",\"b4\"}\n  Prechecked = %s\n  Shared = %s\nINVARIANTS NoBufferSharedByTwoProcesses NothingHeldOutsideCalls ResultsAreSequential OnceRunsOnce EmitWork\nCHECK_DEADLOCK FALSE\n", contents, b[pre], b[shared]))
	}
	all4 := `{"usesT","orset","rich","big","esckeys"}`
	own := `{"usesT","orset","esckeys"}` // own objects: the quick tier explores two contents (the product of contents squares the state space)
	if c.Thorough() {
		own = all4
	}
	cfgFiles := map[string][]byte{"Concurrent_shared_prechecked.cfg": mkcfg(true, true, all4), "Concurrent_shared_fresh.cfg": mkcfg(true, false, all4), "Concurrent_own.cfg": mkcfg(false, true, own)}
	// rejected schemas: the goroutines race for the first call on one object and every answer is a positioned diagnostic
	ops = `{"Check","Len","GetAST","Example"}`
	cfgFiles["Concurrent_shared_fresh_rejected.cfg"] = mkcfg(true, false, `{"badvalueCR","badscanCR","badrefLF"}`)
	// own objects whose texts are new to the process (patterns, enum values, names never seen before)
	ops = `{"Check","Example","GetAST"}`
	cfgFiles["Concurrent_own_fresh_texts.cfg"] = mkcfg(false, true, `{"rxfresh"}`)
	for _, cfg := range []string{"Concurrent_shared_prechecked.cfg", "Concurrent_shared_fresh.cfg", "Concurrent_own.cfg", "Concurrent_shared_fresh_rejected.cfg", "Concurrent_own_fresh_texts.cfg"} {
		res, err := tlc.Run(tlc.Opts{Module: "Concurrent", Cfg: cfg, Workers: 16, HeapGB: 12, Timeout: 0, Files: cfgFiles, OnLine: func(l string) {
			n++
			var raw struct {
				Shared bool       `json:"shared"`
				Pre    bool       `json:"prechecked"`
				Progs  [][]string `json:"progs"`
				Objs   []string   `json:"objs"`
			}
			if err := json.Unmarshal([]byte(l), &raw); err != nil {
				c.InfraError("bad work assignment %s: %v", l, err)
				return
			}
			cs := ccCase{Shared: raw.Shared, Fresh: raw.Shared && !raw.Pre, Progs: map[string][]string{}, Objs: map[string]string{}}
			for i := range raw.Progs {
				cs.Progs[fmt.Sprint(i+1)] = raw.Progs[i]
				cs.Objs[fmt.Sprint(i+1)] = raw.Objs[i]
			}
			cs.Rounds = rounds
			cs.Procs = []int{2, 4, 16}[(n+int(c.Seed))%3]
			cs.Trace = (n+int(c.Seed))%c.Pick(12, 6) == 0
			b, _ := json.Marshal(cs)
			cases = append(cases, b)
		}})
		res.Cleanup()
		if err != nil {
			return err
		}
		if err := res.MustOK(); err != nil {
			return err
		}
		c.AddTLC(cfg, res)
	}
	c.Set("work_assignments", len(cases))
	if len(cases) == 0 {
		return fmt.Errorf("TLC emitted no work assignment")
	}
	var mu sync.Mutex
	var traceLines [][]byte
	traced := 0
	err := c.RunSharded(cases, core.ShardOpts{Worker: "c11", Binary: bin, MaxCrashes: 24, Env: []string{"GORACE=halt_on_error=1 exitcode=66"},
		OnOut: func(o core.WorkerOut, raw json.RawMessage) {
			if len(o.Lines) == 0 {
				return
			}
			mu.Lock()
			if len(traceLines) < c.Pick(60000, 300000) {
				traced++
				for _, l := range o.Lines {
					traceLines = append(traceLines, []byte(l))
				}
			}
			mu.Unlock()
		},
		CrashClass: func(raw json.RawMessage, how string) core.Finding {
			cl, what := raceClass(how)
			if cl == "" {
				return core.Finding{Class: "concurrent:worker-died", What: how}
			}
			return core.Finding{Class: cl, What: "the race detector reports a data race between " + what}
		}})
	if err != nil {
		return err
	}
	if len(traceLines) > 0 {
		bad, tr, err := tlc.ValidateTrace("PoolsTrace", "PoolsTrace.cfg", traceLines, nil)
		if tr != nil {
			c.AddTLC("PoolsTrace.cfg", tr)
			tr.Cleanup()
		}
		if err != nil {
			return err
		}
		c.AddInt("traces_validated_against_impl", int64(traced))
		c.Set("hook_trace_events", len(traceLines))
		for _, b := range bad {
			line := string(traceLines[b-1])
			c.Report(map[string]any{"trace_line": line}, []core.Finding{{Class: poolsTraceClass(line), What: "PoolsTrace does not explain event " + line}})
		}
	}
	c.Sample(cases[len(cases)/2])
	c.Set("rounds_per_assignment", rounds)
	c.Set("rule", "every initial state of Concurrent.tla (2 goroutines x programs of <= 2 calls from Check/Example/GetAST/OpenAPI x 3 contents; own objects and one shared, already checked object) run free in a -race build for several rounds with GOMAXPROCS in {2,4,16}: race detector silent, results equal to the sequential references, held results intact; a sample records hook events with goroutine ids, validated by TLC against PoolsTrace. distinct_nontrivial = distinct work assignments (with their GOMAXPROCS/trace flags)")
	c.Assume = append(c.Assume, "the race detector only sees the schedules that actually ran; hook-level interleavings are exhaustively explored in the model only")
	return nil
}
