package checks

import (
	"encoding/json"
	"fmt"
	"math/rand"
	"sort"
	"strings"

	"verif/harness/internal/core"
	"verif/harness/internal/model"
	"verif/harness/internal/tlc"
	"verif/harness/internal/walk"
)

// Case generators shared by C02 and C16. Every family is driven by a TLA+ specification:
// JSchemaScan (schema texts, exhaustive + simulation), JsonDoc, Number, RegexDelim, EnumRule graphs,
// truncations/mutations of printed SchemaText / TypeGraph projects, reference cycles, deep nesting.

func schemaMembers(c string) []byte { return classMembers[c] }

func crAdd(out *[]json.RawMessage, seen map[string]bool, cs crCase) {
	key := cs.Entry + "\x00" + string(cs.Text) + "\x00" + fmt.Sprint(cs.Self)
	if len(cs.Types) > 0 {
		key += fmt.Sprint(cs.Types)
	}
	if seen[key] {
		return
	}
	seen[key] = true
	b, _ := json.Marshal(cs)
	*out = append(*out, b)
}

func crCases(c *core.Ctx) ([]json.RawMessage, error) {
	var out []json.RawMessage
	seen := map[string]bool{}
	rng := rand.New(rand.NewSource(c.Seed))
	// ---- A. JSchemaScan: exhaustive short inputs and simulated long ones
	scanStates := map[string]bool{}
	emitScan := func(l string, everyType int, n *int) {
		var r struct {
			Input []string `json:"input"`
			Ctl   string   `json:"ctl"`
		}
		if json.Unmarshal([]byte(l), &r) != nil {
			return
		}
		scanStates[r.Ctl] = true
		*n++
		text := make([]byte, len(r.Input))
		for i, cl := range r.Input {
			text[i] = classRep[cl]
		}
		crAdd(&out, seen, crCase{Entry: "schema", Text: text, Src: "JSchemaScan"})
		if *n%everyType == 0 {
			crAdd(&out, seen, crCase{Entry: "type", Text: text, Src: "JSchemaScan"})
		}
		if c.Thorough() && len(r.Input) > 0 && *n%3 == 0 {
			t2 := make([]byte, len(r.Input))
			for i, cl := range r.Input {
				m := schemaMembers(cl)
				t2[i] = m[rng.Intn(len(m))]
			}
			crAdd(&out, seen, crCase{Entry: "schema", Text: t2, Src: "JSchemaScan/members"})
		}
	}
	{
		cfg := "JSchemaScan_4.cfg"
		if c.Thorough() {
			cfg = "JSchemaScan_5.cfg"
		}
		n := 0
		// TLC's workers print in arrival order: sort, so that the seeded choices below are the same in every run
		var scanLines []string
		res, err := tlc.Run(tlc.Opts{Module: "JSchemaScan", Cfg: cfg, Workers: 16, Timeout: 0, HeapGB: 12, OnLine: func(l string) { scanLines = append(scanLines, l) }})
		res.Cleanup()
		if err != nil {
			return nil, err
		}
		if err := res.MustOK(); err != nil {
			return nil, err
		}
		c.AddTLC(cfg, res)
		sort.Strings(scanLines)
		for _, l := range scanLines {
			emitScan(l, c.Pick(5, 9), &n)
		}
		n = 0
		sim, err := tlc.Run(tlc.Opts{Module: "JSchemaScan", Cfg: "JSchemaScan_sim.cfg", Workers: 1, Simulate: fmt.Sprintf("num=%d", c.Pick(250, 2500)), Depth: 80, Seed: c.Seed,
			OnLine: func(l string) { emitScan(l, 7, &n) }})
		sim.Cleanup()
		if err != nil {
			return nil, err
		}
		if sim.ErrorText != "" || sim.Violated != "" {
			return nil, fmt.Errorf("JSchemaScan simulation: %s %s", sim.Violated, sim.ErrorText)
		}
		c.Set("jschemascan_simulated_prefixes", n)
		c.Set("jschemascan_control_states_reached", len(scanStates))
	}
	// ---- B. JSON documents: every class string <= 4 of the JsonDoc automaton
	{
		ja, err := loadJsonDoc(c, false, 2)
		if err != nil {
			return nil, err
		}
		ja.a.AllStrings(c.Pick(3, 4), func(in []int, st []int) {
			crAdd(&out, seen, crCase{Entry: "jdoc", Text: concretise(ja.a.Classes, in, nil, jsonMembers), Src: "JsonDoc"})
		})
	}
	// ---- C. numbers
	{
		res, err := tlc.Run(tlc.Opts{Module: "Number", Cfg: "Number_graph.cfg", Workers: 2, DumpDot: true})
		if err != nil {
			return nil, err
		}
		if err := res.MustOK(); err != nil {
			return nil, err
		}
		c.AddTLC("Number_graph.cfg", res)
		g, err := tlc.LoadDot(res.DotPath)
		res.Cleanup()
		if err != nil {
			return nil, err
		}
		a, err := walk.FromGraph(g, "RecogFeed")
		if err != nil {
			return nil, err
		}
		a.AllStrings(c.Pick(5, 7), func(in []int, st []int) {
			var sb strings.Builder
			for _, ci := range in {
				sb.WriteString(a.Classes[ci])
			}
			crAdd(&out, seen, crCase{Entry: "number", Text: []byte(sb.String()), Src: "Number"})
		})
		for _, t := range []string{"1e99999999999999999999", "1e-99999999999999999999", "1e2147483648", "1e-2147483648", "1e9223372036854775807", "1e-9223372036854775808",
			"1.5e18446744073709551616", "0.0e99999999999", "1e1000000", "1e-1000000", "1" + strings.Repeat("0", 100000), "0." + strings.Repeat("0", 100000) + "1", "-", "--1", "1e+", ""} {
			crAdd(&out, seen, crCase{Entry: "number", Text: []byte(t), Src: "number-extremes"})
		}
	}
	// ---- D. regex schemas
	{
		res, err := tlc.Run(tlc.Opts{Module: "RegexDelim", Cfg: "RegexDelim_graph.cfg", Workers: 2, DumpDot: true})
		if err != nil {
			return nil, err
		}
		if err := res.MustOK(); err != nil {
			return nil, err
		}
		c.AddTLC("RegexDelim_graph.cfg", res)
		g, err := tlc.LoadDot(res.DotPath)
		res.Cleanup()
		if err != nil {
			return nil, err
		}
		a, err := walk.FromGraph(g, "Feed")
		if err != nil {
			return nil, err
		}
		others := []byte("a([*\\\x00\xff\n")
		a.AllStrings(c.Pick(4, 5), func(in []int, st []int) {
			for _, o := range others[:c.Pick(3, len(others))] {
				b := make([]byte, len(in))
				for i, ci := range in {
					switch a.Classes[ci] {
					case "slash":
						b[i] = '/'
					case "bslash":
						b[i] = '\\'
					default:
						b[i] = o
					}
				}
				crAdd(&out, seen, crCase{Entry: "regex", Text: b, Src: "RegexDelim"})
			}
		})
	}
	// character classes, Unicode classes, escapes by number, flags, counted repetition: what the pattern language offers
	// beyond the delimiter automaton (the example generator is a third-party module with limits of its own)
	for _, atom := range []string{`[^a]`, `[^\x00-\x7f]`, `\D`, `\W`, `\S`, `[[:alpha:]]`, `[[:^ascii:]]`, `\p{Greek}`, `\P{L}`, `\x{10FFFF}`, `[^\n]`, `(?i)k`, `(?s).`,
		`[\x{80}-\x{10FFFF}]`, `\b`, `a\bb`, `(?:ab)`, `a*?`, `[^\x00-\x{10FFFF}]`, `a{1000}`, `(a{30}){30}`, `(((a*)*)*)*`, `$^`, `\z`, `\A`, `[a-\x{10FFFF}]`, `\pZ`, `\C`} {
		for _, q := range []string{"", "+", "{3}", "*"} {
			crAdd(&out, seen, crCase{Entry: "regex", Text: []byte("/" + atom + q + "/"), Src: "regex-classes"})
		}
	}
	// ---- E. enum rules: token paths and every truncation of them
	{
		res, err := tlc.Run(tlc.Opts{Module: "EnumRule", Cfg: "EnumRule_graph.cfg", Workers: 8, DumpDot: true})
		if err != nil {
			return nil, err
		}
		if err := res.MustOK(); err != nil {
			return nil, err
		}
		c.AddTLC("EnumRule_graph.cfg", res)
		var catRec struct {
			Cat []enCat `json:"cat"`
		}
		_ = json.Unmarshal([]byte(res.Lines[0]), &catRec)
		g, err := tlc.LoadDot(res.DotPath)
		res.Cleanup()
		if err != nil {
			return nil, err
		}
		a, err := walk.FromGraph(g, "")
		if err != nil {
			return nil, err
		}
		acc := a.Access()
		stride := c.Pick(40, 4)
		for si := range acc {
			if acc[si] == nil || si%stride != 0 {
				continue
			}
			a.From(acc[si], 1, func(in []int, st []int) {
				var sb strings.Builder
				for _, ci := range in {
					label := a.Classes[ci]
					if strings.HasPrefix(label, "Scalar(") {
						var i int
						fmt.Sscanf(label, "Scalar(%d)", &i)
						sb.WriteString(catRec.Cat[i-1].Text)
					} else {
						sb.WriteString(enPlain[strings.TrimSuffix(strings.TrimPrefix(label, `Tok("`), `")`)])
					}
				}
				t := sb.String()
				crAdd(&out, seen, crCase{Entry: "enum", Text: []byte(t), Src: "EnumRule"})
				for k := 0; k < len(t); k++ {
					crAdd(&out, seen, crCase{Entry: "enum", Text: []byte(t[:k]), Src: "EnumRule/cut"})
				}
			})
		}
		for _, t := range []string{"[1 /* x *", "[1 /* x", "[1 /", "[1 //", "[ /* */", "[1, /* a */ 2] /*", "[\"a\\", "[\"\\u12", "[1 // c"} {
			crAdd(&out, seen, crCase{Entry: "enum", Text: []byte(t), Src: "enum-extremes"})
		}
	}
	// ---- F. truncations and single-byte mutations of printed valid projects
	{
		ps, err := stProjects(c, "SchemaText_quick.cfg", "")
		if err != nil {
			return nil, err
		}
		rng.Shuffle(len(ps), func(i, j int) { ps[i], ps[j] = ps[j], ps[i] })
		lays := []model.Layout{{NL: "\n"}, {NL: "\r\n", Multi: 2, Quote: 3, Comments: 2}, {NL: "\r", Multi: 1, Pad: 1, Comments: 1}}
		repl := []byte("{}[]:,\"\\/@|#*-0 \n\x00\xc3")
		np := c.Pick(40, 400)
		for i := 0; i < np && i < len(ps); i++ {
			text := lays[i%len(lays)].Print(ps[i])
			for k := 0; k <= len(text); k++ {
				crAdd(&out, seen, crCase{Entry: "project", Text: []byte(text[:k]), Types: model.SupportTypes, Src: "SchemaText/cut"})
			}
			step := c.Pick(5, 1)
			for k := rng.Intn(step); k < len(text); k += step {
				r := repl[rng.Intn(len(repl))]
				m := []byte(text)
				m[k] = r
				crAdd(&out, seen, crCase{Entry: "project", Text: m, Types: model.SupportTypes, Src: "SchemaText/mutate"})
				if i%4 == 0 {
					crAdd(&out, seen, crCase{Entry: "type", Text: m, Src: "SchemaText/mutate-as-type"})
				}
			}
			if i%3 == 0 {
				for k := 0; k <= len(text); k += 1 + rng.Intn(3) {
					crAdd(&out, seen, crCase{Entry: "type", Text: []byte(text[:k]), Src: "SchemaText/cut-as-type"})
				}
			}
		}
	}
	// ---- G. reference cycles in every position, root registered under its own name
	{
		body := "SPECIFICATION Spec\nCONSTANTS\n  N = 3\n  MaxRoot = 1\n  MaxOther = 1\n  Ring = FALSE\n  ModesUsed = {\"plain\", \"optional\", \"nullable\", \"array\"}\n  FatTypes = 0\n  RootForms = {\"object\"}\n  OptionalByDefault = FALSE\nINVARIANTS Theorem Emit\nCHECK_DEADLOCK FALSE\n"
		n := 0
		res, err := tlc.Run(tlc.Opts{Module: "TypeGraph", Cfg: "TypeGraph_3_1_1.cfg", Workers: 8, Files: map[string][]byte{"TypeGraph_3_1_1.cfg": []byte(body)}, OnLine: func(l string) {
			var cs tgCase
			if json.Unmarshal([]byte(l), &cs) != nil || !cs.Cycle {
				return
			}
			n++
			types := map[string]string{}
			for k, p := range cs.Types {
				var i int
				fmt.Sscan(k, &i)
				if i != 0 {
					types[tgName(i)] = tgText(p, "object")
				}
			}
			// here the root file is called "root": register it under that name and under @main
			crAdd(&out, seen, crCase{Entry: "project", Text: []byte(strings.ReplaceAll(tgText(cs.Types["0"], "object"), "@main", "@t1")), Types: types, Self: false, Src: "TypeGraph/cycles"})
		}})
		res.Cleanup()
		if err != nil {
			return nil, err
		}
		if err := res.MustOK(); err != nil {
			return nil, err
		}
		c.AddTLC("TypeGraph_3_1_1.cfg", res)
		// CycleGraph.tla: every combination of one mention per type (any position that fits its kind) and one in the root
		ncg := 0
		cg, err := tlc.Run(tlc.Opts{Module: "CycleGraph", Cfg: "CycleGraph.cfg", Workers: 8, OnLine: func(l string) {
			var r struct {
				Root, A, B, C string
				Cyclic        bool
			}
			if json.Unmarshal([]byte(l), &r) != nil || !r.Cyclic {
				return
			}
			ncg++
			if !c.Thorough() && (ncg+int(c.Seed))%3 != 0 {
				return
			}
			crAdd(&out, seen, crCase{Entry: "project", Text: []byte(r.Root), Types: map[string]string{"@a": r.A, "@b": r.B, "@c": r.C}, Self: ncg%7 == 0, Src: "CycleGraph"})
		}})
		cg.Cleanup()
		if err != nil {
			return nil, err
		}
		if err := cg.MustOK(); err != nil {
			return nil, err
		}
		c.AddTLC("CycleGraph.cfg", cg)
		c.Set("cyclegraph_cyclic_projects", ncg)
		cyc := []struct {
			root  string
			types map[string]string
		}{
			{`{"k": @a}`, map[string]string{"@a": `{"x": @a}`}},
			{`@a`, map[string]string{"@a": `@a`}},
			{`@a`, map[string]string{"@a": `@b`, "@b": `@a`}},
			{`@a | @b`, map[string]string{"@a": `@a | @b`, "@b": `@b | @a`}},
			{"{\n  @a: 1\n}", map[string]string{"@a": `"s" // {type: "@a"}`}},
			{"{\n  @a: 1\n}", map[string]string{"@a": `@a`}},
			{`"x" // {type: "@a"}`, map[string]string{"@a": `"s" // {type: "@a"}`}},
			{`"x" // {type: "@a"}`, map[string]string{"@a": `"s" // {type: "@b"}`, "@b": `"s" // {type: "@a"}`}},
			{`"x" // {or: ["@a", "@b"]}`, map[string]string{"@a": `"s" // {or: ["@a", "@b"]}`, "@b": `"t" // {or: ["@b", "@a"]}`}},
			{`"x" // {or: [{type: "@a"}, {type: "integer"}]}`, map[string]string{"@a": `"s" // {or: [{type: "@a"}, {type: "integer"}]}`}},
			{`{} // {allOf: "@a"}`, map[string]string{"@a": `{} // {allOf: "@a"}`}},
			{`{} // {allOf: ["@a", "@b"]}`, map[string]string{"@a": `{} // {allOf: "@b"}`, "@b": `{} // {allOf: "@a"}`}},
			{`{} // {additionalProperties: "@a"}`, map[string]string{"@a": `{} // {additionalProperties: "@a"}`}},
			{`[@a]`, map[string]string{"@a": `[@a]`}},
			{`{"k": @a // {optional: true}` + "\n}", map[string]string{"@a": "{\n  \"k\": @a // {optional: true}\n}"}},
			{`1 // {enum: @e}`, nil},
			{`{"a": @root}`, nil},
		}
		for _, p := range cyc {
			crAdd(&out, seen, crCase{Entry: "project", Text: []byte(p.root), Types: p.types, Src: "cycles"})
			crAdd(&out, seen, crCase{Entry: "project", Text: []byte(p.root), Types: p.types, Self: true, Src: "cycles/self"})
		}
	}
	// ---- H. depth and size
	{
		depths := []int{100, 1000, 10000}
		if c.Thorough() {
			// (Example() of n nested containers copies the inner text once per level: 6 s at 10^5, an hour at 10^6)
			depths = append(depths, 100000)
		}
		for _, d := range depths {
			arr := strings.Repeat("[", d) + strings.Repeat("]", d)
			obj := strings.Repeat(`{"a":`, d) + "1" + strings.Repeat("}", d)
			for _, e := range []string{"schema", "jdoc"} {
				crAdd(&out, seen, crCase{Entry: e, Text: []byte(arr), Src: fmt.Sprintf("depth-%d", d)})
				crAdd(&out, seen, crCase{Entry: e, Text: []byte(obj), Src: fmt.Sprintf("depth-%d", d)})
				crAdd(&out, seen, crCase{Entry: e, Text: []byte(arr[:d]), Src: fmt.Sprintf("depth-%d-open", d)})
			}
			crAdd(&out, seen, crCase{Entry: "schema", Text: []byte("1 // {enum: " + strings.Repeat("[", d) + strings.Repeat("]", d) + "}"), Src: fmt.Sprintf("rule-depth-%d", d)})
			crAdd(&out, seen, crCase{Entry: "schema", Text: []byte("1 // {or: [" + strings.Repeat(`{or: [`, d) + strings.Repeat("]}", d) + "]}"), Src: fmt.Sprintf("rule-depth-%d", d)})
			crAdd(&out, seen, crCase{Entry: "enum", Text: []byte(strings.Repeat("[", d)), Src: fmt.Sprintf("depth-%d", d)})
			crAdd(&out, seen, crCase{Entry: "schema", Text: []byte(`"` + strings.Repeat("a", d*10) + `"`), Src: "long-string"})
			crAdd(&out, seen, crCase{Entry: "schema", Text: []byte(strings.Repeat("@a | ", d) + "@a"), Src: "long-choice"})
			if d <= 10000 {
				// a chain of d types, each referring to the next
				types := map[string]string{}
				for i := 0; i < d; i++ {
					types[fmt.Sprintf("@t%d", i)] = fmt.Sprintf("{\n  \"n\": @t%d\n}", i+1)
				}
				types[fmt.Sprintf("@t%d", d)] = `1`
				crAdd(&out, seen, crCase{Entry: "project", Text: []byte(`@t0`), Types: types, Src: fmt.Sprintf("type-chain-%d", d)})
			}
		}
	}
	// ---- I. pumping: the automata loop on the character classes inside strings, numbers, names and comments, so a
	// text stays a behaviour of the specification when one such byte is replaced by a run of bytes of its class.
	// Runs are made of malformed and truncated UTF-8, multi-byte characters, letters, digits and escapes; buffers
	// sized from the length of the literal are what this family is after.
	{
		runs := [][]byte{
			[]byte(strings.Repeat("\xff", 5)), []byte(strings.Repeat("\xff", 40)), []byte(strings.Repeat("\xc3", 17)), []byte(strings.Repeat("\xe2\x82", 9)),
			[]byte(strings.Repeat("\xf0\x9f\x98\x80", 12)), []byte(strings.Repeat("\xed\xa0\x80", 7)), []byte(strings.Repeat("a", 70)), []byte(strings.Repeat("9", 25)),
			[]byte(strings.Repeat("0", 25)), []byte(strings.Repeat("\\u00e9", 11)), []byte(strings.Repeat("\\n", 33)), []byte(strings.Repeat("\\ud83d", 5)),
		}
		base := len(out)
		stride := c.Pick(17, 3)
		np := 0
		for i := 0; i < base; i++ {
			if (i+int(c.Seed))%stride != 0 {
				continue
			}
			var cs crCase
			if json.Unmarshal(out[i], &cs) != nil || len(cs.Text) == 0 || len(cs.Text) > 40 || cs.Entry == "number" {
				continue
			}
			k := rng.Intn(len(cs.Text))
			run := runs[rng.Intn(len(runs))]
			t := append(append(append([]byte{}, cs.Text[:k]...), run...), cs.Text[k+1:]...)
			crAdd(&out, seen, crCase{Entry: cs.Entry, Text: t, Types: cs.Types, Self: cs.Self, Src: cs.Src + "/pumped"})
			np++
		}
		// the enum catalogue's strings and the schema's string positions, every run
		for _, run := range runs {
			q := `"` + string(run) + `"`
			for _, e := range []string{"[" + q + ", 1]", "[1, " + q + "]", "[" + q + ", " + q + "]", "[" + q} {
				crAdd(&out, seen, crCase{Entry: "enum", Text: []byte(e), Src: "EnumRule/pumped"})
			}
			for _, e := range []string{q, "{" + q + ": 1}", "[" + q + "]", "{\"k\": " + q + " // {enum: [" + q + ", 1]}\n}", "1 // {const: true} - " + string(run), q + " // {regex: " + q + "}", "{\n  @a: " + q + "\n}", "@" + string(run), "# " + string(run) + "\n1"} {
				crAdd(&out, seen, crCase{Entry: "schema", Text: []byte(e), Src: "JSchemaScan/pumped"})
				crAdd(&out, seen, crCase{Entry: "type", Text: []byte(e), Src: "JSchemaScan/pumped"})
			}
			crAdd(&out, seen, crCase{Entry: "jdoc", Text: []byte("[" + q + ", {" + q + ": " + q + "}]"), Src: "JsonDoc/pumped"})
			crAdd(&out, seen, crCase{Entry: "regex", Text: []byte("/" + string(run) + "/"), Src: "RegexDelim/pumped"})
		}
		// long runs: digits and letters far beyond any fixed-size buffer or "reasonable" limit an implementation may
		// have (around 300 = float64 range, 1000, 4096, 65536), as bare numbers and inside strings, in every entry point
		nl := 0
		for _, n := range c.PickInts([]int{310, 1001, 1100, 4097, 70000}, []int{25, 310, 999, 1000, 1001, 1100, 4097, 65535, 65537, 70000, 200000}) {
			d := strings.Repeat("7", n)
			for _, num := range []string{d, "-" + d, d + "." + d, "0." + d, "1" + strings.Repeat("0", n), "0." + strings.Repeat("0", n) + "1"} {
				for _, e := range []string{"[" + num + ", 1]", "[1, " + num + "]", "[" + num + ", " + num + "]", "[\"a\", // n\n " + num + "]"} {
					crAdd(&out, seen, crCase{Entry: "enum", Text: []byte(e), Src: "EnumRule/long-number"})
				}
				for _, e := range []string{num, "{\"k\": " + num + "}", "[" + num + "]", num + " // {min: " + num + "}", "1 // {enum: [" + num + ", 1]}", "1.5 // {type: \"decimal\", precision: " + num + "}", "\"s\" // {minLength: " + num + "}", num + " // {const: true}", num + " // {or: [\"integer\", \"string\"]}"} {
					crAdd(&out, seen, crCase{Entry: "schema", Text: []byte(e), Src: "JSchemaScan/long-number"})
					crAdd(&out, seen, crCase{Entry: "type", Text: []byte(e), Src: "JSchemaScan/long-number"})
				}
				crAdd(&out, seen, crCase{Entry: "jdoc", Text: []byte("[" + num + ", {\"k\": " + num + "}]"), Src: "JsonDoc/long-number"})
				crAdd(&out, seen, crCase{Entry: "number", Text: []byte(num), Src: "Number/long-number"})
				nl += 24
			}
			q := `"` + strings.Repeat("a", n) + `"`
			for _, e := range []string{"[" + q + ", 1]", "[" + q + ", " + q + "]"} {
				crAdd(&out, seen, crCase{Entry: "enum", Text: []byte(e), Src: "EnumRule/long-string"})
			}
			for _, e := range []string{q, "{" + q + ": 1}", q + " // {enum: [" + q + "]}", q + " // {regex: " + q + "}", "1 // - " + strings.Repeat("n", n), "@" + strings.Repeat("a", n), "# " + strings.Repeat("c", n) + "\n1", "{\n  @" + strings.Repeat("a", n) + ": 1\n}"} {
				crAdd(&out, seen, crCase{Entry: "schema", Text: []byte(e), Src: "JSchemaScan/long-string"})
			}
			crAdd(&out, seen, crCase{Entry: "regex", Text: []byte("/" + strings.Repeat("a", n) + "/"), Src: "RegexDelim/long-string"})
			nl += 11
		}
		c.Set("long_run_cases", nl)
		c.Set("pumped_cases", np+len(runs)*24)
	}
	// ---- K. the projects of the semantic specifications: whatever a model of another property can build is an input
	// here too (inheritance with nested heirs and choice roots, the rule families with the whole vocabulary, scaled texts)
	{
		nk := 0
		mkAllOf := func(name, nest, choice string) error {
			body := fmt.Sprintf("SPECIFICATION Spec\nCONSTANTS\n  N = 2\n  KeySet = {\"k1\", \"k2\"}\n  MaxList = 1\n  APs = {\"absent\", \"false\"}\n  Nest = %s\n  RootChoice = %s\n  OptDefTypes = FALSE\n  SelfReg = FALSE\nINVARIANTS Emit\nCHECK_DEADLOCK FALSE\n", nest, choice)
			var lines []string
			res, err := tlc.Run(tlc.Opts{Module: "AllOf", Cfg: name, Workers: 8, Files: map[string][]byte{name: []byte(body)}, OnLine: func(l string) { lines = append(lines, l) }})
			res.Cleanup()
			if err != nil {
				return err
			}
			if err := res.MustOK(); err != nil {
				return err
			}
			c.AddTLC(name, res)
			sort.Strings(lines)
			kv := map[string]string{"k1": "1", "k2": `"two"`, "k3": "true"}
			stride := c.Pick(29, 5)
			for i, l := range lines {
				if (i+int(c.Seed))%stride != 0 {
					continue
				}
				var cs aoCase
				if json.Unmarshal([]byte(l), &cs) != nil {
					continue
				}
				types := map[string]string{}
				for _, t := range cs.Types {
					if t.D.Kind != "withheld" {
						types["@"+t.Name] = aoText(t.D, kv)
					}
				}
				crAdd(&out, seen, crCase{Entry: "project", Text: []byte(aoText(cs.Root, kv)), Types: types, Src: "AllOf"})
				nk++
				// the same project with a defect of value in the properties of one type (the example breaks a rule
				// written next to it), the type's text moved down by a comment: wherever the property is inherited
				// to, the diagnostic belongs to the text the property is written in
				if len(cs.Refusals) == 0 && nk%3 == 0 {
					for tn, tt := range types {
						bad := aoSpoil(tt)
						if bad == tt {
							continue
						}
						t2 := map[string]string{}
						for k, v := range types {
							t2[k] = v
						}
						t2[tn] = "# the text of this type starts further down than that of its heirs\n\n\n" + bad
						crAdd(&out, seen, crCase{Entry: "project", Text: []byte(aoText(cs.Root, kv)), Types: t2, Src: "AllOf/defective-property"})
						nk++
						break
					}
				}
			}
			return nil
		}
		if err := mkAllOf("AllOf_crash_nest.cfg", "TRUE", "FALSE"); err != nil {
			return nil, err
		}
		if err := mkAllOf("AllOf_crash_choice.cfg", "FALSE", "TRUE"); err != nil {
			return nil, err
		}
		// heirs with many own keys (AllOfWide.tla), their text beginning well after the start of the file: offsets of
		// inherited properties belong to another text than the heir's own
		{
			var lines []string
			res, err := tlc.Run(tlc.Opts{Module: "AllOfWide", Cfg: "AllOfWide.cfg", Workers: 4, OnLine: func(l string) { lines = append(lines, l) }})
			res.Cleanup()
			if err != nil {
				return nil, err
			}
			if err := res.MustOK(); err != nil {
				return nil, err
			}
			c.AddTLC("AllOfWide.cfg", res)
			sort.Strings(lines)
			kv := map[string]string{}
			for i, l := range lines {
				var cs aoCase
				if strings.HasPrefix(l, `{"fan"`) || json.Unmarshal([]byte(l), &cs) != nil {
					continue
				}
				types := map[string]string{}
				for _, t := range cs.Types {
					types["@"+t.Name] = aoText(t.D, kv)
				}
				lead := []string{"", "# a comment before the schema, longer than the texts of the types it inherits from\n\n", "\n\n\n\n\n\n\n\n\n\n\n\n\n\n\n\n\n\n\n\n\n\n\n\n"}[i%3]
				crAdd(&out, seen, crCase{Entry: "project", Text: []byte(lead + aoText(cs.Root, kv)), Types: types, Src: "AllOfWide"})
				nk++
			}
		}
		extra, res, err := smExtraCases(c)
		if err != nil {
			return nil, err
		}
		c.AddTLC("SchemaModelExtra.cfg", res)
		famSize := map[string]int{}
		for _, cs := range extra {
			famSize[cs.Skel]++
		}
		for i, cs := range extra {
			if famSize[cs.Skel] > 600 && (i+int(c.Seed))%c.Pick(37, 5) != 0 {
				continue
			}
			if len(cs.Extra["root"]) > 20000 && !c.Thorough() {
				continue
			}
			types := map[string]string{}
			if cs.Extra["type"] != "" {
				types["@t"] = cs.Extra["type"]
			}
			switch cs.Skel {
			case "echo:enum":
				crAdd(&out, seen, crCase{Entry: "enum", Text: []byte(cs.Extra["root"]), Src: "SchemaModelExtra/echo"})
			case "echo:regex":
				crAdd(&out, seen, crCase{Entry: "regex", Text: []byte(cs.Extra["root"]), Src: "SchemaModelExtra/echo"})
			default:
				crAdd(&out, seen, crCase{Entry: "project", Text: []byte(cs.Extra["root"]), Types: types, Src: "SchemaModelExtra"})
			}
			nk++
		}
		c.Set("model_projects", nk)
	}
	// ---- L. the reference projects of RefPositions.tla (one mention, every position and place) with one of the
	// registered definitions replaced by a text without a value (blank, a comment, nothing): the schema refers to a
	// type that cannot be looked into
	{
		cfg := "RefPositions_crash.cfg"
		body := "SPECIFICATION Spec\nCONSTANTS\n  MaxMentions = 1\n  Rotate = FALSE\nINVARIANTS Emit\nCHECK_DEADLOCK FALSE\n"
		var lines []string
		res, err := tlc.Run(tlc.Opts{Module: "RefPositions", Cfg: cfg, Workers: 8, Files: map[string][]byte{cfg: []byte(body)}, OnLine: func(l string) { lines = append(lines, l) }})
		res.Cleanup()
		if err != nil {
			return nil, err
		}
		if err := res.MustOK(); err != nil {
			return nil, err
		}
		c.AddTLC(cfg, res)
		sort.Strings(lines)
		empties := []string{" ", "# nothing but a comment", "", "\n\n", "// {min: 1}"}
		nl := 0
		stride := c.Pick(7, 1)
		for i, l := range lines {
			if (i+int(c.Seed))%stride != 0 {
				continue
			}
			var cs rpCase
			if json.Unmarshal([]byte(l), &cs) != nil || len(cs.Missing) > 0 || cs.Unused {
				continue
			}
			for k, victim := range cs.Registered {
				types := map[string]string{}
				for _, r := range cs.Registered {
					types["@"+r] = rpTypeText(r, cs.Variant[r])
				}
				types["@"+victim] = empties[(i+k)%len(empties)]
				crAdd(&out, seen, crCase{Entry: "project", Text: []byte(rpRootText(cs.Root, cs.Place)), Types: types, Src: "RefPositions/value-less-type"})
				nl++
			}
		}
		c.Set("value_less_type_projects", nl)
	}
	// ---- J. deep indentation: the printed projects (cut and mutated: most of them are rejected somewhere) with
	// every line indented by 60, 120 or 190 blanks, so that lines are longer than the 200 bytes a diagnostic quotes
	// while their visible part is short
	{
		base := len(out)
		stride := c.Pick(23, 5)
		ni := 0
		for i := 0; i < base; i++ {
			if (i+int(c.Seed))%stride != 0 {
				continue
			}
			var cs crCase
			if json.Unmarshal(out[i], &cs) != nil || cs.Entry != "project" || len(cs.Text) < 8 || len(cs.Text) > 2000 {
				continue
			}
			ind := strings.Repeat(" ", []int{60, 120, 190}[ni%3])
			t := string(cs.Text)
			nl := "\n"
			switch {
			case strings.Contains(t, "\r\n"):
				nl = "\r\n"
			case strings.Contains(t, "\r"):
				nl = "\r"
			}
			t = ind + strings.ReplaceAll(t, nl, nl+ind)
			crAdd(&out, seen, crCase{Entry: "project", Text: []byte(t), Types: cs.Types, Self: cs.Self, Src: cs.Src + "/indented"})
			ni++
		}
		c.Set("indented_cases", ni)
	}
	return out, nil
}

// aoSpoil gives the first plain property of an AllOf.tla type text a rule that its example breaks.
func aoSpoil(t string) string {
	lines := strings.Split(t, "\n")
	for i, l := range lines {
		if !strings.HasPrefix(l, "  \"k") || strings.Contains(l, "//") || strings.Contains(l, "{") {
			continue
		}
		rule := " // {type: \"null\"}"
		switch {
		case strings.Contains(l, ": 1"):
			rule = " // {min: 5}"
		case strings.Contains(l, ": \"two\""):
			rule = " // {minLength: 9}"
		}
		lines[i] = l + rule
		return strings.Join(lines, "\n")
	}
	return t
}
