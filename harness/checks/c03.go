package checks

import (
	"bytes"
	"encoding/json"
	"fmt"
	"math/big"
	"sort"
	"strings"

	schema "github.com/jsightapi/jsight-schema-core"
	"github.com/jsightapi/jsight-schema-core/notations/jschema"

	"verif/harness/internal/core"
	"verif/harness/internal/corpus"
	"verif/harness/internal/tlc"
)

// C03: JsonGen.tla generates well-formed JSON documents (no exponents, no duplicate keys) as token
// sequences; each is rendered under several whitespace layouts and given to jschema as a schema:
// accepted, Example() decodes to the same value (same keys, order, literals), GetAST() has the same shape.

type jgTok struct {
	K string `json:"k"`
	T string `json:"t"`
}

type jgCase struct {
	Toks   []jgTok `json:"toks,omitempty"`
	Layout int     `json:"layout"`
	Text   string  `json:"text,omitempty"` // corpus / rendered
	Src    string  `json:"src,omitempty"`
}

// the blank runs of JsonGen!BlankRuns (read from the specification in runC03; the first seven are also the defaults
// for replaying old case files)
var jgLayouts = []struct{ name, ws string }{
	{"none", ""}, {"space", " "}, {"tab", "\t"}, {"lf", "\n"}, {"crlf", "\r\n"}, {"cr", "\r"}, {"mixed", " \n\t"},
	{"sp+sp", "  "}, {"tab+tab+tab", "\t\t\t"}, {"sp+tab+sp", " \t "}, {"sp+sp+sp+sp+sp+sp+sp+sp", "        "}, {"lf+lf", "\n\n"}, {"cr+lf+sp+sp", "\r\n  "},
}

func jgSetLayouts(runs [][]string) error {
	b := map[string]string{"sp": " ", "tab": "\t", "lf": "\n", "cr": "\r"}
	if len(runs) < 7 {
		return fmt.Errorf("JsonGen!BlankRuns has %d runs", len(runs))
	}
	for i, r := range runs {
		ws := ""
		for _, x := range r {
			if b[x] == "" {
				return fmt.Errorf("unknown blank %q in JsonGen!BlankRuns", x)
			}
			ws += b[x]
		}
		if i < len(jgLayouts) && jgLayouts[i].ws != ws {
			return fmt.Errorf("JsonGen!BlankRuns[%d] = %q differs from the harness default %q", i+1, ws, jgLayouts[i].ws)
		}
		if i >= len(jgLayouts) {
			jgLayouts = append(jgLayouts, struct{ name, ws string }{strings.Join(r, "+"), ws})
		}
	}
	return nil
}

var nonASCII = strings.NewReplacer("<NONASCII-1>", "é日本", "<NONASCII-2>", "ключ", "<DEL>", "\x7f")

func jgRender(toks []jgTok, layout int) string {
	ws := jgLayouts[layout].ws
	var sb strings.Builder
	sb.WriteString(ws)
	prev := ""
	for _, t := range toks {
		txt := nonASCII.Replace(t.T)
		switch {
		case prev == "":
		case prev == "key":
			sb.WriteString(ws + ":" + ws)
		case (prev == "{" || prev == "["):
			sb.WriteString(ws)
		case t.K == "}" || t.K == "]":
			sb.WriteString(ws)
		default:
			sb.WriteString(ws + "," + ws)
		}
		sb.WriteString(txt)
		prev = t.K
	}
	sb.WriteString(ws)
	return sb.String()
}

// ordered decoding with the independent decoder
type jv struct {
	kind string // object array string number true false null
	keys []string
	kids []*jv
	str  string
	num  string
}

func jvDecode(b []byte) (*jv, error) {
	dec := json.NewDecoder(bytes.NewReader(b))
	dec.UseNumber()
	v, err := jvRead(dec)
	if err != nil {
		return nil, err
	}
	rest := b[dec.InputOffset():]
	if len(bytes.TrimSpace(rest)) != 0 {
		return nil, fmt.Errorf("trailing data")
	}
	return v, nil
}

func jvRead(dec *json.Decoder) (*jv, error) {
	t, err := dec.Token()
	if err != nil {
		return nil, err
	}
	switch x := t.(type) {
	case json.Delim:
		if x == '{' {
			o := &jv{kind: "object"}
			for dec.More() {
				kt, err := dec.Token()
				if err != nil {
					return nil, err
				}
				k, ok := kt.(string)
				if !ok {
					return nil, fmt.Errorf("key expected")
				}
				c, err := jvRead(dec)
				if err != nil {
					return nil, err
				}
				o.keys = append(o.keys, k)
				o.kids = append(o.kids, c)
			}
			_, err := dec.Token()
			return o, err
		}
		if x == '[' {
			a := &jv{kind: "array"}
			for dec.More() {
				c, err := jvRead(dec)
				if err != nil {
					return nil, err
				}
				a.kids = append(a.kids, c)
			}
			_, err := dec.Token()
			return a, err
		}
		return nil, fmt.Errorf("unexpected %v", x)
	case string:
		return &jv{kind: "string", str: x}, nil
	case json.Number:
		return &jv{kind: "number", num: string(x)}, nil
	case bool:
		if x {
			return &jv{kind: "true"}, nil
		}
		return &jv{kind: "false"}, nil
	case nil:
		return &jv{kind: "null"}, nil
	}
	return nil, fmt.Errorf("unexpected token %v", t)
}

func sameNumber(a, b string) bool {
	x, ok1 := new(big.Rat).SetString(a)
	y, ok2 := new(big.Rat).SetString(b)
	return ok1 && ok2 && x.Cmp(y) == 0
}

func jvEqual(a, b *jv, path string) string {
	if a.kind != b.kind {
		return fmt.Sprintf("at %s: %s vs %s", path, a.kind, b.kind)
	}
	switch a.kind {
	case "string":
		if a.str != b.str {
			return fmt.Sprintf("at %s: string %q vs %q", path, a.str, b.str)
		}
	case "number":
		if !sameNumber(a.num, b.num) {
			return fmt.Sprintf("at %s: number %s vs %s", path, a.num, b.num)
		}
	case "object", "array":
		if len(a.kids) != len(b.kids) {
			return fmt.Sprintf("at %s: %d vs %d members", path, len(a.kids), len(b.kids))
		}
		for i := range a.kids {
			if a.kind == "object" && a.keys[i] != b.keys[i] {
				return fmt.Sprintf("at %s: key #%d %q vs %q", path, i, a.keys[i], b.keys[i])
			}
			p := fmt.Sprintf("%s[%d]", path, i)
			if a.kind == "object" {
				p = path + "." + a.keys[i]
			}
			if d := jvEqual(a.kids[i], b.kids[i], p); d != "" {
				return d
			}
		}
	}
	return ""
}

func astEqual(a schema.ASTNode, v *jv, path string) string {
	want := map[string]string{"object": "object", "array": "array", "string": "string", "number": "number", "true": "boolean", "false": "boolean", "null": "null"}[v.kind]
	if a.TokenType != want {
		return fmt.Sprintf("at %s: AST token type %q, JSON kind %s", path, a.TokenType, v.kind)
	}
	switch v.kind {
	case "string":
		if a.Value != v.str {
			return fmt.Sprintf("at %s: AST value %q, decoded string %q", path, a.Value, v.str)
		}
	case "number":
		if !sameNumber(a.Value, v.num) {
			return fmt.Sprintf("at %s: AST value %q, number %s", path, a.Value, v.num)
		}
	case "true", "false", "null":
		if a.Value != v.kind {
			return fmt.Sprintf("at %s: AST value %q, literal %s", path, a.Value, v.kind)
		}
	case "object", "array":
		if len(a.Children) != len(v.kids) {
			return fmt.Sprintf("at %s: AST has %d children, value has %d", path, len(a.Children), len(v.kids))
		}
		for i := range v.kids {
			p := fmt.Sprintf("%s[%d]", path, i)
			if v.kind == "object" {
				if a.Children[i].Key != v.keys[i] {
					return fmt.Sprintf("at %s: AST key #%d %q, decoded key %q", path, i, a.Children[i].Key, v.keys[i])
				}
				p = path + "." + v.keys[i]
			}
			if d := astEqual(a.Children[i], v.kids[i], p); d != "" {
				return d
			}
		}
	}
	return ""
}

func keyShape(text string) string {
	// which escape forms occur in keys / strings: drives the finding class
	var tags []string
	for _, m := range []struct{ sub, tag string }{{`\"`, "escaped-quote"}, {`\\`, "escaped-backslash"}, {`\n`, "escaped-newline"}, {`\u`, "unicode-escape"}, {`\/`, "escaped-slash"}, {`\b`, "control-escape"}} {
		if strings.Contains(text, m.sub) {
			tags = append(tags, m.tag)
		}
	}
	if len(tags) == 0 {
		return "plain"
	}
	return strings.Join(tags, "+")
}

func jgEval(cs jgCase) []core.Finding {
	return core.Guard("plain-json-schema", func() []core.Finding {
		text := cs.Text
		if text == "" {
			text = jgRender(cs.Toks, cs.Layout)
		}
		want, derr := jvDecode([]byte(text))
		if derr != nil {
			return []core.Finding{{Class: "harness:generator-produced-invalid-json", What: fmt.Sprintf("%q: %v", text, derr)}}
		}
		lay := jgLayouts[cs.Layout].name
		s := jschema.New("plain.json", text)
		if err := s.Check(); err != nil {
			return []core.Finding{{Class: "plainjson:rejected:" + lay + ":" + keyShape(text), What: fmt.Sprintf("plain JSON %q rejected: %v", text, firstLineOf(err))}}
		}
		var fs []core.Finding
		ex, err := s.Example()
		if err != nil {
			fs = append(fs, core.Finding{Class: "plainjson:example-error", What: fmt.Sprintf("%q: Example() = %v", text, firstLineOf(err))})
		} else if got, err := jvDecode(ex); err != nil {
			fs = append(fs, core.Finding{Class: "plainjson:example-not-json:" + keyShape(text), What: fmt.Sprintf("%q: Example() = %q is not JSON (%v)", text, ex, err)})
		} else if d := jvEqual(want, got, "$"); d != "" {
			fs = append(fs, core.Finding{Class: "plainjson:example-differs:" + keyShape(text), What: fmt.Sprintf("%q: Example() = %q denotes another value: %s", text, ex, d)})
		}
		ast, err := s.GetAST()
		if err != nil {
			fs = append(fs, core.Finding{Class: "plainjson:ast-error", What: fmt.Sprintf("%q: GetAST() = %v", text, firstLineOf(err))})
		} else if d := astEqual(ast, want, "$"); d != "" {
			fs = append(fs, core.Finding{Class: "plainjson:ast-differs:" + keyShape(text), What: fmt.Sprintf("%q: %s", text, d)})
		}
		return fs
	})
}

func runC03(c *core.Ctx) error {
	cfg := "JsonGen_quick.cfg"
	files := map[string][]byte{}
	if c.Thorough() {
		cfg = "JsonGen_thorough.cfg"
		files[cfg] = []byte("SPECIFICATION Spec\nCONSTANTS\n  MaxTokens = 7\n  MaxDepth = 3\n  Scalars = {1, 2, 4, 5, 6, 9, 10, 12, 13, 14, 15, 16, 17, 18, 19, 20, 21}\n  Keys = {1, 3, 4, 5, 6, 7, 8, 10, 11, 12, 13}\nINVARIANTS TypeOK Balanced NoDanglingKey Emit\nCHECK_DEADLOCK FALSE\n")
	}
	var docs [][]jgTok
	var sizes []int
	for _, cf := range []string{cfg, "JsonGen_wide.cfg"} {
		res, err := tlc.Run(tlc.Opts{Module: "JsonGen", Cfg: cf, Workers: 16, Files: files, Timeout: 0, HeapGB: 12, OnLine: func(l string) {
			var r struct {
				Toks   []jgTok    `json:"toks"`
				Sizes  []int      `json:"sizes"`
				Blanks [][]string `json:"blanks"`
			}
			if err := json.Unmarshal([]byte(l), &r); err != nil {
				c.InfraError("bad doc %s: %v", l, err)
				return
			}
			if len(r.Sizes) > 0 {
				sizes = r.Sizes
				if err := jgSetLayouts(r.Blanks); err != nil {
					c.InfraError("%v", err)
				}
				return
			}
			docs = append(docs, r.Toks)
		}})
		res.Cleanup()
		if err != nil {
			return err
		}
		if err := res.MustOK(); err != nil {
			return err
		}
		c.AddTLC(cf, res)
	}
	if len(docs) == 0 {
		return fmt.Errorf("no documents emitted")
	}
	c.Set("documents", len(docs))
	core.ParallelFor(len(docs), func(i int) {
		for l := range jgLayouts {
			if !c.Thorough() && l != 0 && (i+l+int(c.Seed))%3 != 0 {
				continue // quick: the compact layout always, the others for a third of the documents each
			}
			cs := jgCase{Toks: docs[i], Layout: l}
			c.CountEval(1)
			c.Report(cs, jgEval(cs))
		}
		c.Nontrivial(fmt.Sprint(docs[i]))
	})
	// direction 2: the scanner's event streams of a seeded sample of the documents under every blank run, validated by
	// TLC against JSchemaLex (every literal's span is a JSON scalar on its own, members are separated by one comma ...)
	{
		var texts []string
		stride := c.Pick(23, 5)
		for i := range docs {
			if (i+int(c.Seed))%stride != 0 {
				continue
			}
			texts = append(texts, jgRender(docs[i], (i/stride)%len(jgLayouts)))
		}
		if err := lexValidate(c, texts, "plain-json"); err != nil {
			return err
		}
	}
	// size (JsonGen!ScaledSizes): flat arrays, objects and matrices filled with the catalogue's scalars
	{
		var scalars []string
		for _, d := range docs {
			if len(d) == 1 && d[0].K == "scalar" {
				scalars = append(scalars, nonASCII.Replace(d[0].T))
			}
		}
		sort.Strings(scalars)
		sort.Ints(sizes)
		if len(scalars) == 0 || len(sizes) == 0 {
			return fmt.Errorf("no scalars / sizes for the scaled documents")
		}
		var texts []string
		for _, n := range sizes {
			if !c.Thorough() && n > 5000 {
				continue
			}
			var arr, obj, mat strings.Builder
			arr.WriteString("[")
			obj.WriteString("{")
			mat.WriteString("[")
			cols := 30
			for i := 0; i < n; i++ {
				sc := scalars[(i+n)%len(scalars)]
				if i > 0 {
					arr.WriteString(", ")
					obj.WriteString(", ")
				}
				arr.WriteString(sc)
				fmt.Fprintf(&obj, "\"k%d\": %s", i, sc)
				switch {
				case i%cols == 0 && i > 0:
					mat.WriteString("], [")
				case i%cols == 0:
					mat.WriteString("[")
				default:
					mat.WriteString(", ")
				}
				mat.WriteString(sc)
			}
			arr.WriteString("]")
			obj.WriteString("}")
			mat.WriteString("]]")
			texts = append(texts, arr.String(), obj.String(), mat.String())
		}
		core.ParallelFor(len(texts), func(i int) {
			cs := jgCase{Text: texts[i], Src: "JsonGen!ScaledSizes"}
			c.CountEval(1)
			c.Report(cs, jgEval(cs))
		})
		c.Set("scaled_documents", len(texts))
	}
	// second direction: RFC 8259 documents of the repository's corpus without exponents / duplicate keys
	n := 0
	for _, it := range corpus.Harvest(2000, ".") {
		v, err := jvDecode([]byte(it.Text))
		if err != nil || hasExpOrDupKey(v) {
			continue
		}
		n++
		cs := jgCase{Text: it.Text, Src: it.Src}
		c.CountEval(1)
		c.Report(cs, jgEval(cs))
	}
	c.Set("corpus_documents", n)
	c.Sample(map[string]any{"text": jgRender(docs[len(docs)/2], 6)})
	c.Set("rule", "every finished behaviour of JsonGen.tla (documents of <= MaxTokens tokens, depth <= 3, scalars/keys from catalogues with every escape form, surrogate pairs, non-ASCII, -0, 0.10, empty containers, no duplicate keys) rendered under 7 whitespace layouts, plus every RFC 8259 literal of the repository's tests without exponents/duplicate keys: accepted as a schema, Example() decodes (encoding/json, order preserving) to the same value, GetAST() has the same shape with decoded keys/values. distinct_nontrivial = distinct generated documents")
	c.Assume = append(c.Assume, "encoding/json is the independent decoder; numbers are compared as exact decimals")
	return nil
}

func hasExpOrDupKey(v *jv) bool {
	if v.kind == "number" && strings.ContainsAny(v.num, "eE") {
		return true
	}
	seen := map[string]bool{}
	for i, k := range v.kids {
		if v.kind == "object" {
			if seen[v.keys[i]] {
				return true
			}
			seen[v.keys[i]] = true
		}
		if hasExpOrDupKey(k) {
			return true
		}
	}
	return false
}

func init() {
	register(&core.Check{ID: "C03", Level: "model_checking", Run: runC03,
		Replay: func(c *core.Ctx, raw json.RawMessage) ([]core.Finding, error) {
			if fs, ok := lexReplay(raw); ok {
				return fs, nil
			}
			var cs jgCase
			if err := json.Unmarshal(raw, &cs); err != nil {
				return nil, err
			}
			return jgEval(cs), nil
		}})
}
