package checks

import (
	"encoding/json"
	"fmt"
	"strings"

	"verif/harness/internal/core"
	"verif/harness/internal/tlc"
)

// Binding demonstrations (DESIGN §6): every trace specification must accept a genuine recording and
// reject it once a field is corrupted or an event is removed. `bin/check SELFTEST`.

func stExpect(c *core.Ctx, name, module, cfg string, lines [][]byte, wantBad bool) {
	bad, res, err := tlc.ValidateTrace(module, cfg, lines, nil)
	if res != nil {
		res.Cleanup()
	}
	c.CountEval(1)
	rejected := err != nil || len(bad) > 0
	if rejected != wantBad {
		c.Report(map[string]any{"selftest": name}, []core.Finding{{Class: "selftest:" + name, What: fmt.Sprintf("%s: rejected=%v (bad lines %v, err %v), expected rejected=%v", name, rejected, bad, err, wantBad)}})
	}
	c.Nontrivial(name)
}

func replaceIn(lines [][]byte, i int, old, new string) [][]byte {
	out := make([][]byte, len(lines))
	copy(out, lines)
	if !strings.Contains(string(lines[i]), old) {
		panic("selftest: pattern " + old + " not in " + string(lines[i]))
	}
	out[i] = []byte(strings.Replace(string(lines[i]), old, new, 1))
	return out
}

func dropLine(lines [][]byte, i int) [][]byte {
	out := append([][]byte{}, lines[:i]...)
	return append(out, lines[i+1:]...)
}

func runSelftest(c *core.Ctx) error {
	// JsonDocTrace
	doc := jdTraceLines(jdTraceDoc{Src: "selftest", Input: []byte(`{"a": [1, "x"]}`)})
	last := len(doc) - 1
	stExpect(c, "jsondoc-genuine", "JsonDocTrace", "JsonDocTrace_plain.cfg", doc, false)
	stExpect(c, "jsondoc-len-corrupted", "JsonDocTrace", "JsonDocTrace_plain.cfg", replaceIn(doc, last, `"len":15`, `"len":14`), true)
	stExpect(c, "jsondoc-span-corrupted", "JsonDocTrace", "JsonDocTrace_plain.cfg", replaceIn(doc, last, `{"t":"key-end","b":1,"e":3}`, `{"t":"key-end","b":1,"e":2}`), true)
	stExpect(c, "jsondoc-verdict-corrupted", "JsonDocTrace", "JsonDocTrace_plain.cfg", replaceIn(doc, last, `"accept":true`, `"accept":false`), true)
	stExpect(c, "jsondoc-feed-removed", "JsonDocTrace", "JsonDocTrace_plain.cfg", dropLine(doc, 3), true)
	// NumberTrace
	n1, _ := numLine("12.50")
	c1, _ := cmpLine("12.50", "1.25e1")
	stExpect(c, "number-genuine", "NumberTrace", "NumberTrace.cfg", [][]byte{n1, c1}, false)
	stExpect(c, "number-cmp-corrupted", "NumberTrace", "NumberTrace.cfg", [][]byte{n1, []byte(strings.Replace(string(c1), `"cmp":0`, `"cmp":1`, 1))}, true)
	stExpect(c, "number-frac-corrupted", "NumberTrace", "NumberTrace.cfg", [][]byte{[]byte(strings.Replace(string(n1), `"frac":1`, `"frac":2`, 1))}, true)
	// PoolsTrace
	pt := [][]byte{[]byte(`{"ev":"reset","g":0,"buf":0}`), []byte(`{"ev":"call","g":0,"op":"Example","buf":0}`), []byte(`{"ev":"get","g":0,"buf":1}`), []byte(`{"ev":"get","g":0,"buf":2}`),
		[]byte(`{"ev":"put","g":0,"buf":2}`), []byte(`{"ev":"put","g":0,"buf":1}`), []byte(`{"ev":"ret","g":0,"alias":-1,"same":true,"buf":0}`)}
	stExpect(c, "pools-genuine", "PoolsTrace", "PoolsTrace.cfg", pt, false)
	stExpect(c, "pools-alias", "PoolsTrace", "PoolsTrace.cfg", replaceIn(pt, 6, `"alias":-1`, `"alias":1`), true)
	stExpect(c, "pools-put-removed", "PoolsTrace", "PoolsTrace.cfg", dropLine(pt, 4), true)
	stExpect(c, "pools-held-changed", "PoolsTrace", "PoolsTrace.cfg", replaceIn(pt, 6, `"same":true`, `"same":false`), true)
	two := append(append([][]byte{}, pt[:4]...), []byte(`{"ev":"get","g":1,"buf":2}`))
	stExpect(c, "pools-buffer-in-two-hands", "PoolsTrace", "PoolsTrace.cfg", two, true)
	// LenLaws
	ok, _ := json.Marshal(lenObs{Slen: 10, Len: 8, Vs: "accepted", Vp: "accepted", AstEq: true, Lenp: 8, Lenst: 8, Complete: true})
	stExpect(c, "lenlaws-genuine", "LenLaws", "LenLaws.cfg", [][]byte{ok}, false)
	stExpect(c, "lenlaws-boundary-moved", "LenLaws", "LenLaws.cfg", [][]byte{[]byte(strings.Replace(string(ok), `"lenst":8`, `"lenst":9`, 1))}, true)
	stExpect(c, "lenlaws-not-idempotent", "LenLaws", "LenLaws.cfg", [][]byte{[]byte(strings.Replace(string(ok), `"lenp":8`, `"lenp":7`, 1))}, true)
	// JSchemaLexTrace: a genuine event stream of the schema scanner, then spans, order and separators corrupted
	lx := lexTrace("{\n  \"k\": [ // {minItems: 1} - note\n    1,\n    @a | @b\n  ],\n  @s: \"v\" /* {type: \"string\"} */\n}")
	find := func(sub string, nth int) int {
		for i, l := range lx {
			if strings.Contains(string(l), sub) {
				if nth == 0 {
					return i
				}
				nth--
			}
		}
		panic("selftest: no line with " + sub)
	}
	bump := func(i int, field string, delta int) [][]byte {
		var m map[string]any
		if json.Unmarshal(lx[i], &m) != nil {
			panic("selftest: bad line")
		}
		m[field] = int(m[field].(float64)) + delta
		b, _ := json.Marshal(m)
		out := append([][]byte{}, lx...)
		out[i] = b
		return out
	}
	stExpect(c, "lexemes-genuine", "JSchemaLexTrace", "JSchemaLexTrace.cfg", lx, false)
	ke := find(`"t":"key-end"`, 0)
	stExpect(c, "lexemes-span-end-moved", "JSchemaLexTrace", "JSchemaLexTrace.cfg", bump(ke, "e", 1), true)
	stExpect(c, "lexemes-event-removed", "JSchemaLexTrace", "JSchemaLexTrace.cfg", dropLine(lx, ke), true)
	ib := find(`"comma":1`, 0)
	stExpect(c, "lexemes-comma-lost", "JSchemaLexTrace", "JSchemaLexTrace.cfg", replaceIn(lx, ib, `"comma":1`, `"comma":0`), true)
	le := find(`"t":"literal-end"`, 1)
	stExpect(c, "lexemes-literal-swallows-blank", "JSchemaLexTrace", "JSchemaLexTrace.cfg", replaceIn(lx, le, `"scalar":true`, `"scalar":false`), true)
	ve := find(`"t":"value-end"`, 0)
	stExpect(c, "lexemes-member-span-differs-from-value", "JSchemaLexTrace", "JSchemaLexTrace.cfg", bump(ve, "e", -1), true)
	oe := find(`"t":"object-end"`, 2)
	stExpect(c, "lexemes-unclosed-but-complete", "JSchemaLexTrace", "JSchemaLexTrace.cfg", dropLine(lx, oe), true)
	// replay checks: a wrong observable must be flagged (stub cases with a wrong expectation)
	if len(omEval(omCase{Container: "RuleASTNodes", Ops: []omOp{{Op: "set", K: "k1", V: "v1"}}, Expect: []omState{{Order: []string{"k2"}, Data: map[string]string{"k2": "v1"}}}})) == 0 {
		c.Report("c19-stub", []core.Finding{{Class: "selftest:c19-stub", What: "a wrong expected state was not flagged"}})
	}
	if len(jdEval(jdCase{Input: []byte("1"), Accept: false, State: "stub"})) == 0 {
		c.Report("c12-stub", []core.Finding{{Class: "selftest:c12-stub", What: "a wrong expected verdict was not flagged"}})
	}
	c.Sample("binding demonstrations: genuine traces accepted; corrupted field / removed event rejected")
	c.Set("rule", "binding self-tests of the trace specifications and of two replay comparators")
	return nil
}

func init() {
	register(&core.Check{ID: "SELFTEST", Level: "other", Run: runSelftest,
		Replay: func(c *core.Ctx, raw json.RawMessage) ([]core.Finding, error) { return nil, nil }})
}
