package checks

import (
	"crypto/sha1"
	"encoding/json"
	"errors"
	"fmt"
	"io"
	"math/rand"
	"sort"
	"strings"
	"sync"

	schema "github.com/jsightapi/jsight-schema-core"
	jdoc "github.com/jsightapi/jsight-schema-core/formats/json"
	"github.com/jsightapi/jsight-schema-core/kit"
	"github.com/jsightapi/jsight-schema-core/notations/jschema"
	"github.com/jsightapi/jsight-schema-core/notations/regex"
	"github.com/jsightapi/jsight-schema-core/openapi"
	"github.com/jsightapi/jsight-schema-core/rules/enum"

	"verif/harness/internal/core"
	"verif/harness/internal/corpus"
	"verif/harness/internal/tlc"
)

// C09: Determinism.tla lists the configurations (root, registered types, registration order) and marks the
// order-sensitive ones; the harness observes the real code on each: R repetitions in-process, P fresh
// processes, every registration order - all observables must be byte-identical. Other entry points
// (enum rule, regex, JSON document, type guessing, single schemas) are sampled by repetition as well.

var detTypes = map[string]string{
	"a": `1 // {min: 0}`,
	"b": `{"k": "v"}`,
	"v": `1 // {min: 2}`,
	"w": `"s" // {maxLength: 0}`,
	"m": `{"x": @nowhere}`,
	"r": `1 // {nosuchrule: 1}`,
	"h": "{\n  \"k\": 1 // {or: [{type: \"integer\", min: 0}, {type: \"string\"}]}\n}",
	"c": "{\n  \"p\": @n1 | @n2,\n  \"q\": @n3 | @n4\n}",
	"o": "{\n  \"p\": 1, // {or: [{type: \"@n5\"}, {type: \"string\"}]}\n  \"q\": 5 // {or: [{type: \"integer\", min: 9}, {type: \"string\"}]}\n}",
	"x": "{\n  \"p\": 1, // {min: 2}\n  \"q\": \"s\" // {maxLength: 0}\n}",
	"g": "{ // {allOf: \"@a\"}\n  \"gk\": 1\n}",
	"f": `"123e4567-e89b-12d3-a456-426614174000" // {type: "uuid", minLength: 2, maxLength: 256, regex: "^1"}`,
	"i": "{\n  \"name\": \"abc\" // {optional: true, minItems: 1, min: 2, maxItems: 5}\n}",
	"j": "{ // {allOf: \"@i\"}\n  \"jk\": 1\n}",
	"q": "{\n  \"k\": \"2021-01-02T07:23:12Z\" // {or: [{type: \"datetime\"}, {type: \"email\"}, {type: \"string\", maxLength: 40}]}\n}",
	"k": "{ // {allOf: [\"@c\", \"@p\"]}\n  \"kk\": 1\n}",
	"p": "{\n  \"pp\": 1 // {or: [{type: \"@n6\", nullable: true}, {type: \"string\"}]}\n}",
}

func detRoot(root string, types []string) string {
	switch root {
	case "two-choices":
		return "{\n  \"p\": @r1 | @r2,\n  \"q\": @r3 | @r4\n}"
	case "refs-a":
		return `{"p": @a}`
	case "self-two-names":
		return "{\n  \"next\": @selfb\n}"
	case "heir-of-i":
		return "{ // {allOf: \"@i\"}\n  \"rk\": 1\n}"
	case "refs-all":
		var parts []string
		sorted := append([]string{}, types...)
		sort.Strings(sorted)
		for _, t := range sorted {
			parts = append(parts, fmt.Sprintf(`"%s": @%s`, t, t))
		}
		return "{" + strings.Join(parts, ", ") + "}"
	}
	return `{"q": 1}`
}

type detCase struct {
	Kind      string   `json:"kind"` // "project" | "text"
	Root      string   `json:"root,omitempty"`
	Order     []string `json:"order,omitempty"`
	Sensitive bool     `json:"sensitive,omitempty"`
	Reuse     string   `json:"reuse,omitempty"` // "fresh" | "second-root" | "prechecked" (Determinism.tla)
	Entry     string   `json:"entry,omitempty"`
	Text      string   `json:"text,omitempty"`
	Reps      int      `json:"reps,omitempty"`
}

func errObs(err error) string {
	if err == nil {
		return "nil"
	}
	var je kit.JSchemaError
	if errors.As(err, &je) {
		return fmt.Sprintf("code=%d idx=%d line=%d col=%d type=%q msg=%q", je.ErrCode(), je.Index(), je.Line(), je.Column(), je.IncorrectUserType(), err.Error())
	}
	return fmt.Sprintf("%T %q", err, err.Error())
}

func schemaObs(s *jschema.JSchema) string {
	var sb strings.Builder
	guard := func(name string, f func() string) {
		defer func() {
			if r := recover(); r != nil {
				fmt.Fprintf(&sb, "%s=PANIC(%v)\n", name, firstLineStr(fmt.Sprint(r)))
			}
		}()
		fmt.Fprintf(&sb, "%s=%s\n", name, f())
	}
	guard("len", func() string { n, err := s.Len(); return fmt.Sprint(n, " ", errObs(err)) })
	var cerr error
	guard("check", func() string { cerr = s.Check(); return errObs(cerr) })
	guard("example", func() string { b, err := s.Example(); return string(b) + " " + errObs(err) })
	guard("ast", func() string { a, err := s.GetAST(); b, _ := json.Marshal(a); return string(b) + " " + errObs(err) })
	guard("used", func() string { u, err := s.UsedUserTypes(); return fmt.Sprint(u, " ", errObs(err)) })
	if cerr == nil {
		guard("openapi", func() string {
			b, err := openapi.NewSchemaObject(s).MarshalJSON()
			return string(b) + " " + errObs(err)
		})
	}
	// "on every repetition": the same object asked again, after everything else has been asked of it, answers the same
	first := sb.String()
	var again strings.Builder
	guard2 := func(name string, f func() string) {
		defer func() {
			if r := recover(); r != nil {
				fmt.Fprintf(&again, "%s=PANIC(%v)\n", name, firstLineStr(fmt.Sprint(r)))
			}
		}()
		fmt.Fprintf(&again, "%s=%s\n", name, f())
	}
	guard2("ast", func() string { a, err := s.GetAST(); b, _ := json.Marshal(a); return string(b) + " " + errObs(err) })
	guard2("example", func() string { b, err := s.Example(); return string(b) + " " + errObs(err) })
	if cerr == nil {
		guard2("openapi", func() string {
			b, err := openapi.NewSchemaObject(s).MarshalJSON()
			return string(b) + " " + errObs(err)
		})
	}
	for _, l := range strings.Split(strings.TrimSpace(again.String()), "\n") {
		if l != "" && !strings.Contains(first, l+"\n") {
			name := strings.SplitN(l, "=", 2)[0]
			fmt.Fprintf(&sb, "SECOND-OBSERVATION-DIFFERS[%s]=%s\n", name, l)
		}
	}
	return sb.String()
}

func detObserve(cs detCase) string {
	switch cs.Kind {
	case "project":
		root := jschema.New("root", detRoot(cs.Root, cs.Order))
		var sb strings.Builder
		// the type objects; with Reuse they have been used before: registered on another root with the same
		// text that was then compiled and asked everything, or checked on their own
		objs := map[string]*jschema.JSchema{}
		for _, t := range cs.Order {
			objs[t] = jschema.New("@"+t, detTypes[t])
		}
		switch cs.Reuse {
		case "second-root":
			first := jschema.New("root", detRoot(cs.Root, cs.Order))
			for _, t := range cs.Order {
				_ = first.AddType("@"+t, objs[t])
			}
			_ = schemaObs(first)
		case "prechecked":
			for _, t := range cs.Order {
				func() {
					defer func() { _ = recover() }()
					_ = objs[t].Check()
				}()
			}
		}
		if cs.Root == "self-two-names" {
			_ = root.AddType("@selfa", root)
			_ = root.AddType("@selfb", root)
		}
		// AddType results are observables of each call, keyed by type so that they can be compared across orders
		res := map[string]string{}
		for _, t := range cs.Order {
			err := root.AddType("@"+t, objs[t])
			res[t] = errObs(err)
		}
		keys := make([]string, 0, len(res))
		for k := range res {
			keys = append(keys, k)
		}
		sort.Strings(keys)
		for _, k := range keys {
			fmt.Fprintf(&sb, "addtype[%s]=%s\n", k, res[k])
		}
		sb.WriteString(schemaObs(root))
		return sb.String()
	case "text":
		var sb strings.Builder
		func() {
			defer func() {
				if r := recover(); r != nil {
					fmt.Fprintf(&sb, "PANIC(%v)", firstLineStr(fmt.Sprint(r)))
				}
			}()
			switch cs.Entry {
			case "schema":
				sb.WriteString(schemaObs(jschema.New("schema", cs.Text)))
			case "enum":
				e := enum.New("rule", cs.Text)
				fmt.Fprintf(&sb, "check=%s\n", errObs(e.Check()))
				vs, err := e.Values()
				for _, v := range vs {
					fmt.Fprintf(&sb, "value=%s:%s:%q\n", v.Value.String(), v.Type, v.Comment)
				}
				fmt.Fprintf(&sb, "values-err=%s\n", errObs(err))
				n, err := e.Len()
				fmt.Fprintf(&sb, "len=%d %s\n", n, errObs(err))
				a, err := e.GetAST()
				b, _ := json.Marshal(a)
				fmt.Fprintf(&sb, "ast=%s %s\n", b, errObs(err))
			case "regex":
				r := regex.New("regex", cs.Text)
				fmt.Fprintf(&sb, "check=%s\n", errObs(r.Check()))
				n, err := r.Len()
				fmt.Fprintf(&sb, "len=%d %s\n", n, errObs(err))
				ex, err := r.Example()
				fmt.Fprintf(&sb, "example=%q %s\n", ex, errObs(err))
				a, err := r.GetAST()
				b, _ := json.Marshal(a)
				fmt.Fprintf(&sb, "ast=%s %s\n", b, errObs(err))
			case "jdoc":
				d := jdoc.New("doc", cs.Text)
				fmt.Fprintf(&sb, "check=%s\n", errObs(d.Check()))
				n, err := d.Len()
				fmt.Fprintf(&sb, "len=%d %s\n", n, errObs(err))
				d2 := jdoc.New("doc", cs.Text)
				for i := 0; i < 4*len(cs.Text)+8; i++ {
					lex, err := d2.NextLexeme()
					if err != nil {
						if !errors.Is(err, io.EOF) {
							fmt.Fprintf(&sb, "lex-err=%s\n", errObs(err))
						}
						break
					}
					fmt.Fprintf(&sb, "%s[%d:%d] ", lex.Type(), lex.Begin(), lex.End())
				}
			case "guess":
				t, err := schema.GuessSchemaType([]byte(cs.Text))
				fmt.Fprintf(&sb, "guess=%s %s\n", t, errObs(err))
			}
		}()
		return sb.String()
	}
	return "?"
}

func detProjectKey(cs detCase) string {
	if cs.Kind == "text" {
		return "text|" + cs.Entry + "|" + cs.Text
	}
	s := append([]string{}, cs.Order...)
	sort.Strings(s)
	return "project|" + cs.Root + "|" + strings.Join(s, ",")
}

func init() {
	core.Workers["c09"] = func(raw json.RawMessage) core.WorkerOut {
		var cs detCase
		if err := json.Unmarshal(raw, &cs); err != nil {
			return core.WorkerOut{Findings: []core.Finding{{Class: "harness", What: err.Error()}}}
		}
		reps := cs.Reps
		if reps == 0 {
			reps = 5
		}
		first := detObserve(cs)
		var fs []core.Finding
		if k := strings.Index(first, "SECOND-OBSERVATION-DIFFERS["); k >= 0 {
			what := first[k:]
			if e := strings.Index(what, "\n"); e >= 0 {
				what = what[:e]
			}
			name := strings.TrimSuffix(strings.TrimPrefix(strings.SplitN(what, "=", 2)[0], "SECOND-OBSERVATION-DIFFERS["), "]")
			fs = append(fs, core.Finding{Class: "nondeterministic:same-object-asked-again:" + name, What: fmt.Sprintf("%+v: the same object, asked again after the other calls, answers differently: %.400s", cs, what)})
		}
		for i := 1; i < reps; i++ {
			if o := detObserve(cs); o != first {
				fs = append(fs, core.Finding{Class: "nondeterministic:in-process:" + detDiffClass(first, o, cs), What: detDiffWhat(first, o, cs)})
				break
			}
		}
		h := sha1.Sum([]byte(first))
		return core.WorkerOut{Findings: fs, Lines: []string{fmt.Sprintf("%x", h[:8]), first}}
	}
	register(&core.Check{ID: "C09", Level: "model_checking", Run: runC09,
		Replay: func(c *core.Ctx, raw json.RawMessage) ([]core.Finding, error) {
			var rec struct {
				Cases []detCase `json:"cases"`
			}
			var cases []detCase
			if json.Unmarshal(raw, &rec) == nil && len(rec.Cases) > 0 {
				cases = rec.Cases
			} else {
				var cs detCase
				if err := json.Unmarshal(raw, &cs); err != nil {
					return nil, err
				}
				cases = []detCase{cs}
			}
			var first string
			for r := 0; r < 300; r++ {
				for _, cs := range cases {
					o := detObserve(cs)
					if strings.Contains(o, "SECOND-OBSERVATION-DIFFERS[") {
						return []core.Finding{{Class: "nondeterministic:same-object-asked-again", What: o}}, nil
					}
					if first == "" {
						first = o
					} else if o != first {
						return []core.Finding{{Class: "nondeterministic:" + detDiffClass(first, o, cs), What: detDiffWhat(first, o, cs)}}, nil
					}
				}
			}
			return nil, nil
		}})
}

// detDiffClass names the first observable that differs (and for project cases the root kind).
func detDiffClass(a, b string, cs detCase) string {
	la, lb := strings.Split(a, "\n"), strings.Split(b, "\n")
	name := "shape"
	for i := 0; i < len(la) && i < len(lb); i++ {
		if la[i] != lb[i] {
			name = la[i]
			if j := strings.IndexAny(name, "=["); j > 0 {
				name = name[:j]
			}
			break
		}
	}
	if cs.Kind == "project" {
		s := append([]string{}, cs.Order...)
		sort.Strings(s)
		return name + ":project:" + cs.Root + ":" + strings.Join(s, "")
	}
	return name + ":" + cs.Entry
}

func detDiffWhat(a, b string, cs detCase) string {
	la, lb := strings.Split(a, "\n"), strings.Split(b, "\n")
	for i := 0; i < len(la) && i < len(lb); i++ {
		if la[i] != lb[i] {
			return fmt.Sprintf("same input, two answers (%s %s %v %.60q): %.300q  vs  %.300q", cs.Kind, cs.Root+cs.Entry, cs.Order, cs.Text, la[i], lb[i])
		}
	}
	return fmt.Sprintf("same input, two answers of different shape (%+v)", cs)
}

func runC09(c *core.Ctx) error {
	// negative control: with map iteration the model is not confluent
	neg, err := tlc.Run(tlc.Opts{Module: "Determinism", Cfg: "Determinism_map.cfg", Workers: 1})
	neg.Cleanup()
	if err != nil {
		return err
	}
	if neg.Violated != "Confluent" {
		return fmt.Errorf("negative control: Determinism with map iteration should violate Confluent")
	}
	c.Set("negative_control", "Determinism_map.cfg violates Confluent as expected")
	res, err := tlc.Run(tlc.Opts{Module: "Determinism", Cfg: "Determinism_sorted.cfg", Workers: 4})
	res.Cleanup()
	if err != nil {
		return err
	}
	if err := res.MustOK(); err != nil {
		return err
	}
	c.AddTLC("Determinism_sorted.cfg", res)
	var cases []detCase
	for _, l := range res.Lines {
		var cs detCase
		if err := json.Unmarshal([]byte(l), &cs); err != nil {
			return err
		}
		cs.Kind = "project"
		cs.Reps = c.Pick(6, 30)
		if cs.Sensitive {
			cs.Reps = c.Pick(40, 200)
		}
		cases = append(cases, cs)
	}
	c.Set("project_configurations", len(cases))
	// other entry points
	rng := rand.New(rand.NewSource(c.Seed))
	texts := map[string][]string{
		"enum":   {`["a.b", "1.5", 1.5, "x"]`, `[1, 2, 3] // c`, `[1, 1]`, `["a", "a"]`, `[`, `[1 /* x */, 2]`, "[\n \"a\", // A\n \"b\" // B\n]"},
		"regex":  {`/a+b/`, `/[a-z]{3,5}\d?/`, `/(/`, `//`, `/a`, `/(x|y|z)+/`},
		"jdoc":   {`{"a": [1, 2.5, "x", null, true]}`, `{"a": }`, `[1, 2`, `"s"`, `1.`},
		"guess":  {`"a.b"`, `"1.5"`, `1.5`, `1`, `1e2`, `true`, `null`, `{`, `[`, `"e"`, `"1e5"`, `x`, `-`, `1.2.3`, `"."`},
		"schema": {`{"a": 1, "b": "s"} // {additionalProperties: "string"}`, `"2021-01-02T07:23:12Z" // {or: [{type: "datetime"}, {type: "uuid"}, "email"]}`, `5 // {or: [{type: "string"}, {type: "boolean"}]}`, `{"a": @x, "b": @y, "c": @z | @w}`, "{\n \"a\": 1, // {min: 5}\n \"b\": \"s\" // {maxLength: 0}\n}", `[1, "a", true] // {minItems: 5}`, `"x" // {enum: ["a.b", "x", 1.5]}`, `{"a": 1 // {bad: 1}`, `@a | @b`, `{"@k": 1}`, `{"k": 1} // {allOf: ["@p", "@q"]}`, `1 // {type: "float", precision: 2, min: 0.5, max: 2, exclusiveMaximum: true}`},
	}
	items := corpus.Harvest(300, "notations/jschema", "rules/enum", "formats/json", "notations/regex")
	rng.Shuffle(len(items), func(i, j int) { items[i], items[j] = items[j], items[i] })
	for i, it := range items {
		if i >= c.Pick(600, 4000) {
			break
		}
		entry := []string{"schema", "schema", "enum", "jdoc"}[i%4]
		texts[entry] = append(texts[entry], it.Text)
	}
	for entry, ts := range texts {
		for _, t := range ts {
			cases = append(cases, detCase{Kind: "text", Entry: entry, Text: t, Reps: c.Pick(8, 40)})
		}
	}
	// every case runs in P different worker processes
	P := c.Pick(3, 8)
	var raws []json.RawMessage
	var idx []int
	for p := 0; p < P; p++ {
		for i, cs := range cases {
			b, _ := json.Marshal(cs)
			raws = append(raws, b)
			idx = append(idx, i)
		}
	}
	// shuffle so that copies of one case land in different processes and different neighbourhoods
	perm := rng.Perm(len(raws))
	sraws := make([]json.RawMessage, len(raws))
	sidx := make([]int, len(raws))
	for i, p := range perm {
		sraws[i], sidx[i] = raws[p], idx[p]
	}
	rawToIdx := map[string][]int{}
	_ = rawToIdx
	type obs struct {
		digest, full string
		cs           detCase
	}
	var mu sync.Mutex
	groups := map[string][]obs{}
	pos := map[string]int{}
	err = c.RunSharded(sraws, core.ShardOpts{Worker: "c09", OnOut: func(o core.WorkerOut, raw json.RawMessage) {
		if len(o.Lines) < 2 {
			return
		}
		var cs detCase
		if json.Unmarshal(raw, &cs) != nil {
			return
		}
		mu.Lock()
		k := detProjectKey(cs)
		groups[k] = append(groups[k], obs{o.Lines[0], o.Lines[1], cs})
		pos[k]++
		mu.Unlock()
	}})
	if err != nil {
		return err
	}
	sens := 0
	for k, g := range groups {
		c.Nontrivial(k)
		for i := 1; i < len(g); i++ {
			if g[i].digest != g[0].digest {
				scope := "across-processes"
				if fmt.Sprint(g[i].cs.Order) != fmt.Sprint(g[0].cs.Order) {
					scope = "across-registration-orders"
				}
				class := detDiffClass(g[0].full, g[i].full, g[i].cs)
				if g[i].cs.Reuse != g[0].cs.Reuse {
					scope = "across-reuse-of-objects"
					// an heir of two types of which the first is registered and the second is not: the failed
					// compilation has already copied the first parent's properties into the heir object
					has := map[string]bool{}
					for _, t := range g[i].cs.Order {
						has[t] = true
					}
					if has["k"] && has["c"] && !has["p"] {
						class = "heir-partly-extended-by-a-failed-compilation"
					}
				}
				c.Report(map[string]any{"cases": []detCase{g[0].cs, g[i].cs}}, []core.Finding{{Class: "nondeterministic:" + scope + ":" + class,
					What: detDiffWhat(g[0].full, g[i].full, g[i].cs)}})
				break
			}
		}
		if len(g) > 0 && g[0].cs.Sensitive {
			sens++
		}
	}
	c.Set("groups_compared", len(groups))
	c.Set("order_sensitive_groups", sens)
	c.Set("processes_per_case", P)
	c.Sample(cases[len(cases)/2])
	c.Set("miss_probability_note", "a two-way order dependence survives R independent repetitions with probability 2^(1-R); sensitive configurations use R>=40 per process")
	c.Set("rule", "every (root, registered type set, registration order) state of Determinism.tla (3 roots x <=3 of 6 types incl. four defective ones, all orders) plus texts for the enum, regex, JSON-document, guessing and schema entry points (hand-picked + repository corpus); each observed R times in-process and in P worker processes; all observables (error code/message/position/type, Len, AST, example, used types, OpenAPI, values, lexemes) compared byte-for-byte within a project across orders, repetitions and processes. distinct_nontrivial = distinct projects/texts")
	return nil
}
