package checks

import (
	"bytes"
	"encoding/json"
	"fmt"
	"math/rand"
	"strings"
	"sync"

	"github.com/jsightapi/jsight-schema-core/kit"
	"github.com/jsightapi/jsight-schema-core/notations/jschema"
	"github.com/jsightapi/jsight-schema-core/rules/enum"

	"verif/harness/internal/core"
	"verif/harness/internal/tlc"
	"verif/harness/internal/walk"
)

// C17: EnumRule.tla (token-level reference). TLC dumps the graph; token paths are printed to text
// and replayed on rules/enum and on schemas that use the rule by name vs. inline.

type enCat struct {
	Text string `json:"text"`
	Kind string `json:"kind"`
	Str  string `json:"str"`
	Exp  bool   `json:"exp"`
}

type enCase struct {
	Tokens []string `json:"tokens"`
	Text   string   `json:"text"`
	Expect string   `json:"expect"` // accept | reject | none
	Values []enCat  `json:"values,omitempty"`
}

var enPlain = map[string]string{"lb": "[", "rb": "]", "comma": ",", "sp": " ", "nl": "\n", "ic": "// note", "mc": "/* note */", "lbrace": "{", "junk": "x"}

func errCode(err error) int {
	if err == nil {
		return 0
	}
	type coder interface{ ErrCode() int }
	if c, ok := err.(coder); ok {
		return c.ErrCode()
	}
	var je kit.JSchemaError
	_ = je
	return -1
}

func enShape(tokens []string) string {
	// shape of the token sequence with scalars collapsed, for finding classes
	var sb []string
	for _, t := range tokens {
		if strings.HasPrefix(t, "Scalar") {
			t = "S"
		} else {
			t = strings.TrimSuffix(strings.TrimPrefix(t, `Tok("`), `")`)
		}
		if len(sb) > 0 && sb[len(sb)-1] == t && (t == "sp" || t == "nl") {
			continue
		}
		sb = append(sb, t)
	}
	if len(sb) > 9 {
		sb = append(sb[:9], "..")
	}
	return strings.Join(sb, " ")
}

func enEval(cs enCase, cat []enCat) []core.Finding {
	return core.Guard("enum", func() []core.Finding {
		if cs.Expect == "none" {
			return nil
		}
		var fs []core.Finding
		add := func(what, msg string) {
			fs = append(fs, core.Finding{Class: "enum:" + what + ":" + enShape(cs.Tokens), What: fmt.Sprintf("enum rule %q: %s", cs.Text, msg)})
		}
		r := enum.New("@rule", cs.Text)
		err := r.Check()
		if cs.Expect == "accept" && err != nil {
			add("rejects-valid", "Check() = "+firstLineOf(err))
			return fs
		}
		if cs.Expect == "reject" && err == nil {
			add("accepts-invalid", "Check() = nil")
			return fs
		}
		if cs.Expect == "reject" {
			return nil
		}
		vals, verr := r.Values()
		if verr != nil {
			add("values-error", firstLineOf(verr))
			return fs
		}
		var got []string
		for _, v := range vals {
			if v.Value.IsNil() {
				continue // annotation-only entries
			}
			got = append(got, v.Value.String()+":"+string(v.Type))
		}
		var want []string
		for _, v := range cs.Values {
			want = append(want, v.Text+":"+v.Kind)
		}
		if strings.Join(got, " | ") != strings.Join(want, " | ") {
			add("values", fmt.Sprintf("Values() = %v, want %v", got, want))
		}
		return fs
	})
}

// enEquiv: for an accepted list, `v // {enum: @rule}` and `v // {enum: [list]}` agree on verdict and example.
func enEquiv(items []enCat, cat []enCat) []core.Finding {
	var fs []core.Finding
	var texts []string
	for _, it := range items {
		texts = append(texts, it.Text)
	}
	inline := "[" + strings.Join(texts, ", ") + "]"
	ruleText := "[\n  " + strings.Join(texts, ",\n  ") + "\n]"
	for _, v := range cat {
		if v.Exp {
			continue
		}
		f := core.Guard("enum-equiv", func() []core.Finding {
			named := jschema.New("named", v.Text+" // {enum: @rule}")
			if err := named.AddRule("@rule", enum.New("@rule", ruleText)); err != nil {
				return []core.Finding{{Class: "enum:addrule", What: fmt.Sprintf("AddRule(%q) fails: %v", ruleText, firstLineOf(err))}}
			}
			lit := jschema.New("inline", v.Text+" // {enum: "+inline+"}")
			e1, e2 := named.Check(), lit.Check()
			if (e1 == nil) != (e2 == nil) || errCode(e1) != errCode(e2) {
				return []core.Finding{{Class: "enum:named-vs-inline:verdict", What: fmt.Sprintf("value %s against %s: by name -> %v, inline -> %v", v.Text, inline, firstLineOf(e1), firstLineOf(e2))}}
			}
			// the verdict itself: accepted iff the value is the same as some item
			member := false
			for _, it := range items {
				if it.Text == v.Text || (it.Kind == "string" && v.Kind == "string" && it.Str == v.Str) {
					member = true
				}
			}
			if member != (e1 == nil) {
				return []core.Finding{{Class: "enum:membership", What: fmt.Sprintf("value %s against %s: member=%v but Check() = %v", v.Text, inline, member, firstLineOf(e1))}}
			}
			if e1 == nil {
				x1, err1 := named.Example()
				x2, err2 := lit.Example()
				if (err1 == nil) != (err2 == nil) || !bytes.Equal(x1, x2) {
					return []core.Finding{{Class: "enum:named-vs-inline:example", What: fmt.Sprintf("value %s against %s: examples %q / %q", v.Text, inline, x1, x2)}}
				}
			}
			return nil
		})
		fs = append(fs, f...)
	}
	return fs
}

// enShared: ONE rule object, written with interline and end-of-line annotations, is used by several schemas in turn;
// every use must give the verdict of the inline list, and the rule's own Values()/GetAST() must not change by being used.
func enShared(items []enCat, cat []enCat) []core.Finding {
	return core.Guard("enum-shared", func() []core.Finding {
		var texts []string
		for _, it := range items {
			texts = append(texts, it.Text)
		}
		inline := "[" + strings.Join(texts, ", ") + "]"
		var sb strings.Builder
		sb.WriteString("[\n  // an interline annotation\n")
		for i, t := range texts {
			sb.WriteString("  " + t)
			if i < len(texts)-1 {
				sb.WriteString(",")
			}
			if i%2 == 0 {
				sb.WriteString(" // note " + fmt.Sprint(i))
			}
			sb.WriteString("\n")
			if i == 0 && len(texts) > 1 {
				sb.WriteString("  /* another interline\n     annotation */\n")
			}
		}
		sb.WriteString("]")
		ruleText := sb.String()
		rule := enum.New("@rule", ruleText)
		snap := func() string {
			vs, err := rule.Values()
			var out []string
			for _, v := range vs {
				out = append(out, v.Value.String()+":"+string(v.Type)+":"+v.Comment)
			}
			a, _ := rule.GetAST()
			ab, _ := json.Marshal(a)
			return fmt.Sprint(out, err) + string(ab)
		}
		before := snap()
		for round := 0; round < 2; round++ {
			for _, v := range cat {
				if v.Exp {
					continue
				}
				named := jschema.New("named", v.Text+" // {enum: @rule}")
				if err := named.AddRule("@rule", rule); err != nil {
					return []core.Finding{{Class: "enum:shared-rule:addrule", What: fmt.Sprintf("AddRule of the shared rule %q fails on a later use: %v", ruleText, firstLineOf(err))}}
				}
				lit := jschema.New("inline", v.Text+" // {enum: "+inline+"}")
				e1, e2 := named.Check(), lit.Check()
				if (e1 == nil) != (e2 == nil) || errCode(e1) != errCode(e2) {
					return []core.Finding{{Class: "enum:shared-rule:named-vs-inline", What: fmt.Sprintf("rule object reused (round %d): value %s against %s: by name -> %v, inline -> %v", round, v.Text, inline, firstLineOf(e1), firstLineOf(e2))}}
				}
				if now := snap(); now != before {
					return []core.Finding{{Class: "enum:shared-rule:values-changed", What: fmt.Sprintf("Values()/GetAST() of rule %q changed after it was used by a schema: %.200s -> %.200s", ruleText, before, now)}}
				}
			}
		}
		return nil
	})
}

func runC17(c *core.Ctx) error {
	for _, cfg := range []string{"EnumRule_graph.cfg", "EnumRule_graph2.cfg", "EnumRule_graph3.cfg", "EnumRule_graph4.cfg"} {
		if err := runC17cfg(c, cfg); err != nil {
			return err
		}
	}
	if err := runC17long(c); err != nil {
		return err
	}
	// call histories (SchemaApi_enum.cfg): results do not depend on earlier calls, returned values stay intact
	if err := runObjHistories(c, objKinds["enum"], objPairs([]string{"[1, \"a\"]", "[\"a\", // c\n 2]", "[1, 1]", "[-1, \"-1\", 1.5]", "[", "[true, null]", "[\"x\", \"y\", \"z\"] // note", "", "[1.0, 1]"}, c.Pick(9, 36), c.Seed)); err != nil {
		return err
	}
	c.Set("rule", "token paths of the TLC-dumped EnumRule automaton (<= 3 items from four parts of a 37-scalar catalogue): access sequence of every state followed by every token sequence <= k, plus seeded random walks; printed to text and replayed on enum.New (Check, Values) and, per distinct accepted item list, on schemas using the rule by name vs inline for every catalogue value. distinct_nontrivial = distinct (state, token) edges crossed")
	c.Assume = append(c.Assume, "annotation entries (no value) returned by Values() are not counted as scalars", "the empty list and annotations before '[' have no verdict")
	return nil
}

// runC17long: EnumRuleLong.tla - lists of 2..100 distinct scalars with one repeat placed at every (edge) pair of
// positions: accepted iff no repeat; accepted lists also named-vs-inline.
func runC17long(c *core.Ctx) error {
	type longCase struct {
		Long struct {
			Mode    string `json:"mode"`
			N, I, J int
		} `json:"long"`
		Entries []enCat `json:"entries"`
		Expect  string  `json:"expect"`
	}
	var cases []longCase
	res, err := tlc.Run(tlc.Opts{Module: "EnumRuleLong", Cfg: "EnumRuleLong.cfg", Workers: 8, OnLine: nil})
	defer res.Cleanup()
	if err != nil {
		return err
	}
	if err := res.MustOK(); err != nil {
		return err
	}
	c.AddTLC("EnumRuleLong.cfg", res)
	for _, l := range res.Lines {
		var lc longCase
		if err := json.Unmarshal([]byte(l), &lc); err != nil {
			return fmt.Errorf("bad long-list case: %v", err)
		}
		cases = append(cases, lc)
	}
	if len(cases) < 1000 {
		return fmt.Errorf("EnumRuleLong emitted %d cases", len(cases))
	}
	small := []enCat{{Text: "1", Kind: "integer"}, {Text: `"1"`, Kind: "string", Str: "1"}, {Text: `"s2"`, Kind: "string", Str: "s2"}, {Text: "64", Kind: "integer"}, {Text: `"zz"`, Kind: "string", Str: "zz"}}
	layouts := []struct{ name, open, sep, close string }{{"tight", "[", ",", "]"}, {"spaced", "[ ", ", ", " ]"}, {"lines", "[\n  ", ",\n  ", "\n]"}, {"crlf-notes", "[\r\n  ", ", // n\r\n  ", " // last\r\n]"}}
	core.ParallelFor(len(cases), func(ci int) {
		lc := cases[ci]
		var texts []string
		for _, e := range lc.Entries {
			texts = append(texts, e.Text)
		}
		where := "none"
		if lc.Long.J != 0 {
			where = fmt.Sprintf("first<=8:%v,second>=10:%v", lc.Long.I <= 8, lc.Long.J >= 10)
		}
		lay := layouts[ci%len(layouts)]
		cs := enCase{Tokens: []string{"long-list", lc.Long.Mode, where, lay.name}, Text: lay.open + strings.Join(texts, lay.sep) + lay.close, Expect: lc.Expect}
		if lc.Expect == "accept" {
			cs.Values = lc.Entries
		}
		c.CountEval(1)
		c.Report(cs, enEval(cs, nil))
		c.Nontrivial(fmt.Sprint("long:", lc.Long.Mode, lc.Long.N, lc.Long.I, lc.Long.J))
		if lc.Expect == "accept" {
			c.CountEval(2 * len(small))
			c.Report(cs, enEquiv(lc.Entries, append(append([]enCat{}, small...), lc.Entries[len(lc.Entries)-1])))
			c.Report(cs, enShared(lc.Entries, small))
		}
	})
	c.Set("long_lists", len(cases))
	return nil
}

func runC17cfg(c *core.Ctx, cfgName string) error {
	res, err := tlc.Run(tlc.Opts{Module: "EnumRule", Cfg: cfgName, Workers: 8, DumpDot: true})
	defer res.Cleanup()
	if err != nil {
		return err
	}
	if err := res.MustOK(); err != nil {
		return err
	}
	c.AddTLC(cfgName, res)
	var catRec struct {
		Cat []enCat `json:"cat"`
	}
	if len(res.Lines) == 0 {
		return fmt.Errorf("catalogue not emitted")
	}
	if err := json.Unmarshal([]byte(res.Lines[0]), &catRec); err != nil {
		return err
	}
	cat := catRec.Cat
	g, err := tlc.LoadDot(res.DotPath)
	if err != nil {
		return err
	}
	a, err := walk.FromGraph(g, "")
	if err != nil {
		return err
	}
	tokText := func(label string) (string, bool) {
		if strings.HasPrefix(label, "Scalar(") {
			var i int
			fmt.Sscanf(label, "Scalar(%d)", &i)
			return cat[i-1].Text, true
		}
		name := strings.TrimSuffix(strings.TrimPrefix(label, `Tok("`), `")`)
		return enPlain[name], false
	}
	mkCase := func(in []int, states []int) (enCase, bool) {
		var sb strings.Builder
		var toks []string
		prevNum := false
		ok := true
		for _, ci := range in {
			label := a.Classes[ci]
			t, isScalar := tokText(label)
			isNum := isScalar && (t[0] == '-' || t[0] >= '0' && t[0] <= '9')
			if isNum && prevNum {
				ok = false // two adjacent number tokens would print as one number
			}
			prevNum = isNum
			sb.WriteString(t)
			toks = append(toks, label)
		}
		st := a.State[states[len(states)-1]]
		cs := enCase{Tokens: toks, Text: sb.String()}
		status, ctl, ret := tlc.Str(st["status"]), tlc.Str(st["ctl"]), tlc.Str(st["ret"])
		items := tlc.Seq(st["items"])
		accepting := status == "ok" && (ctl == "done" || (ctl == "eol" && ret == "done"))
		switch {
		case len(states) != len(in)+1 || status == "unknown" || (accepting && len(items) == 0):
			cs.Expect = "none"
		case accepting:
			cs.Expect = "accept"
			for _, it := range items {
				cs.Values = append(cs.Values, cat[tlc.Int(it)-1])
			}
		default:
			cs.Expect = "reject"
		}
		return cs, ok
	}
	var equivMu sync.Mutex
	equivSeen := map[string]bool{}
	eval := func(in []int, states []int) {
		cs, ok := mkCase(in, states)
		c.CountEval(1)
		if !ok || cs.Expect == "none" {
			c.Inconclusive("no-verdict (annotation placement / empty list / merged tokens)")
			return
		}
		c.Report(cs, enEval(cs, cat))
		if cs.Expect == "reject" && tlc.Str(a.State[states[len(states)-1]]["status"]) == "err" {
			// EnumRule!ErrIsFinal: a refused prefix stays refused - closed off, a missed refusal shows as an accepted rule
			for _, tail := range []string{"]", ", true]"} {
				cl := cs
				cl.Text += tail
				cl.Tokens = append(append([]string{}, cs.Tokens...), "closing:"+tail)
				c.CountEval(1)
				c.Report(cl, enEval(cl, cat))
			}
		}
		if cs.Expect == "accept" {
			key := fmt.Sprint(cs.Values)
			equivMu.Lock()
			seen := equivSeen[key]
			equivSeen[key] = true
			equivMu.Unlock()
			if !seen {
				c.Report(cs, enEquiv(cs.Values, cat))
				c.Report(cs, enShared(cs.Values, cat))
				c.CountEval(3 * len(cat))
			}
		}
	}
	acc := a.Access()
	k := c.Pick(1, 2)
	edges := make([]int32, len(a.IDs)*len(a.Classes))
	core.ParallelFor(len(acc), func(si int) {
		if acc[si] == nil {
			return
		}
		a.From(acc[si], k, func(in []int, st []int) {
			for i := 1; i < len(st); i++ {
				edges[st[i-1]*len(a.Classes)+in[i-1]] = 1
			}
			eval(in, st)
			// and closed off: append the shortest completion ", ]"-free: just "]" when it makes sense
		})
	})
	// random walks that end in done
	nw := c.Pick(20000, 300000)
	core.ParallelFor(nw, func(i int) {
		rng := rand.New(rand.NewSource(c.Seed*977 + int64(i)))
		in := a.RandomWalk(rng, 4+rng.Intn(22), func(from, to int) bool {
			return tlc.Str(a.State[to]["status"]) != "ok" && rng.Intn(10) != 0
		})
		eval(in, a.Run(in))
	})
	ne := 0
	for i, e := range edges {
		if e != 0 {
			ne++
			c.Nontrivial(fmt.Sprint(cfgName, " edge:", i))
		}
	}
	c.Set("model_edges_crossed_"+cfgName, ne)
	c.Set("model_edges_total_"+cfgName, a.G.NEdge)
	c.Set("item_lists_checked_named_vs_inline_"+cfgName, len(equivSeen))
	c.Set("k", k)
	smp, _ := mkCase(acc[len(acc)-1], a.Run(acc[len(acc)-1]))
	c.Sample(smp)
	return nil
}

func init() {
	register(&core.Check{ID: "C17", Level: "model_checking", Run: runC17,
		Replay: func(c *core.Ctx, raw json.RawMessage) ([]core.Finding, error) {
			if fs, ok := objReplayCase(raw); ok {
				return fs, nil
			}
			var cs enCase
			if err := json.Unmarshal(raw, &cs); err != nil {
				return nil, err
			}
			fs := enEval(cs, nil)
			if cs.Expect == "accept" {
				cat := []enCat{}
				// catalogue values for the equivalence replay: the case's own items plus a few fixed scalars
				cat = append(cat, cs.Values...)
				cat = append(cat, enCat{Text: "1", Kind: "integer"}, enCat{Text: `"a"`, Kind: "string", Str: "a"}, enCat{Text: `"zz"`, Kind: "string", Str: "zz"}, enCat{Text: "null", Kind: "null"})
				fs = append(fs, enEquiv(cs.Values, cat)...)
				fs = append(fs, enShared(cs.Values, cat)...)
			}
			return fs, nil
		}})
}
