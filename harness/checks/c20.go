package checks

import (
	"encoding/json"
	"fmt"
	"strings"

	schema "github.com/jsightapi/jsight-schema-core"
	jbytes "github.com/jsightapi/jsight-schema-core/bytes"
	jnum "github.com/jsightapi/jsight-schema-core/json"

	"verif/harness/internal/core"
	"verif/harness/internal/tlc"
)

// C20: TypeVocab.tla enumerates all pairs of types (with the expected soft equality), number literals
// with their expected classification and the vocabulary tables; every emitted case is replayed.

type tvCase struct {
	Kind   string   `json:"kind"`
	A      string   `json:"a,omitempty"`
	B      string   `json:"b,omitempty"`
	Soft   bool     `json:"soft,omitempty"`
	Text   []string `json:"text,omitempty"`
	Lit    string   `json:"lit,omitempty"`
	Expect string   `json:"expect,omitempty"`

	Types     []string          `json:"types,omitempty"`
	Near      []string          `json:"near,omitempty"`
	Scalars   []string          `json:"scalars,omitempty"`
	JsonTypes []string          `json:"jsonTypes,omitempty"`
	Tokens    map[string]string `json:"tokens,omitempty"`
	Literals  [][]string        `json:"literals,omitempty"`
	Strings   []string          `json:"strings,omitempty"`
	BigNums   []struct {
		Text   []string `json:"text"`
		Expect string   `json:"expect"`
	} `json:"bignumbers,omitempty"`
}

func scannerKind(lit string) (kind string, panicked bool) {
	defer func() {
		if r := recover(); r != nil {
			kind, panicked = fmt.Sprint(r), true
		}
	}()
	return jnum.Guess(jbytes.NewBytes(lit)).JsonType().String(), false
}

func tvLiteral(lit, expect string) []core.Finding {
	var fs []core.Finding
	shape := numGrammarClass(lit)
	if strings.HasPrefix(lit, `"`) {
		shape = "string:" + strings.Trim(lit, `"`)
	}
	first, ferr := schema.GuessSchemaType([]byte(lit))
	for i := 0; i < 60; i++ {
		t, err := schema.GuessSchemaType([]byte(lit))
		if t != first || (err == nil) != (ferr == nil) {
			fs = append(fs, core.Finding{Class: "guess:unstable:" + shape, What: fmt.Sprintf("GuessSchemaType(%s) answered %q and then %q", lit, first, t)})
			return fs
		}
	}
	sk, p := scannerKind(lit)
	switch {
	case p && ferr != nil:
		return nil // neither classifier accepts the literal (e.g. 0e5: C13's known finding)
	case p:
		fs = append(fs, core.Finding{Class: "guess:scanner-cannot-classify:" + shape, What: fmt.Sprintf("scanner classifier fails on %s (%s) while GuessSchemaType says %q", lit, firstLineStr(sk), first)})
	case ferr != nil:
		fs = append(fs, core.Finding{Class: "guess:error:" + shape, What: fmt.Sprintf("GuessSchemaType(%s) = error %v; scanner classifier says %s", lit, ferr, sk)})
	case string(first) != sk:
		fs = append(fs, core.Finding{Class: "guess:differs-from-scanner:" + shape, What: fmt.Sprintf("GuessSchemaType(%s) = %q, scanner classifier says %q (specification: %s)", lit, first, sk, expect)})
	}
	return fs
}

func tvEval(c *core.Ctx, cs tvCase) []core.Finding {
	return core.Guard("typevocab", func() []core.Finding {
		var fs []core.Finding
		switch cs.Kind {
		case "pair":
			got := schema.SchemaType(cs.A).IsEqualSoft(schema.SchemaType(cs.B))
			if got != cs.Soft {
				fs = append(fs, core.Finding{Class: fmt.Sprintf("softeq:%s~%s", cs.A, cs.B),
					What: fmt.Sprintf("IsEqualSoft(%q, %q) = %v, documented families say %v", cs.A, cs.B, got, cs.Soft)})
			}
		case "number":
			lit := strings.Join(cs.Text, "")
			fs = append(fs, tvLiteral(lit, cs.Expect)...)
			if len(fs) == 0 && c != nil {
				if sk, p := scannerKind(lit); !p && sk != cs.Expect {
					c.Inconclusive("both classifiers agree but differ from TypeVocab!KindOfNumber")
				}
			}
		case "vocab":
			for _, t := range cs.Types {
				if !schema.IsValidType(t) {
					fs = append(fs, core.Finding{Class: "isvalid:rejects:" + t, What: "IsValidType rejects documented type " + t})
				}
			}
			for _, t := range cs.Near {
				if schema.IsValidType(t) {
					fs = append(fs, core.Finding{Class: "isvalid:accepts:" + t, What: fmt.Sprintf("IsValidType accepts %q", t)})
				}
			}
			sc := map[string]bool{}
			for _, t := range cs.Scalars {
				sc[t] = true
			}
			for _, t := range cs.Types {
				if t == "mixed" || t == "any" {
					continue // whether a wildcard is "scalar" is not settled by the statement
				}
				if schema.SchemaType(t).IsScalar() != sc[t] {
					fs = append(fs, core.Finding{Class: "isscalar:" + t, What: fmt.Sprintf("IsScalar(%s) = %v", t, !sc[t])})
				}
			}
			for _, jt := range cs.JsonTypes {
				var real string
				found := false
				for _, x := range jnum.AllTypes {
					if x.String() == jt {
						real, found = x.ToTokenType(), true
					}
				}
				st := schema.SchemaType(jt).ToTokenType()
				if !found || real != st || st != cs.Tokens[jt] {
					fs = append(fs, core.Finding{Class: "tokentype:" + jt, What: fmt.Sprintf("token type of %s: schema type says %q, JSON type says %q, specification %q", jt, st, real, cs.Tokens[jt])})
				}
			}
			if schema.SchemaType("decimal").ToTokenType() != cs.Tokens["decimal"] {
				fs = append(fs, core.Finding{Class: "tokentype:decimal", What: "token type of decimal is not number"})
			}
			for _, l := range cs.Strings {
				fs = append(fs, tvLiteral(l, "string")...)
				if sk, p := scannerKind(l); p || sk != "string" {
					fs = append(fs, core.Finding{Class: "literal-kind:string:" + strings.Trim(l, `"`), What: fmt.Sprintf("scanner classifies %s as %s, expected string", l, sk)})
				}
			}
			for _, b := range cs.BigNums {
				// texts at the edges of the machine types: both classifiers must agree with each other and, where
				// they do, the specification's kind is what the text says (C13 owns exponent range limits)
				lit := strings.Join(b.Text, "")
				bf := tvLiteral(lit, b.Expect)
				fs = append(fs, bf...)
				if sk, p := scannerKind(lit); len(bf) == 0 && !p && sk != b.Expect && !strings.ContainsAny(lit, "eE") {
					fs = append(fs, core.Finding{Class: "literal-kind:number:" + numGrammarClass(lit), What: fmt.Sprintf("both classifiers call %s %s, the text is %s", lit, sk, b.Expect)})
				}
			}
			for _, l := range cs.Literals {
				fs = append(fs, tvLiteral(l[0], l[1])...)
				if sk, p := scannerKind(l[0]); !p && sk != l[1] {
					fs = append(fs, core.Finding{Class: "literal-kind:" + l[0], What: fmt.Sprintf("scanner classifies %s as %s, expected %s", l[0], sk, l[1])})
				}
			}
		}
		return fs
	})
}

func runC20(c *core.Ctx) error {
	cfg := "TypeVocab.cfg"
	files := map[string][]byte{}
	if c.Thorough() {
		cfg = "TypeVocab_thorough.cfg"
		files[cfg] = []byte("SPECIFICATION TvSpec\nCONSTANTS\n  Chars = {\"-\",\"+\",\".\",\"0\",\"1\",\"5\",\"e\",\"E\"}\n  MaxLen = 7\nINVARIANTS Reflexive Symmetric UndefinedUnrelated ExactlyFamilies EmitPair EmitNumber EmitVocab\nCHECK_DEADLOCK FALSE\n")
	}
	res, err := tlc.Run(tlc.Opts{Module: "TypeVocab", Cfg: cfg, Workers: 8, Files: files})
	defer res.Cleanup()
	if err != nil {
		return err
	}
	if err := res.MustOK(); err != nil {
		return err
	}
	c.AddTLC(cfg, res)
	cases := make([]tvCase, 0, len(res.Lines))
	for _, l := range res.Lines {
		var cs tvCase
		if err := json.Unmarshal([]byte(l), &cs); err != nil {
			return fmt.Errorf("bad case %q: %v", l, err)
		}
		cases = append(cases, cs)
	}
	kinds := map[string]int{}
	core.ParallelFor(len(cases), func(i int) {
		cs := cases[i]
		c.CountEval(1)
		c.Report(cs, tvEval(c, cs))
	})
	for _, cs := range cases {
		kinds[cs.Kind]++
		switch cs.Kind {
		case "pair":
			c.Nontrivial("pair:" + cs.A + ":" + cs.B)
		case "number":
			c.Nontrivial("num:" + strings.Join(cs.Text, ""))
		}
	}
	if kinds["pair"] != 18*18 || kinds["vocab"] != 1 || kinds["number"] == 0 {
		return fmt.Errorf("TLC emitted %v cases; expected 324 pairs, 1 vocabulary record and number literals", kinds)
	}
	c.Set("cases_by_kind", kinds)
	c.Set("exhaustive", true)
	c.Sample(cases[len(cases)/2])
	// call histories (SchemaApi_guess.cfg): results do not depend on earlier calls, returned values stay intact
	if err := runObjHistories(c, objKinds["guess"], objPairs([]string{"1e2", "5E-1", "1.0", "3.00", "0.0", "-4.0", "1.5", "42", "\"a\"", "true", "null", "1", "\"1e5\"", "1.50", "-0", "x", "\"\\\\\""}, c.Pick(34, 120), c.Seed)); err != nil {
		return err
	}
	c.Set("rule", "every state of TypeVocab.tla: all 18x18 type pairs (16 types, the undefined type and the internal comment type) with the expected soft equality, every accepted number text up to MaxLen with its expected kind, one vocabulary record (valid names, near misses, scalar set, token types, non-number literals); each replayed (GuessSchemaType 60x per literal and compared with the scanner's classifier)")
	c.Assume = append(c.Assume, "the internal 'comment' type takes part in the soft-equality pairs only", "IsScalar of mixed/any is not judged")
	return nil
}

func init() {
	register(&core.Check{ID: "C20", Level: "model_checking", Run: runC20,
		Replay: func(c *core.Ctx, raw json.RawMessage) ([]core.Finding, error) {
			if fs, ok := objReplayCase(raw); ok {
				return fs, nil
			}
			var cs tvCase
			if err := json.Unmarshal(raw, &cs); err != nil {
				return nil, err
			}
			return tvEval(nil, cs), nil
		}})
}
