// Package core is the shared frame of every check: verdicts, known findings,
// replay files, evidence.
package core

import (
	"crypto/sha1"
	"encoding/json"
	"fmt"
	"os"
	"path/filepath"
	"runtime"
	"runtime/debug"
	"sort"
	"strings"
	"sync"
	"sync/atomic"
	"time"

	"verif/harness/internal/tlc"
)

// Finding is one way in which the real code contradicted the property on one case.
// Class identifies the failing call site / input family narrowly enough that a
// different defect of the same property gets a different class.
type Finding struct {
	Class string `json:"class"`
	What  string `json:"what"`
}

type Check struct {
	ID    string
	Level string // evidence level
	// Run generates cases (from TLC) and evaluates them through c.Eval.
	Run func(c *Ctx) error
	// Replay re-evaluates one stored case.
	Replay func(c *Ctx, raw json.RawMessage) ([]Finding, error)
}

type violation struct {
	Finding
	Case json.RawMessage
}

type Ctx struct {
	ID    string
	Tier  string
	Seed  int64
	Start time.Time

	mu        sync.Mutex
	viol      map[string]*violation // first case per class
	violCount map[string]int
	Cov       map[string]any
	Assume    []string
	samples   []any
	evals     int64
	distinct  map[string]struct{}
	inconc    map[string]int
	Infra     []string // infrastructure problems -> exit 2
}

func (c *Ctx) Thorough() bool { return c.Tier == "thorough" }

// Pick returns q for the quick tier and t for the thorough tier.
func (c *Ctx) Pick(q, t int) int {
	if c.Thorough() {
		return t
	}
	return q
}

// PickInts is Pick for lists.
func (c *Ctx) PickInts(q, t []int) []int {
	if c.Thorough() {
		return t
	}
	return q
}

func NewCtx(id, tier string, seed int64) *Ctx {
	return &Ctx{ID: id, Tier: tier, Seed: seed, Start: time.Now(), viol: map[string]*violation{}, violCount: map[string]int{},
		Cov: map[string]any{}, distinct: map[string]struct{}{}, inconc: map[string]int{}}
}

// Count one evaluated case.
func (c *Ctx) CountEval(n int) { atomic.AddInt64(&c.evals, int64(n)) }

// Nontrivial records a distinct non-trivial case key.
func (c *Ctx) Nontrivial(key string) {
	c.mu.Lock()
	c.distinct[key] = struct{}{}
	c.mu.Unlock()
}

func (c *Ctx) Inconclusive(class string) {
	c.mu.Lock()
	c.inconc[class]++
	c.mu.Unlock()
}

func (c *Ctx) Sample(s any) {
	c.mu.Lock()
	if len(c.samples) < 12 {
		c.samples = append(c.samples, s)
	}
	c.mu.Unlock()
}

func (c *Ctx) AddInt(key string, n int64) {
	c.mu.Lock()
	old, _ := c.Cov[key].(int64)
	c.Cov[key] = old + n
	c.mu.Unlock()
}

func (c *Ctx) Set(key string, v any) {
	c.mu.Lock()
	c.Cov[key] = v
	c.mu.Unlock()
}

func (c *Ctx) InfraError(format string, a ...any) {
	c.mu.Lock()
	c.Infra = append(c.Infra, fmt.Sprintf(format, a...))
	c.mu.Unlock()
}

// AddTLC folds a TLC run's counts into the evidence.
func (c *Ctx) AddTLC(name string, r *tlc.Result) {
	c.mu.Lock()
	defer c.mu.Unlock()
	st, _ := c.Cov["states"].(int64)
	tr, _ := c.Cov["transitions"].(int64)
	c.Cov["states"] = st + r.Distinct
	c.Cov["transitions"] = tr + r.Generated
	runs, _ := c.Cov["tlc_runs"].([]any)
	entry := map[string]any{"config": name, "generated": r.Generated, "distinct": r.Distinct, "depth": r.Depth, "wall_s": r.Wall}
	if r.Coverage != nil {
		entry["action_coverage"] = r.Coverage
	}
	c.Cov["tlc_runs"] = append(runs, entry)
}

// Report records findings for a case. cs is marshalled only when needed.
func (c *Ctx) Report(cs any, fs []Finding) {
	if len(fs) == 0 {
		return
	}
	raw, err := json.Marshal(cs)
	if err != nil {
		raw = []byte(fmt.Sprintf("%q", fmt.Sprint(cs)))
	}
	c.mu.Lock()
	defer c.mu.Unlock()
	for _, f := range fs {
		c.violCount[f.Class]++
		if _, ok := c.viol[f.Class]; !ok {
			c.viol[f.Class] = &violation{Finding: f, Case: raw}
		} else if len(raw) < len(c.viol[f.Class].Case) {
			c.viol[f.Class] = &violation{Finding: f, Case: raw} // keep the smallest witness
		}
	}
}

// Guard runs f, turning an escaped panic into a finding.
func Guard(site string, f func() []Finding) (out []Finding) {
	defer func() {
		if r := recover(); r != nil {
			out = append(out, Finding{Class: "panic:" + site, What: fmt.Sprintf("panic escaped from %s: %v", site, firstLine(fmt.Sprint(r)))})
			_ = debug.Stack
		}
	}()
	return f()
}

func firstLine(s string) string {
	if i := strings.IndexByte(s, '\n'); i >= 0 {
		s = s[:i]
	}
	if len(s) > 200 {
		s = s[:200]
	}
	return s
}

// ParallelFor runs f(i) for i in [0,n) on all cores.
func ParallelFor(n int, f func(i int)) {
	w := runtime.NumCPU()
	if w > n {
		w = n
	}
	if w <= 1 {
		for i := 0; i < n; i++ {
			f(i)
		}
		return
	}
	var next int64 = -1
	var wg sync.WaitGroup
	for k := 0; k < w; k++ {
		wg.Add(1)
		go func() {
			defer wg.Done()
			for {
				i := int(atomic.AddInt64(&next, 1))
				if i >= n {
					return
				}
				f(i)
			}
		}()
	}
	wg.Wait()
}

// ---- known findings ----

type KnownFinding struct {
	Property string `json:"property"`
	Class    string `json:"class"`
	What     string `json:"what"`
}
type fixedEntry struct {
	Property string `json:"property"`
	Commit   string `json:"commit"`
	What     string `json:"what"`
}
type knownFile struct {
	Findings []KnownFinding `json:"findings"`
	Fixed    []fixedEntry   `json:"fixed"`
}

func loadKnown() (knownFile, error) {
	var kf knownFile
	b, err := os.ReadFile(filepath.Join(tlc.VerifRoot(), "known_findings.json"))
	if err != nil {
		if os.IsNotExist(err) {
			return kf, nil
		}
		return kf, err
	}
	return kf, json.Unmarshal(b, &kf)
}

// Finish prints verdict lines, writes evidence and returns the exit code.
func (c *Ctx) Finish(level string, runErr error) int {
	kf, kerr := loadKnown()
	if kerr != nil {
		c.Infra = append(c.Infra, "known_findings.json: "+kerr.Error())
	}
	known := map[string]KnownFinding{}
	for _, k := range kf.Findings {
		if k.Property == c.ID {
			known[k.Class] = k
		}
	}
	classes := make([]string, 0, len(c.viol))
	for k := range c.viol {
		classes = append(classes, k)
	}
	sort.Strings(classes)
	nviol := 0
	var knownFired []string
	for _, cl := range classes {
		v := c.viol[cl]
		if k, ok := known[cl]; ok {
			fmt.Printf("KNOWN-FINDING: property=%s %s [class=%s, %d case(s) this run]\n", c.ID, k.What, cl, c.violCount[cl])
			knownFired = append(knownFired, cl)
			continue
		}
		nviol++
		dir := filepath.Join(tlc.VerifRoot(), "replays", c.ID)
		os.MkdirAll(dir, 0o755)
		h := sha1.Sum([]byte(cl))
		path := filepath.Join(dir, fmt.Sprintf("%x.json", h[:6]))
		rec := map[string]any{"property": c.ID, "class": cl, "what": v.What, "case": v.Case, "cases_in_class": c.violCount[cl]}
		b, _ := json.MarshalIndent(rec, "", " ")
		os.WriteFile(path, b, 0o644)
		fmt.Printf("VIOLATION property=%s replay=%s\n", c.ID, path)
		fmt.Printf("  class=%s (%d case(s)): %s\n", cl, c.violCount[cl], v.What)
	}
	if runErr != nil {
		c.Infra = append(c.Infra, runErr.Error())
	}
	// evidence
	cov := c.Cov
	cov["evaluations"] = c.evals
	cov["distinct_nontrivial"] = len(c.distinct)
	if len(c.samples) > 0 {
		cov["samples"] = c.samples
	} else {
		cov["samples"] = []any{"(no sample recorded)"}
	}
	if len(c.inconc) > 0 {
		cov["inconclusive"] = c.inconc
	}
	if len(knownFired) > 0 {
		cov["known_findings_fired"] = knownFired
	}
	if len(c.Infra) > 0 {
		cov["infrastructure_errors"] = c.Infra
	}
	cov["behaviours_replayed_on_impl"] = c.evals
	if _, ok := cov["traces_validated_against_impl"]; !ok {
		// direction 1 only: every evaluation is a TLC-generated behaviour replayed step by step on the real code
		cov["traces_validated_against_impl"] = c.evals
		cov["traces_validated_meaning"] = "TLC-generated behaviours replayed on the implementation (direction 1); no recorded implementation trace was validated by TLC in this check"
	} else {
		cov["traces_validated_meaning"] = "implementation traces / observations validated by TLC against the trace specification (direction 2); direction-1 replays are counted in behaviours_replayed_on_impl"
	}
	ev := map[string]any{
		"property_id": c.ID, "tier": c.Tier, "seed": c.Seed, "level": level,
		"coverage": cov, "assumptions": c.Assume, "wall_s": time.Since(c.Start).Seconds(), "violations": nviol,
	}
	if c.Assume == nil {
		ev["assumptions"] = []string{}
	}
	b, _ := json.MarshalIndent(ev, "", " ")
	os.MkdirAll(filepath.Join(tlc.VerifRoot(), "evidence"), 0o755)
	if os.Getenv("VERIF_NO_EVIDENCE") == "" {
		if err := os.WriteFile(filepath.Join(tlc.VerifRoot(), "evidence", c.ID+".json"), b, 0o644); err != nil {
			c.Infra = append(c.Infra, err.Error())
		}
	}
	fmt.Printf("%s %s seed=%d: evaluations=%d distinct_nontrivial=%d states=%v violations=%d known=%d wall=%.1fs\n",
		c.ID, c.Tier, c.Seed, c.evals, len(c.distinct), cov["states"], nviol, len(knownFired), time.Since(c.Start).Seconds())
	if nviol > 0 {
		return 1
	}
	if len(c.Infra) > 0 {
		for _, e := range c.Infra {
			fmt.Printf("INFRA-ERROR: %s\n", e)
		}
		return 2
	}
	return 0
}
