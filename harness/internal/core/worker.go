package core

import (
	"bufio"
	"bytes"
	"context"
	"encoding/json"
	"fmt"
	"os"
	"os/exec"
	"path/filepath"
	"runtime"
	"runtime/debug"
	"strings"
	"sync"
	"time"

	"verif/harness/internal/tlc"
)

// Worker processes: cases are replayed in child processes (the same binary, "worker" mode), each
// sequentially, so that (a) process-wide state (pools) sees one history at a time and (b) a crash
// that cannot be recovered (stack overflow, fatal error) or a hang is attributed to one case.

type WorkerOut struct {
	Index    int             `json:"i"`
	Findings []Finding       `json:"f,omitempty"`
	Case     json.RawMessage `json:"c,omitempty"` // set when findings exist
	Keys     []string        `json:"k,omitempty"` // non-trivial keys
	Lines    []string        `json:"l,omitempty"` // free-form lines for the parent (e.g. trace events)
	Inconc   []string        `json:"n,omitempty"`
}

// WorkerFunc evaluates one case in the worker process.
type WorkerFunc func(raw json.RawMessage) WorkerOut

var Workers = map[string]WorkerFunc{}

// WorkerMain is the entry point of `vcheck worker <name> <in> <out>`.
func WorkerMain(name, in, out string) int {
	// Cases are a few hundred bytes; a goroutine stack beyond 128 MB on them is runaway recursion.
	// The lower limit only makes that crash arrive in milliseconds instead of after a gigabyte.
	debug.SetMaxStack(128 << 20)
	fn, ok := Workers[name]
	if !ok {
		fmt.Fprintln(os.Stderr, "unknown worker", name)
		return 2
	}
	f, err := os.Open(in)
	if err != nil {
		return 2
	}
	defer f.Close()
	o, err := os.Create(out)
	if err != nil {
		return 2
	}
	defer o.Close()
	w := bufio.NewWriterSize(o, 1<<16)
	defer w.Flush()
	prog, _ := os.Create(out + ".progress")
	defer prog.Close()
	sc := bufio.NewScanner(f)
	sc.Buffer(make([]byte, 1<<20), 1<<28)
	i := 0
	for sc.Scan() {
		raw := append([]byte{}, sc.Bytes()...)
		if prog != nil {
			prog.WriteAt([]byte(fmt.Sprintf("%012d\n", i)), 0)
		}
		res := fn(raw)
		res.Index = i
		if len(res.Findings) > 0 {
			res.Case = raw
		}
		b, _ := json.Marshal(res)
		w.Write(b)
		w.WriteByte('\n')
		// every result is on disk before the next case starts: when the process dies the parent knows exactly
		// which case it died on (buffered results used to make it blame an earlier, innocent case)
		w.Flush()
		i++
	}
	if prog != nil {
		prog.WriteAt([]byte(fmt.Sprintf("%012d\n", -1)), 0)
	}
	return 0
}

type ShardOpts struct {
	Worker     string
	Procs      int           // number of worker processes (default NumCPU)
	PerCase    time.Duration // time budget per case; a shard gets len*PerCase + 30s
	Env        []string
	Binary     string // override binary (e.g. race build)
	OnOut      func(o WorkerOut, raw json.RawMessage)
	CrashClass func(raw json.RawMessage, how string) Finding // finding for a case that killed / hung the worker
	MaxCrashes int                                           // a shard is abandoned after this many dead workers (default 200)
}

// RunSharded replays cases in worker processes and folds findings into c.
func (c *Ctx) RunSharded(cases []json.RawMessage, o ShardOpts) error {
	if len(cases) == 0 {
		return nil
	}
	if o.Procs == 0 {
		o.Procs = runtime.NumCPU()
	}
	if o.Procs > len(cases) {
		o.Procs = len(cases)
	}
	if o.PerCase == 0 {
		o.PerCase = 2 * time.Second
	}
	bin := o.Binary
	if bin == "" {
		bin = os.Args[0]
	}
	dir, err := tlc.Scratch("shards-" + o.Worker)
	if err != nil {
		return err
	}
	defer os.RemoveAll(dir)
	type shard struct{ idx []int }
	shards := make([]shard, o.Procs)
	for i := range cases {
		shards[i%o.Procs].idx = append(shards[i%o.Procs].idx, i)
	}
	var wg sync.WaitGroup
	var mu sync.Mutex
	var firstErr error
	for si := range shards {
		wg.Add(1)
		go func(si int) {
			defer wg.Done()
			pending := shards[si].idx
			round, crashFindings := 0, 0
			solo := false // the next round runs one case alone: the shard ran out of time on it
			for len(pending) > 0 {
				round++
				rest := pending
				if solo {
					pending = pending[:1]
				}
				in := filepath.Join(dir, fmt.Sprintf("s%d-%d.in", si, round))
				out := filepath.Join(dir, fmt.Sprintf("s%d-%d.out", si, round))
				f, err := os.Create(in)
				if err != nil {
					mu.Lock()
					firstErr = err
					mu.Unlock()
					return
				}
				bw := bufio.NewWriter(f)
				for _, ci := range pending {
					// one case per line: cases that come from a (pretty-printed) replay file are compacted
					var cb bytes.Buffer
					if json.Compact(&cb, cases[ci]) == nil {
						bw.Write(cb.Bytes())
					} else {
						bw.Write(cases[ci])
					}
					bw.WriteByte('\n')
				}
				bw.Flush()
				f.Close()
				budget := time.Duration(len(pending))*o.PerCase/4 + 60*time.Second
				if solo {
					budget = 10*o.PerCase + 120*time.Second
				}
				ctx, cancel := context.WithTimeout(context.Background(), budget)
				cmd := exec.CommandContext(ctx, bin, "worker", o.Worker, in, out)
				cmd.Env = append(os.Environ(), o.Env...)
				var stderr strings.Builder
				cmd.Stderr = &limitedWriter{w: &stderr, n: 1 << 16}
				_ = cmd.Run()
				timedOut := ctx.Err() != nil
				cancel()
				// read results
				done := 0
				if of, err := os.Open(out); err == nil {
					sc := bufio.NewScanner(of)
					sc.Buffer(make([]byte, 1<<20), 1<<28)
					for sc.Scan() {
						var wo WorkerOut
						if json.Unmarshal(sc.Bytes(), &wo) != nil {
							break
						}
						ci := pending[wo.Index]
						c.CountEval(1)
						for _, k := range wo.Keys {
							c.Nontrivial(k)
						}
						for _, n := range wo.Inconc {
							c.Inconclusive(n)
						}
						if len(wo.Findings) > 0 {
							c.Report(cases[ci], wo.Findings)
						}
						if o.OnOut != nil {
							o.OnOut(wo, cases[ci])
						}
						done = wo.Index + 1
					}
					of.Close()
				}
				if done >= len(pending) {
					if !solo {
						return
					}
					pending, solo = rest[1:], false
					continue
				}
				if timedOut && !solo {
					// the time limit of the whole shard ran out while this case was running: that says little about
					// the case; it gets a run of its own before anything is concluded
					pending, solo = rest[done:], true
					continue
				}
				if solo {
					pending = rest
					done = 0
				}
				solo = false
				// the worker died or hung on case pending[done]
				how := "worker process died"
				if timedOut {
					how = "worker process hung (time limit)"
				}
				se := stderr.String()
				if len(se) > 6000 {
					se = se[:6000]
				}
				culprit := pending[done]
				if o.CrashClass != nil {
					fd := o.CrashClass(cases[culprit], how+": "+strings.TrimSpace(se))
					c.CountEval(1)
					if fd.Class != "" {
						c.Report(cases[culprit], []Finding{fd})
						crashFindings++
					}
				} else {
					c.InfraError("worker %s %s on case %s: %s", o.Worker, how, cases[culprit], se)
				}
				pending = pending[done+1:]
				maxRounds := 200
				if o.MaxCrashes > 0 {
					maxRounds = o.MaxCrashes
				}
				if round > maxRounds {
					if crashFindings > maxRounds/2 {
						// more than a hundred dead workers have been reported as findings already: the verdict is a
						// violation; the rest of this shard is not run (every further crash costs a process start)
						c.Inconclusive(fmt.Sprintf("not-run-after-%d-crashes-in-one-shard", round))
						return
					}
					c.InfraError("worker %s: too many crashes in one shard", o.Worker)
					return
				}
			}
		}(si)
	}
	wg.Wait()
	return firstErr
}

type limitedWriter struct {
	w *strings.Builder
	n int
}

func (l *limitedWriter) Write(p []byte) (int, error) {
	if l.w.Len() < l.n {
		k := l.n - l.w.Len()
		if k > len(p) {
			k = len(p)
		}
		l.w.Write(p[:k])
	}
	return len(p), nil
}
