// Package corpus harvests the string literals of the repository's own test files.
package corpus

import (
	"go/ast"
	"go/parser"
	"go/token"
	"os"
	"path/filepath"
	"sort"
	"strconv"
	"strings"
)

type Item struct {
	Src  string // file:line
	Text string
}

// Harvest returns every distinct string literal (<= maxLen bytes) of *_test.go files under dirs (relative to /repo).
func Harvest(maxLen int, dirs ...string) []Item {
	seen := map[string]bool{}
	var out []Item
	for _, d := range dirs {
		root := filepath.Join("/repo", d)
		filepath.Walk(root, func(p string, info os.FileInfo, err error) error {
			if err != nil || info.IsDir() || !strings.HasSuffix(p, "_test.go") {
				return nil
			}
			fset := token.NewFileSet()
			f, err := parser.ParseFile(fset, p, nil, 0)
			if err != nil {
				return nil
			}
			ast.Inspect(f, func(n ast.Node) bool {
				bl, ok := n.(*ast.BasicLit)
				if !ok || bl.Kind != token.STRING {
					return true
				}
				s, err := strconv.Unquote(bl.Value)
				if err != nil || len(s) > maxLen || seen[s] {
					return true
				}
				seen[s] = true
				rel, _ := filepath.Rel("/repo", p)
				out = append(out, Item{Src: rel + ":" + strconv.Itoa(fset.Position(bl.Pos()).Line), Text: s})
				return true
			})
			return nil
		})
	}
	sort.Slice(out, func(i, j int) bool {
		return out[i].Src < out[j].Src || out[i].Src == out[j].Src && out[i].Text < out[j].Text
	})
	return out
}
