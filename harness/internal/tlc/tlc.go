package tlc

import (
	"bufio"
	"bytes"
	"context"
	"fmt"
	"io"
	"os"
	"os/exec"
	"path/filepath"
	"regexp"
	"strconv"
	"strings"
	"time"
)

const Jar = "/opt/veriftools/tla/tla2tools.jar:/opt/veriftools/tla/CommunityModules-deps.jar"

// Root of /verif (overridable for tests).
func VerifRoot() string {
	if r := os.Getenv("VERIF_ROOT"); r != "" {
		return r
	}
	return "/verif"
}

type Opts struct {
	Module   string // module name, e.g. "OrderedMap" (file found under spec/**)
	Cfg      string // cfg file name, e.g. "OrderedMap_quick.cfg"
	Workers  int    // default 8
	Timeout  time.Duration
	DumpDot  bool   // -dump dot,actionlabels
	Simulate string // e.g. "num=100" -> -simulate num=100
	Depth    int    // -depth
	Seed     int64  // -seed (simulate)
	Coverage bool
	Extra    []string
	Env      []string // extra environment (IOEnv)
	JavaOpts []string
	Files    map[string][]byte // extra files to drop into the scratch dir (traces, generated cfg)
	OnLine   func(line string) // called for every PrintT payload line (unquoted) if set; lines are then not kept
	HeapGB   int
}

type Result struct {
	Generated, Distinct int64
	Depth               int
	Lines               []string // PrintT'd strings (unquoted JSON) in output order
	Retries             int      // runs thrown away because of an internal TLC exception
	Violated            string   // invariant/property name if violated
	ErrorText           string   // other TLC error
	Finished            bool
	Dir                 string // scratch dir (kept until Cleanup)
	DotPath             string
	Coverage            map[string]int64 // action name -> count (if Coverage)
	Raw                 string           // tail of the output
	Wall                float64
}

func (r *Result) Cleanup() {
	if r != nil && r.Dir != "" {
		os.RemoveAll(r.Dir)
	}
}

var (
	reStates = regexp.MustCompile(`^(\d+) states generated, (\d+) distinct states found`)
	reDepth  = regexp.MustCompile(`depth of the complete state graph search is (\d+)`)
	reInv    = regexp.MustCompile(`(?:Invariant|Action property|Temporal property|Property) (\S+) (?:is|was) violated`)
	reCov    = regexp.MustCompile(`^<(\w+) line \d+, col \d+ to line \d+, col \d+ of module \w+>: (\d+):(\d+)`)
)

func specFiles() ([]string, error) {
	var out []string
	err := filepath.Walk(filepath.Join(VerifRoot(), "spec"), func(p string, info os.FileInfo, err error) error {
		if err != nil {
			return err
		}
		if !info.IsDir() && (strings.HasSuffix(p, ".tla") || strings.HasSuffix(p, ".cfg")) {
			out = append(out, p)
		}
		return nil
	})
	return out, err
}

var scratchSeq int

// Scratch creates a fresh scratch dir under /verif/.scratch.
func Scratch(tag string) (string, error) {
	scratchSeq++
	d := filepath.Join(VerifRoot(), ".scratch", fmt.Sprintf("%s-%d-%d", tag, os.Getpid(), scratchSeq))
	return d, os.MkdirAll(d, 0o755)
}

// Run runs TLC. A run that dies of an internal TLC exception that a re-run does not reproduce (seen once in a fresh
// sandbox: "Attempted to select nonexistent field "n" from the record [i |-> 1, n |-> ...]" - workers racing on the
// normalisation of a shared record value) is repeated, the third time with one worker; PrintT lines are handed to
// the caller only from the run that counts. An exception that persists is reported as it is.
func Run(o Opts) (*Result, error) {
	user := o.OnLine
	for attempt := 1; ; attempt++ {
		var buf []string
		o.OnLine = func(l string) { buf = append(buf, l) }
		if attempt == 3 {
			o.Workers = 1
		}
		res, err := runOnce(o)
		flaky := res != nil && res.Violated == "" && strings.Contains(res.ErrorText, "TLC threw an unexpected exception") && o.Workers != 1
		if flaky && attempt < 3 {
			fmt.Fprintf(os.Stderr, "tlc: internal exception in %s (attempt %d), running again\n", o.Cfg, attempt)
			res.Cleanup()
			continue
		}
		if res != nil {
			res.Retries = attempt - 1
			if user != nil {
				for _, l := range buf {
					user(l)
				}
			} else {
				res.Lines = buf
			}
		}
		return res, err
	}
}

func runOnce(o Opts) (*Result, error) {
	start := time.Now()
	dir, err := Scratch(o.Module)
	if err != nil {
		return nil, err
	}
	res := &Result{Dir: dir}
	files, err := specFiles()
	if err != nil {
		return res, err
	}
	for _, f := range files {
		b, err := os.ReadFile(f)
		if err != nil {
			return res, err
		}
		if err := os.WriteFile(filepath.Join(dir, filepath.Base(f)), b, 0o644); err != nil {
			return res, err
		}
	}
	for name, b := range o.Files {
		if err := os.WriteFile(filepath.Join(dir, name), b, 0o644); err != nil {
			return res, err
		}
	}
	if o.Workers == 0 {
		o.Workers = 8
	}
	if o.Timeout == 0 {
		o.Timeout = 10 * time.Minute
	}
	heap := o.HeapGB
	if heap == 0 {
		heap = 8
	}
	args := []string{"-XX:+UseParallelGC", fmt.Sprintf("-Xmx%dg", heap), "-Xss64m"}
	args = append(args, o.JavaOpts...)
	args = append(args, "-cp", Jar, "tlc2.TLC", "-metadir", filepath.Join(dir, "md"), "-config", o.Cfg, "-workers", strconv.Itoa(o.Workers))
	if o.DumpDot {
		res.DotPath = filepath.Join(dir, "graph.dot")
		args = append(args, "-dump", "dot,actionlabels", res.DotPath)
	}
	if o.Simulate != "" {
		args = append(args, "-simulate", o.Simulate)
		if o.Depth > 0 {
			args = append(args, "-depth", strconv.Itoa(o.Depth))
		}
		args = append(args, "-seed", strconv.FormatInt(o.Seed, 10))
	}
	if o.Coverage {
		args = append(args, "-coverage", "1")
	}
	args = append(args, o.Extra...)
	args = append(args, o.Module+".tla")
	ctx, cancel := context.WithTimeout(context.Background(), o.Timeout)
	defer cancel()
	cmd := exec.CommandContext(ctx, "java", args...)
	cmd.Dir = dir
	cmd.Env = append(os.Environ(), o.Env...)
	pr, pw := io.Pipe()
	cmd.Stdout = pw
	cmd.Stderr = pw
	var tail bytes.Buffer
	done := make(chan struct{})
	go func() {
		defer close(done)
		sc := bufio.NewScanner(pr)
		sc.Buffer(make([]byte, 1<<20), 1<<28)
		inErr := false
		for sc.Scan() {
			line := sc.Text()
			if len(line) > 1 && line[0] == '"' && line[len(line)-1] == '"' {
				s, err := strconv.Unquote(line)
				if err != nil {
					s = strings.ReplaceAll(line[1:len(line)-1], `\"`, `"`)
				}
				if o.OnLine != nil {
					o.OnLine(s)
				} else {
					res.Lines = append(res.Lines, s)
				}
				continue
			}
			if tail.Len() < 1<<20 {
				tail.WriteString(line)
				tail.WriteByte('\n')
			}
			if m := reStates.FindStringSubmatch(line); m != nil {
				res.Generated, _ = strconv.ParseInt(m[1], 10, 64)
				res.Distinct, _ = strconv.ParseInt(m[2], 10, 64)
			}
			if m := reDepth.FindStringSubmatch(line); m != nil {
				res.Depth, _ = strconv.Atoi(m[1])
			}
			if m := reInv.FindStringSubmatch(line); m != nil && res.Violated == "" {
				res.Violated = m[1]
			}
			if strings.Contains(line, "Model checking completed. No error has been found.") || strings.HasPrefix(line, "Finished in") {
				res.Finished = true
			}
			if m := reCov.FindStringSubmatch(line); m != nil {
				if res.Coverage == nil {
					res.Coverage = map[string]int64{}
				}
				n, _ := strconv.ParseInt(m[3], 10, 64)
				res.Coverage[m[1]] += n
			}
			if strings.HasPrefix(line, "Error:") {
				inErr = true
			}
			if inErr && len(res.ErrorText) < 4000 {
				res.ErrorText += line + "\n"
			}
		}
	}()
	runErr := cmd.Run()
	pw.Close()
	<-done
	res.Raw = tail.String()
	res.Wall = time.Since(start).Seconds()
	if ctx.Err() != nil {
		return res, fmt.Errorf("tlc timeout after %s (%s)", o.Timeout, o.Cfg)
	}
	if runErr != nil && res.Violated == "" && res.ErrorText == "" {
		return res, fmt.Errorf("tlc failed: %v\n%s", runErr, lastLines(res.Raw, 30))
	}
	return res, nil
}

func lastLines(s string, n int) string {
	l := strings.Split(strings.TrimRight(s, "\n"), "\n")
	if len(l) > n {
		l = l[len(l)-n:]
	}
	return strings.Join(l, "\n")
}

// MustOK returns an error unless TLC finished without any violation or error.
func (r *Result) MustOK() error {
	if r.Violated != "" {
		return fmt.Errorf("TLC: %s violated\n%s", r.Violated, lastLines(r.Raw, 40))
	}
	if r.ErrorText != "" {
		return fmt.Errorf("TLC error: %s", r.ErrorText)
	}
	if !r.Finished {
		return fmt.Errorf("TLC did not finish\n%s", lastLines(r.Raw, 30))
	}
	return nil
}

var reRejected = regexp.MustCompile(`TRACE-REJECTED-AT-LINE", (\d+)`)
var reBadLine = regexp.MustCompile(`TRACE-BAD-LINE", (\d+)`)

// ValidateTrace runs a trace specification over trace.ndjson (lines). Trace specifications consume
// a line that no action explains with a TraceBad step that prints its number; ValidateTrace returns
// those 1-based line numbers. A trace that stops being consumed altogether is an error.
func ValidateTrace(module, cfg string, lines [][]byte, extraFiles map[string][]byte) ([]int, *Result, error) {
	var buf bytes.Buffer
	for _, l := range lines {
		buf.Write(l)
		buf.WriteByte('\n')
	}
	files := map[string][]byte{"trace.ndjson": buf.Bytes()}
	for k, v := range extraFiles {
		files[k] = v
	}
	res, err := Run(Opts{Module: module, Cfg: cfg, Workers: 1, Files: files, Timeout: 30 * time.Minute,
		JavaOpts: []string{"-Dtlc2.tool.queue.IStateQueue=StateDeque"}})
	if err != nil {
		return nil, res, err
	}
	var bad []int
	for _, m := range reBadLine.FindAllStringSubmatch(res.Raw, -1) {
		n, _ := strconv.Atoi(m[1])
		bad = append(bad, n)
	}
	if m := reRejected.FindStringSubmatch(res.Raw); m != nil {
		return bad, res, fmt.Errorf("trace not consumed beyond line %s of %d (module %s): malformed trace or trace spec", m[1], len(lines), module)
	}
	if res.ErrorText != "" {
		return bad, res, fmt.Errorf("TLC error during trace validation: %s", res.ErrorText)
	}
	if !res.Finished {
		return bad, res, fmt.Errorf("TLC did not finish trace validation\n%s", lastLines(res.Raw, 20))
	}
	if res.Distinct != int64(len(lines))+1 {
		return bad, res, fmt.Errorf("trace validation explored %d states for %d lines", res.Distinct, len(lines))
	}
	return bad, res, nil
}

// SimulateBehaviours runs `tlc -simulate file=...` and returns the behaviours as sequences of parsed states.
func SimulateBehaviours(module, cfg string, num, depth int, seed int64) ([][]map[string]any, *Result, error) {
	dir, err := Scratch(module + "-simtraces")
	if err != nil {
		return nil, nil, err
	}
	defer os.RemoveAll(dir)
	res, err := Run(Opts{Module: module, Cfg: cfg, Workers: 1, Simulate: fmt.Sprintf("file=%s/b,num=%d", dir, num), Depth: depth, Seed: seed})
	if err != nil {
		return nil, res, err
	}
	if res.Violated != "" || res.ErrorText != "" {
		return nil, res, fmt.Errorf("simulation of %s: %s %s", module, res.Violated, res.ErrorText)
	}
	files, _ := filepath.Glob(filepath.Join(dir, "b_*"))
	var out [][]map[string]any
	for _, f := range files {
		b, err := os.ReadFile(f)
		if err != nil {
			return nil, res, err
		}
		var beh []map[string]any
		for _, chunk := range strings.Split(string(b), "STATE_")[1:] {
			i := strings.Index(chunk, "==")
			if i < 0 {
				continue
			}
			body := chunk[i+2:]
			if j := strings.Index(body, "\n\n"); j >= 0 {
				body = body[:j]
			}
			body = strings.TrimRight(strings.TrimSpace(body), "=")
			st, err := ParseState(body)
			if err != nil {
				return nil, res, fmt.Errorf("%s: %v", f, err)
			}
			beh = append(beh, st)
		}
		out = append(out, beh)
	}
	return out, res, nil
}
