package tlc

import (
	"bufio"
	"fmt"
	"os"
	"strings"
)

// Graph is a labelled transition system dumped by `tlc -dump dot,actionlabels`.
type Graph struct {
	Init  []string
	State map[string]map[string]any
	Edges map[string][]Edge // by source id, in file order, duplicates removed
	Order []string          // node ids in file order
	NEdge int
}
type Edge struct {
	From, To string
	Action   string
	Args     []any
	Label    string
}

func unescapeDot(s string) string {
	var sb strings.Builder
	for i := 0; i < len(s); i++ {
		if s[i] == '\\' && i+1 < len(s) {
			i++
			switch s[i] {
			case 'n':
				sb.WriteByte('\n')
			case '"':
				sb.WriteByte('"')
			case '\\':
				sb.WriteByte('\\')
			default:
				sb.WriteByte('\\')
				sb.WriteByte(s[i])
			}
			continue
		}
		sb.WriteByte(s[i])
	}
	return sb.String()
}

// readQuoted reads a DOT quoted string starting at s[i]=='"'; returns raw content and index after closing quote.
func readQuoted(s string, i int) (string, int) {
	j := i + 1
	for j < len(s) {
		if s[j] == '\\' {
			j += 2
			continue
		}
		if s[j] == '"' {
			break
		}
		j++
	}
	return s[i+1 : j], j + 1
}

func LoadDot(path string) (*Graph, error) {
	f, err := os.Open(path)
	if err != nil {
		return nil, err
	}
	defer f.Close()
	g := &Graph{State: map[string]map[string]any{}, Edges: map[string][]Edge{}}
	sc := bufio.NewScanner(f)
	sc.Buffer(make([]byte, 1<<20), 1<<28)
	seen := map[string]bool{}
	for sc.Scan() {
		line := sc.Text()
		if len(line) == 0 || !(line[0] == '-' || line[0] >= '0' && line[0] <= '9') {
			continue
		}
		sp := strings.IndexByte(line, ' ')
		if sp < 0 {
			continue
		}
		id := line[:sp]
		rest := line[sp+1:]
		if strings.HasPrefix(rest, "-> ") {
			rest = rest[3:]
			sp2 := strings.IndexByte(rest, ' ')
			to := rest[:sp2]
			li := strings.Index(rest, "label=\"")
			if li < 0 {
				return nil, fmt.Errorf("edge without label: %s", line)
			}
			raw, _ := readQuoted(rest, li+6)
			label := unescapeDot(raw)
			key := id + ">" + to + ">" + label
			if seen[key] {
				continue
			}
			seen[key] = true
			name, args, err := ParseAction(label)
			if err != nil {
				return nil, fmt.Errorf("edge label %q: %v", label, err)
			}
			g.Edges[id] = append(g.Edges[id], Edge{From: id, To: to, Action: name, Args: args, Label: label})
			g.NEdge++
			continue
		}
		li := strings.Index(rest, "label=\"")
		if li < 0 {
			continue
		}
		raw, end := readQuoted(rest, li+6)
		st, err := ParseState(unescapeDot(raw))
		if err != nil {
			return nil, fmt.Errorf("node %s: %v", id, err)
		}
		if _, dup := g.State[id]; !dup {
			g.Order = append(g.Order, id)
		}
		g.State[id] = st
		if strings.Contains(rest[end:], "style = filled") {
			g.Init = append(g.Init, id)
		}
	}
	return g, sc.Err()
}
