// Package tlc runs TLC and parses what it prints: state counts, PrintT lines,
// DOT dumps of labelled state graphs and TLA+ values.
package tlc

import (
	"fmt"
	"strconv"
	"strings"
)

// Set is a TLA+ set value; Fn a function printed as (a :> b @@ ...).
type Set []any
type FnPair struct{ K, V any }
type Fn []FnPair

type vparser struct {
	s string
	i int
}

// ParseValue parses a TLA+ value as TLC prints it.
func ParseValue(s string) (any, error) {
	p := &vparser{s: s}
	v, err := p.value()
	if err != nil {
		return nil, err
	}
	p.ws()
	if p.i != len(p.s) {
		return nil, fmt.Errorf("trailing text at %d in %q", p.i, s)
	}
	return v, nil
}

func (p *vparser) ws() {
	for p.i < len(p.s) && (p.s[p.i] == ' ' || p.s[p.i] == '\n' || p.s[p.i] == '\t' || p.s[p.i] == '\r') {
		p.i++
	}
}

func (p *vparser) has(t string) bool {
	p.ws()
	return strings.HasPrefix(p.s[p.i:], t)
}

func (p *vparser) eat(t string) bool {
	if p.has(t) {
		p.i += len(t)
		return true
	}
	return false
}

func (p *vparser) list(close string) ([]any, error) {
	var out []any
	if p.eat(close) {
		return out, nil
	}
	for {
		v, err := p.value()
		if err != nil {
			return nil, err
		}
		out = append(out, v)
		if p.eat(",") {
			continue
		}
		if p.eat(close) {
			return out, nil
		}
		return nil, fmt.Errorf("expected , or %s at %d in %q", close, p.i, p.s)
	}
}

func (p *vparser) value() (any, error) {
	p.ws()
	if p.i >= len(p.s) {
		return nil, fmt.Errorf("unexpected end in %q", p.s)
	}
	switch {
	case p.eat("<<"):
		l, err := p.list(">>")
		if err != nil {
			return nil, err
		}
		if l == nil {
			l = []any{}
		}
		return l, nil
	case p.eat("{"):
		l, err := p.list("}")
		return Set(l), err
	case p.eat("["):
		rec := map[string]any{}
		if p.eat("]") {
			return rec, nil
		}
		for {
			p.ws()
			j := p.i
			for j < len(p.s) && (p.s[j] == '_' || p.s[j] >= '0' && p.s[j] <= '9' || p.s[j] >= 'a' && p.s[j] <= 'z' || p.s[j] >= 'A' && p.s[j] <= 'Z') {
				j++
			}
			name := p.s[p.i:j]
			p.i = j
			if !p.eat("|->") {
				return nil, fmt.Errorf("expected |-> at %d in %q", p.i, p.s)
			}
			v, err := p.value()
			if err != nil {
				return nil, err
			}
			rec[name] = v
			if p.eat(",") {
				continue
			}
			if p.eat("]") {
				return rec, nil
			}
			return nil, fmt.Errorf("expected , or ] at %d in %q", p.i, p.s)
		}
	case p.eat("("):
		var f Fn
		for {
			k, err := p.value()
			if err != nil {
				return nil, err
			}
			if !p.eat(":>") {
				return nil, fmt.Errorf("expected :> at %d in %q", p.i, p.s)
			}
			v, err := p.value()
			if err != nil {
				return nil, err
			}
			f = append(f, FnPair{k, v})
			if p.eat("@@") {
				continue
			}
			if p.eat(")") {
				return f, nil
			}
			return nil, fmt.Errorf("expected @@ or ) at %d in %q", p.i, p.s)
		}
	case p.s[p.i] == '"':
		j := p.i + 1
		var sb strings.Builder
		for j < len(p.s) && p.s[j] != '"' {
			if p.s[j] == '\\' && j+1 < len(p.s) {
				j++
				switch p.s[j] {
				case 'n':
					sb.WriteByte('\n')
				case 't':
					sb.WriteByte('\t')
				case 'r':
					sb.WriteByte('\r')
				case 'f':
					sb.WriteByte('\f')
				default:
					sb.WriteByte(p.s[j])
				}
			} else {
				sb.WriteByte(p.s[j])
			}
			j++
		}
		if j >= len(p.s) {
			return nil, fmt.Errorf("unterminated string in %q", p.s)
		}
		p.i = j + 1
		return sb.String(), nil
	case p.eat("TRUE"):
		return true, nil
	case p.eat("FALSE"):
		return false, nil
	default:
		j := p.i
		if j < len(p.s) && p.s[j] == '-' {
			j++
		}
		for j < len(p.s) && p.s[j] >= '0' && p.s[j] <= '9' {
			j++
		}
		if j == p.i {
			// model value / identifier
			for j < len(p.s) && (p.s[j] == '_' || p.s[j] >= '0' && p.s[j] <= '9' || p.s[j] >= 'a' && p.s[j] <= 'z' || p.s[j] >= 'A' && p.s[j] <= 'Z') {
				j++
			}
			if j == p.i {
				return nil, fmt.Errorf("unexpected %q at %d in %q", p.s[p.i], p.i, p.s)
			}
			id := p.s[p.i:j]
			p.i = j
			return id, nil
		}
		n, err := strconv.Atoi(p.s[p.i:j])
		p.i = j
		return n, err
	}
}

// ParseState parses "/\ a = v\n/\ b = w" into a map.
func ParseState(s string) (map[string]any, error) {
	out := map[string]any{}
	parts := strings.Split(s, "/\\ ")
	for _, part := range parts {
		part = strings.TrimSpace(part)
		if part == "" {
			continue
		}
		eq := strings.Index(part, " = ")
		if eq < 0 {
			return nil, fmt.Errorf("bad conjunct %q", part)
		}
		v, err := ParseValue(part[eq+3:])
		if err != nil {
			return nil, err
		}
		out[part[:eq]] = v
	}
	return out, nil
}

// ParseAction parses `Name(arg, arg)` or `Name`.
func ParseAction(s string) (string, []any, error) {
	s = strings.TrimSpace(s)
	op := strings.IndexByte(s, '(')
	if op < 0 {
		return s, nil, nil
	}
	p := &vparser{s: s, i: op + 1}
	args, err := p.list(")")
	return s[:op], args, err
}

// Helpers to read parsed values.
func Str(v any) string {
	if s, ok := v.(string); ok {
		return s
	}
	return fmt.Sprint(v)
}
func Int(v any) int {
	if n, ok := v.(int); ok {
		return n
	}
	return 0
}
func Bool(v any) bool { b, _ := v.(bool); return b }
func Seq(v any) []any {
	switch t := v.(type) {
	case []any:
		return t
	case Set:
		return []any(t)
	}
	return nil
}
func Strs(v any) []string {
	var out []string
	for _, x := range Seq(v) {
		out = append(out, Str(x))
	}
	return out
}

// Rec returns a record/function with string keys as a map. The empty function prints as <<>>.
func Rec(v any) map[string]any {
	switch t := v.(type) {
	case map[string]any:
		return t
	case Fn:
		m := map[string]any{}
		for _, p := range t {
			m[Str(p.K)] = p.V
		}
		return m
	}
	return map[string]any{}
}
