// Package walk turns a TLC-dumped labelled state graph of a byte-class automaton
// (single action Feed(class)) into conformance test suites: all strings up to a
// length, transition cover, W-method suites, random walks.
package walk

import (
	"fmt"
	"math/rand"
	"sort"

	"verif/harness/internal/tlc"
)

type Automaton struct {
	G       *tlc.Graph
	Init    int
	IDs     []string       // index -> node id
	Idx     map[string]int // node id -> index
	Classes []string       // sorted alphabet
	CIdx    map[string]int
	Next    [][]int            // state x class -> state (-1: no edge = absorbing)
	State   []map[string]any   // parsed state per index
	Out     func(s int) string // output signature used for distinguishing states
}

// FromGraph builds the automaton. action is the edge action name whose single argument is the class;
// with action == "" every distinct edge label is a class of its own.
func FromGraph(g *tlc.Graph, action string) (*Automaton, error) {
	a := &Automaton{G: g, Idx: map[string]int{}, CIdx: map[string]int{}}
	if len(g.Init) != 1 {
		return nil, fmt.Errorf("expected 1 initial state, got %d", len(g.Init))
	}
	for _, id := range g.Order {
		a.Idx[id] = len(a.IDs)
		a.IDs = append(a.IDs, id)
		a.State = append(a.State, g.State[id])
	}
	cls := map[string]bool{}
	for _, es := range g.Edges {
		for _, e := range es {
			if action == "" {
				cls[e.Label] = true
			} else if e.Action == action && len(e.Args) == 1 {
				cls[tlc.Str(e.Args[0])] = true
			}
		}
	}
	for c := range cls {
		a.Classes = append(a.Classes, c)
	}
	sort.Strings(a.Classes)
	for i, c := range a.Classes {
		a.CIdx[c] = i
	}
	a.Next = make([][]int, len(a.IDs))
	for i := range a.Next {
		a.Next[i] = make([]int, len(a.Classes))
		for j := range a.Next[i] {
			a.Next[i][j] = -1
		}
	}
	for from, es := range g.Edges {
		fi := a.Idx[from]
		for _, e := range es {
			if action != "" && (e.Action != action || len(e.Args) != 1) {
				continue
			}
			ti, ok := a.Idx[e.To]
			if !ok {
				return nil, fmt.Errorf("edge to unknown node %s", e.To)
			}
			ci := a.CIdx[e.Label]
			if action != "" {
				ci = a.CIdx[tlc.Str(e.Args[0])]
			}
			if a.Next[fi][ci] != -1 && a.Next[fi][ci] != ti {
				return nil, fmt.Errorf("nondeterministic automaton at %s on %s", from, e.Label)
			}
			a.Next[fi][ci] = ti
		}
	}
	a.Init = a.Idx[g.Init[0]]
	return a, nil
}

// Live reports whether state s has outgoing edges.
func (a *Automaton) Live(s int) bool {
	for _, t := range a.Next[s] {
		if t >= 0 {
			return true
		}
	}
	return false
}

// Run returns the states visited (len(in)+1 entries, truncated at the first absorbing step).
func (a *Automaton) Run(in []int) []int {
	st := []int{a.Init}
	s := a.Init
	for _, c := range in {
		t := a.Next[s][c]
		if t < 0 {
			break
		}
		s = t
		st = append(st, s)
	}
	return st
}

// Access returns for every state a shortest class string reaching it.
func (a *Automaton) Access() [][]int {
	acc := make([][]int, len(a.IDs))
	seen := make([]bool, len(a.IDs))
	seen[a.Init] = true
	acc[a.Init] = []int{}
	q := []int{a.Init}
	for len(q) > 0 {
		s := q[0]
		q = q[1:]
		for c, t := range a.Next[s] {
			if t >= 0 && !seen[t] {
				seen[t] = true
				acc[t] = append(append([]int{}, acc[s]...), c)
				q = append(q, t)
			}
		}
	}
	return acc
}

// AllStrings visits every class string of length <= n reachable without passing an absorbing state
// (a string is visited when it reaches an absorbing state, but not extended).
func (a *Automaton) AllStrings(n int, visit func(in []int, states []int)) {
	in := make([]int, 0, n)
	st := make([]int, 1, n+1)
	st[0] = a.Init
	var rec func()
	rec = func() {
		visit(in, st)
		if len(in) == n {
			return
		}
		s := st[len(st)-1]
		for c, t := range a.Next[s] {
			if t < 0 {
				continue
			}
			in = append(in, c)
			st = append(st, t)
			rec()
			in = in[:len(in)-1]
			st = st[:len(st)-1]
		}
	}
	rec()
}

// AllStringsParallel splits AllStrings by first class; visit must be concurrency-safe. Returns prefixes to dispatch.
func (a *Automaton) Prefixes(depth int) [][]int {
	var out [][]int
	a.AllStrings(depth, func(in []int, st []int) {
		if len(in) == depth || !a.Live(st[len(st)-1]) {
			out = append(out, append([]int{}, in...))
		}
	})
	return out
}

// From visits all extensions (length 0..n) of prefix.
func (a *Automaton) From(prefix []int, n int, visit func(in []int, states []int)) {
	st := a.Run(prefix)
	if len(st) != len(prefix)+1 {
		return
	}
	in := append(make([]int, 0, len(prefix)+n), prefix...)
	base := len(prefix)
	var rec func()
	rec = func() {
		visit(in, st)
		if len(in)-base == n {
			return
		}
		s := st[len(st)-1]
		for c, t := range a.Next[s] {
			if t < 0 {
				continue
			}
			in = append(in, c)
			st = append(st, t)
			rec()
			in = in[:len(in)-1]
			st = st[:len(st)-1]
		}
	}
	rec()
}

// CharacterisingSet computes a set W of class strings such that any two states with different
// behaviour (under Out and transitions) are distinguished by the Out sequence along some w in W.
func (a *Automaton) CharacterisingSet() [][]int {
	n := len(a.IDs)
	// partition refinement with witnesses: table-filling
	type pair struct{ x, y int }
	dist := map[pair][]int{}
	key := func(x, y int) pair {
		if x > y {
			x, y = y, x
		}
		return pair{x, y}
	}
	outs := make([]string, n)
	for i := 0; i < n; i++ {
		outs[i] = a.Out(i)
	}
	// length-0 distinction is by Out of the state itself
	for x := 0; x < n; x++ {
		for y := x + 1; y < n; y++ {
			if outs[x] != outs[y] {
				dist[pair{x, y}] = []int{}
			}
		}
	}
	for changed := true; changed; {
		changed = false
		for x := 0; x < n; x++ {
			for y := x + 1; y < n; y++ {
				if _, ok := dist[pair{x, y}]; ok {
					continue
				}
				for c := range a.Classes {
					tx, ty := a.Next[x][c], a.Next[y][c]
					if tx == ty {
						continue
					}
					if tx < 0 || ty < 0 {
						dist[pair{x, y}] = []int{c}
						changed = true
						break
					}
					if w, ok := dist[key(tx, ty)]; ok {
						dist[pair{x, y}] = append([]int{c}, w...)
						changed = true
						break
					}
				}
			}
		}
	}
	set := map[string][]int{}
	for _, w := range dist {
		if len(w) == 0 {
			continue
		}
		set[fmt.Sprint(w)] = w
	}
	// drop strings that are proper prefixes of others (the longer one observes more)
	var keys []string
	for k := range set {
		keys = append(keys, k)
	}
	sort.Strings(keys)
	var out [][]int
	for _, k := range keys {
		w := set[k]
		isPrefix := false
		for _, k2 := range keys {
			w2 := set[k2]
			if len(w2) > len(w) {
				same := true
				for i := range w {
					if w[i] != w2[i] {
						same = false
						break
					}
				}
				if same {
					isPrefix = true
					break
				}
			}
		}
		if !isPrefix {
			out = append(out, w)
		}
	}
	out = append(out, []int{}) // the empty suffix: observe the state itself
	return out
}

// RandomWalk returns a class string of length n chosen uniformly among live edges; bias(c) optional weight.
func (a *Automaton) RandomWalk(rng *rand.Rand, n int, avoid func(from, to int) bool) []int {
	s := a.Init
	var in []int
	for len(in) < n {
		var opts []int
		for c, t := range a.Next[s] {
			if t >= 0 && (avoid == nil || !avoid(s, t)) {
				opts = append(opts, c)
			}
		}
		if len(opts) == 0 {
			break
		}
		c := opts[rng.Intn(len(opts))]
		in = append(in, c)
		s = a.Next[s][c]
	}
	return in
}
