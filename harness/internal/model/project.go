// Package model holds the Go side of SchemaText.tla: the project records emitted by TLC,
// the printer that turns them into schema text under a layout, and the expected-AST shape.
package model

import (
	"encoding/json"
	"fmt"
	"strings"
)

type RuleVal struct {
	K     string    `json:"k"`
	T     string    `json:"t"`
	Items []RuleVal `json:"items"`
	Props []Rule    `json:"props"`
}
type Rule struct {
	N string  `json:"n"`
	V RuleVal `json:"v"`
}
type Ann struct {
	Rules []Rule `json:"rules"`
	Note  int    `json:"note"`
}
type Key struct {
	Text string `json:"text"`
	Sc   bool   `json:"sc"`
}
type Kid struct {
	Node Node `json:"node"`
	Ann  Ann  `json:"ann"`
}
type Node struct {
	K    string `json:"k"`
	Text string `json:"text"`
	TT   string `json:"tt"`
	Val  string `json:"val"`
	Kids []Kid  `json:"kids"`
	Keys []Key  `json:"keys"`
}

// expected AST
type AstRuleVal struct {
	TT    string       `json:"tt"`
	Val   string       `json:"val"`
	Items []AstRuleVal `json:"items"`
	Props []AstRule    `json:"props"`
}
type AstRule struct {
	N string     `json:"n"`
	V AstRuleVal `json:"v"`
}
type Ast struct {
	TT    string    `json:"tt"`
	Key   string    `json:"key"`
	Sc    bool      `json:"sc"`
	Val   string    `json:"val"`
	Note  string    `json:"note"`
	Rules []AstRule `json:"rules"`
	Kids  []Ast     `json:"kids"`
}

type Project struct {
	Project Node     `json:"project"`
	RootAnn Ann      `json:"rootann"`
	Notes   []string `json:"notes"`
	Ast     Ast      `json:"ast"`
}

// Layout is the presentation vector: every combination prints the same project.
type Layout struct {
	NL        string `json:"nl"`              // "\n", "\r\n", "\r"
	Multi     int    `json:"multi"`           // 0 inline //, 1 /* */ on one line, 2 /* */ with the note on its own line
	Quote     int    `json:"quote"`           // rule names: 0 bare, 1 quoted, 2 quoted at the top / bare in nested rule-sets, 3 the reverse, 4 every second name
	Pad       int    `json:"pad"`             // 0..2 extra blanks around tokens, 3 a tab, 4 a blank and a tab
	Comments  int    `json:"comments"`        // 0 none, 1 '#' lines, 2 '###' blocks and end-of-line '#', 3 like 1 and end-of-line, but every comment is empty ('#' and nothing else), 4 like 2 plus a two-line ### block between a scalar and its annotation
	Split     int    `json:"split,omitempty"` // an annotation written as two: 1 = `/* note */ // {rules}` (or `/* {first rule} */ // {the rest}`) on one line, 2 = `// {rules}` and the note as `// note` on the next line
	LeadBlank int    `json:"lead_blank"`      // blank lines before
	TailBlank int    `json:"tail_blank"`      // blank lines after
}

func (l Layout) String() string {
	nl := map[string]string{"\n": "lf", "\r\n": "crlf", "\r": "cr"}[l.NL]
	return fmt.Sprintf("nl=%s multi=%d quote=%v pad=%d comments=%d split=%d lead=%d tail=%d", nl, l.Multi, l.Quote, l.Pad, l.Comments, l.Split, l.LeadBlank, l.TailBlank)
}

func jsonString(s string) string {
	var sb strings.Builder
	enc := json.NewEncoder(&sb)
	enc.SetEscapeHTML(false)
	_ = enc.Encode(s)
	return strings.TrimSuffix(sb.String(), "\n")
}

// comment writes a one-line user comment; with Comments == 3 it is empty.
func (l Layout) comment(text string) string {
	if l.Comments == 3 {
		return "#"
	}
	return "# " + text
}

// sp is the padding between tokens: 0-2 blanks, 3 = one tab, 4 = a blank and a tab (the padding ends in a tab).
func (l Layout) sp() string {
	switch l.Pad {
	case 3:
		return "\t"
	case 4:
		return " \t"
	}
	return strings.Repeat(" ", l.Pad)
}

func (l Layout) ruleVal(v RuleVal) string {
	switch v.K {
	case "number", "boolean", "null", "ref":
		return v.T
	case "string":
		return jsonString(v.T)
	case "array":
		var parts []string
		for _, it := range v.Items {
			parts = append(parts, l.ruleVal(it))
		}
		return "[" + l.sp() + strings.Join(parts, ","+l.sp()+" ") + l.sp() + "]"
	case "object":
		return l.ruleSetAt(v.Props, 1)
	}
	return "?"
}

func (l Layout) quoted(depth, i int) bool {
	switch l.Quote {
	case 1:
		return true
	case 2:
		return depth == 0
	case 3:
		return depth > 0
	case 4:
		return (i+depth)%2 == 0
	}
	return false
}

func (l Layout) ruleSet(rules []Rule) string { return l.ruleSetAt(rules, 0) }

// ruleSetFrom prints rules[from:] (quoting decided by the position in the whole list).
func (l Layout) ruleSetFrom(rules []Rule, from int) string {
	var parts []string
	for i, r := range rules {
		if i < from {
			continue
		}
		name := r.N
		if l.quoted(0, i) {
			name = `"` + name + `"`
		}
		parts = append(parts, name+l.sp()+":"+l.sp()+" "+l.ruleVal(r.V))
	}
	return "{" + l.sp() + strings.Join(parts, ","+l.sp()+" ") + l.sp() + "}"
}

func (l Layout) ruleSetAt(rules []Rule, depth int) string {
	var parts []string
	for i, r := range rules {
		name := r.N
		if l.quoted(depth, i) {
			name = `"` + name + `"`
		}
		parts = append(parts, name+l.sp()+":"+l.sp()+" "+l.ruleVal(r.V))
	}
	return "{" + l.sp() + strings.Join(parts, ","+l.sp()+" ") + l.sp() + "}"
}

// annotation text (without the comment delimiters), "" if none
func (l Layout) annBody(a Ann, notes []string, indent string) string {
	note := ""
	if a.Note > 0 {
		note = notes[a.Note-1]
	}
	switch {
	case len(a.Rules) == 0 && note == "":
		return ""
	case len(a.Rules) == 0:
		return note
	case note == "":
		return l.ruleSet(a.Rules)
	}
	if l.Multi == 2 {
		return l.ruleSet(a.Rules) + l.NL + indent + "     - " + note
	}
	return l.ruleSet(a.Rules) + " - " + note
}

func (l Layout) annotation(a Ann, notes []string, indent string) string {
	body := l.annBody(a, notes, indent)
	if body == "" {
		return ""
	}
	// one annotation written as two (the element is the same: the rules in their order, the note)
	if l.Comments != 4 && len(a.Rules) > 0 {
		note := ""
		if a.Note > 0 {
			note = notes[a.Note-1]
		}
		switch {
		case l.Split == 1 && note != "":
			return " /*" + l.sp() + " " + note + " */ //" + l.sp() + " " + l.ruleSet(a.Rules)
		case l.Split == 1 && len(a.Rules) > 1:
			return " /*" + l.sp() + " " + l.ruleSet(a.Rules[:1]) + " */ //" + l.sp() + " " + l.ruleSetFrom(a.Rules, 1)
		case l.Split == 2 && note != "":
			return " //" + l.sp() + " " + l.ruleSet(a.Rules) + l.NL + indent + "  // " + note
		}
	}
	if l.Multi == 0 {
		return " //" + l.sp() + " " + body
	}
	return " /*" + l.sp() + " " + body + " */"
}

// Print renders the project. Every annotated element is alone on its line (DESIGN §2.3 line discipline).
func (l Layout) Print(p Project) string {
	var sb strings.Builder
	sb.WriteString(strings.Repeat(l.NL, l.LeadBlank))
	if l.Comments >= 1 {
		sb.WriteString(l.comment("a user comment before the schema") + l.NL)
	}
	l.node(&sb, p.Project, p.RootAnn, p.Notes, "", "", true)
	if l.Comments >= 1 {
		sb.WriteString(l.NL + l.comment("a user comment after the schema"))
	}
	sb.WriteString(strings.Repeat(l.NL, l.TailBlank))
	return sb.String()
}

// node writes `prefix value` with the annotation; last = no comma after it.
func (l Layout) node(sb *strings.Builder, n Node, a Ann, notes []string, indent, prefix string, last bool) {
	comma := ","
	if last {
		comma = ""
	}
	ann := l.annotation(a, notes, indent)
	switch n.K {
	case "scalar", "ref":
		if n.K == "ref" && strings.Contains(n.Text, " | ") {
			// blank space around the `|` of a choice is presentation: tight with /* */ on one line, wide with padding
			switch {
			case l.Multi == 1 && l.Pad == 0:
				n.Text = strings.ReplaceAll(n.Text, " | ", "|")
			case l.Pad == 2:
				n.Text = strings.ReplaceAll(n.Text, " | ", "  |  ")
			case l.Pad >= 3:
				n.Text = strings.ReplaceAll(n.Text, " | ", l.sp()+"|"+l.sp())
			}
		}
		if l.Comments == 4 && ann != "" {
			// a block comment of two lines between the value and its annotation: presentation only, the annotation
			// on the comment's closing line still belongs to the value
			sb.WriteString(indent + prefix + n.Text + l.sp() + comma + " ###" + l.NL + indent + "  a block comment between value and annotation ###" + ann)
			return
		}
		sb.WriteString(indent + prefix + n.Text + l.sp() + comma + ann)
		if l.Comments >= 2 && ann == "" {
			sb.WriteString(" " + l.comment("end-of-line user comment"))
		}
	case "array", "object":
		open, close := "[", "]"
		if n.K == "object" {
			open, close = "{", "}"
		}
		if len(n.Kids) == 0 {
			inner := ""
			if l.Pad > 0 {
				inner = l.sp() // blanks between the brackets of an empty container
			}
			if l.Comments == 2 || l.Comments == 4 {
				// a block comment between the brackets of an empty container (a # comment would push the closing bracket,
				// and with it the annotation, to a line without an example: the language refuses that)
				inner = " ### nothing in it ### "
			}
			sb.WriteString(indent + prefix + open + inner + close + comma + ann)
			return
		}
		sb.WriteString(indent + prefix + open + ann + l.NL)
		for i, k := range n.Kids {
			if l.Comments >= 1 && i == 1 {
				sb.WriteString(indent + "  " + l.comment("a user comment between members") + l.NL)
			}
			if (l.Comments == 2 || l.Comments == 4) && i == 0 {
				sb.WriteString(indent + "  ###" + l.NL + indent + "  a block" + l.NL + indent + "  user comment" + l.NL + indent + "  ###" + l.NL)
			}
			pre := ""
			if n.K == "object" {
				key := n.Keys[i]
				if key.Sc {
					pre = key.Text + l.sp() + ":" + l.sp() + " "
				} else {
					pre = `"` + key.Text + `"` + l.sp() + ":" + l.sp() + " "
				}
			}
			l.node(sb, k.Node, k.Ann, notes, indent+"  ", pre, i == len(n.Kids)-1)
			sb.WriteString(l.NL)
		}
		sb.WriteString(indent + close + comma)
	}
}

// Types every SchemaText project may refer to.
var SupportTypes = map[string]string{
	"@t":      `1`,
	"@a":      `2`,
	"@b":      `"s"`,
	"@k":      `"key"`,
	"@base":   "{\n  \"bk\": 1\n}",
	"@base2":  "{\n  \"bk2\": 2\n}",
	"@marker": "{}", // an object type without properties: may be listed twice in an allOf
	// named enum rules (registered with AddRule; see checks.regSupport)
	"rule:@names": "[\"Tom\", \"b\"]",
	"rule:@sizes": "[\n  12, // twelve\n  \"x\",\n  null\n]",
}

// TLC prints only ASCII: control characters inside decoded values travel as placeholders.
var placeholders = strings.NewReplacer("<FF>", "\f", "<SOH>", "\x01")

// Resolve replaces the placeholders in every decoded value of the project and of its expected AST.
func (p *Project) Resolve() {
	var node func(n *Node)
	var ann func(a *Ann)
	var rv func(v *RuleVal)
	rv = func(v *RuleVal) {
		v.T = placeholders.Replace(v.T)
		for i := range v.Items {
			rv(&v.Items[i])
		}
		for i := range v.Props {
			rv(&v.Props[i].V)
		}
	}
	ann = func(a *Ann) {
		for i := range a.Rules {
			rv(&a.Rules[i].V)
		}
	}
	node = func(n *Node) {
		n.Val = placeholders.Replace(n.Val)
		for i := range n.Kids {
			node(&n.Kids[i].Node)
			ann(&n.Kids[i].Ann)
		}
	}
	node(&p.Project)
	ann(&p.RootAnn)
	var ast func(a *Ast)
	var arv func(v *AstRuleVal)
	arv = func(v *AstRuleVal) {
		v.Val = placeholders.Replace(v.Val)
		for i := range v.Items {
			arv(&v.Items[i])
		}
		for i := range v.Props {
			arv(&v.Props[i].V)
		}
	}
	ast = func(a *Ast) {
		a.Val = placeholders.Replace(a.Val)
		for i := range a.Rules {
			arv(&a.Rules[i].V)
		}
		for i := range a.Kids {
			ast(&a.Kids[i])
		}
	}
	ast(&p.Ast)
}
