SPECIFICATION TraceSpec
INVARIANTS TypeOK AnnotationsDoNotNest
POSTCONDITION TraceAccepted
CHECK_DEADLOCK FALSE
