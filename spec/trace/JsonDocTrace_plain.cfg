SPECIFICATION TraceSpec
CONSTANTS
  MaxDepth = 1000
  AllowTrailing = FALSE
POSTCONDITION TraceAccepted
CHECK_DEADLOCK FALSE
