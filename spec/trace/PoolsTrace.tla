------------------------------- MODULE PoolsTrace -------------------------------
(* Direction 2 for C10/C11: events recorded from the real library through the   *)
(* verif hooks in internal/sync (BufferPool Get/Put) and by the driver around   *)
(* every public call are validated against the pool discipline of Pools.tla     *)
(* with ReturnAlias = FALSE:                                                    *)
(*   call  {g, op}        a goroutine starts a public call                      *)
(*   get   {g, buf}       the pool handed buffer buf to goroutine g             *)
(*   put   {g, buf}       goroutine g gives buf back (before it is reset)       *)
(*   ret   {g, alias, same}  the call returned; alias = id of the pooled buffer *)
(*                        whose memory the result shares, or -1; same = the     *)
(*                        results still held by this goroutine read as before   *)
(* A buffer is in the hands of at most one goroutine at a time; a call returns  *)
(* with all its buffers given back; a result never shares memory with a pooled  *)
(* buffer; held results never change.                                           *)
EXTENDS Integers, Sequences, FiniteSets, TLC, Json, TLCExt, IOUtils

TraceLog == ndJsonDeserialize("trace.ndjson")

VARIABLES l,
          inuse,     \* [goroutine id -> set of buffers it holds]
          incall     \* goroutines inside a public call
tvars == <<l, inuse, incall>>

G == 0..15
TraceInit == l = 1 /\ inuse = [g \in G |-> {}] /\ incall = {}

Holders(b) == {g \in G : b \in inuse[g]}

Explained(e) ==
  CASE e.ev = "reset" -> TRUE
    [] e.ev = "call"  -> e.g \notin incall
    [] e.ev = "get"   -> Holders(e.buf) = {}                    \* never handed out twice
    [] e.ev = "put"   -> e.buf \in inuse[e.g]                   \* only its holder gives it back
    [] e.ev = "ret"   -> /\ e.g \in incall
                         /\ inuse[e.g] = {}                     \* everything given back
                         /\ e.alias = -1                        \* the result is the caller's own memory
                         /\ e.same                              \* held results unchanged
    [] OTHER -> FALSE

Effect(e) ==
  CASE e.ev = "reset" -> inuse' = [g \in G |-> {}] /\ incall' = {}
    [] e.ev = "call"  -> incall' = incall \cup {e.g} /\ UNCHANGED inuse
    [] e.ev = "get"   -> inuse' = [inuse EXCEPT ![e.g] = @ \cup {e.buf}] /\ UNCHANGED incall
    [] e.ev = "put"   -> inuse' = [g \in G |-> inuse[g] \ {e.buf}] /\ UNCHANGED incall
    [] e.ev = "ret"   -> incall' = incall \ {e.g} /\ inuse' = [inuse EXCEPT ![e.g] = {}]
    [] OTHER -> UNCHANGED <<inuse, incall>>

TraceStep == /\ l <= Len(TraceLog) /\ l' = l + 1
             /\ Explained(TraceLog[l])
             /\ Effect(TraceLog[l])

\* an event that the discipline does not allow is consumed (with its effect) and reported
TraceBad == /\ l <= Len(TraceLog) /\ l' = l + 1
            /\ ~Explained(TraceLog[l])
            /\ PrintT(<<"TRACE-BAD-LINE", l>>)
            /\ Effect(TraceLog[l])

TraceNext == TraceStep \/ TraceBad
TraceSpec == TraceInit /\ [][TraceNext]_tvars

TraceAccepted ==
   LET d == TLCGet("stats").diameter IN
   IF d - 1 = Len(TraceLog) THEN TRUE
   ELSE Print(<<"TRACE-REJECTED-AT-LINE", d>>, FALSE)
===============================================================================
