-------------------------------- MODULE LenLaws --------------------------------
(* Property C15 as laws over recorded observations.  For a schema text S and a  *)
(* follow-up text T the harness records what the library answered:              *)
(*   slen   len(S)            len    Len(S)                                     *)
(*   vs     verdict of S      vp     verdict of the prefix S[:Len(S)]           *)
(*   asteq  AST of S = AST of the prefix                                        *)
(*   lenp   Len(S[:Len(S)])   lenst  Len(S . newline . T)                       *)
(*   complete  S is complete (accepted, root value and its annotation closed)   *)
(* and TLC validates every record against the five laws.                        *)
EXTENDS Integers, Sequences, TLC, Json, TLCExt, IOUtils

TraceLog == ndJsonDeserialize("trace.ndjson")
VARIABLE l
TraceInit == l = 1

\* a record with len = -1 says: Check() accepts S but Len(S) failed (a text that is accepted has an end)
Measured(e)       == e.len >= 0
NeverExceeds(e)   == e.len <= e.slen
PrefixSameFate(e) == e.vs = e.vp /\ e.asteq
Idempotent(e)     == e.lenp = e.len
BoundaryStays(e)  == e.complete => e.lenst = e.len

Explained(e) == Measured(e) /\ NeverExceeds(e) /\ PrefixSameFate(e) /\ Idempotent(e) /\ BoundaryStays(e)

TraceStep == l <= Len(TraceLog) /\ l' = l + 1 /\ Explained(TraceLog[l])
TraceBad  == /\ l <= Len(TraceLog) /\ l' = l + 1 /\ ~Explained(TraceLog[l])
             /\ PrintT(<<"TRACE-BAD-LINE", l>>)
TraceSpec == TraceInit /\ [][TraceStep \/ TraceBad]_l

TraceAccepted ==
   LET d == TLCGet("stats").diameter IN
   IF d - 1 = Len(TraceLog) THEN TRUE ELSE Print(<<"TRACE-REJECTED-AT-LINE", d>>, FALSE)
===============================================================================
