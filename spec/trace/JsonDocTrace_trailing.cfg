SPECIFICATION TraceSpec
CONSTANTS
  MaxDepth = 1000
  AllowTrailing = TRUE
POSTCONDITION TraceAccepted
CHECK_DEADLOCK FALSE
