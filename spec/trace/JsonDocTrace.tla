------------------------------ MODULE JsonDocTrace ------------------------------
(* Direction 2 for C12: traces recorded from formats/json (one "feed" line per  *)
(* input byte class, one "eof" line with what the real code reported: verdict,  *)
(* lexeme stream with spans, Len) are validated against JsonDoc.  This module   *)
(* adds the position bookkeeping that turns JsonDoc's relative events into      *)
(* absolute spans, in TLA+ (the graph walker of direction 1 does the same in Go *)
(* and the two are cross-checked on the same inputs).                           *)
EXTENDS JsonDoc, Json, TLCExt, IOUtils

TraceLog == ndJsonDeserialize("trace.ndjson")

VARIABLES l,       \* next trace line
          pos,     \* bytes consumed
          opens,   \* begin positions of the open events
          evs      \* events expected so far, with spans
tvars == <<ctl, stk, status, out, acc, eofev, l, pos, opens, evs>>

IsBegin(t) == t \in {"object-begin","array-begin","literal-begin","key-begin","value-begin","item-begin"}

RECURSIVE Place(_, _, _, _)
Place(es, p, ops, done) ==
  IF es = <<>> THEN [evs |-> done, opens |-> ops]
  ELSE LET x == Head(es) IN
       IF x.t = "end-top" THEN Place(Tail(es), p, ops, Append(done, [t |-> x.t, b |-> p, e |-> p]))
       ELSE IF IsBegin(x.t) THEN Place(Tail(es), p, Append(ops, p), Append(done, [t |-> x.t, b |-> p, e |-> p]))
       ELSE Place(Tail(es), p, SubSeq(ops, 1, Len(ops) - 1),
                  Append(done, [t |-> x.t, b |-> ops[Len(ops)], e |-> IF x.e = "cur" THEN p ELSE p - 1]))

\* Len() of an accepted document: one past the last byte of the value
RECURSIVE MaxEnd(_)
MaxEnd(es) == IF es = <<>> THEN 0
              ELSE LET m == MaxEnd(Tail(es)) h == Head(es)
                   IN IF h.t # "end-top" /\ h.e + 1 > m THEN h.e + 1 ELSE m

TraceInit == Init /\ l = 1 /\ pos = 0 /\ opens = <<>> /\ evs = <<>>

IsEvent(e) == l <= Len(TraceLog) /\ TraceLog[l].ev = e /\ l' = l + 1

TraceReset == /\ IsEvent("reset")
              /\ ctl' = "start" /\ stk' = <<>> /\ status' = "run" /\ out' = <<>> /\ acc' = FALSE /\ eofev' = <<>>
              /\ pos' = 0 /\ opens' = <<>> /\ evs' = <<>>

TraceFeed == /\ IsEvent("feed")
             /\ status = "run"
             /\ Feed(TraceLog[l].c)
             /\ LET r == Place(out', pos, opens, evs) IN evs' = r.evs /\ opens' = r.opens
             /\ pos' = pos + 1

\* bytes after the automaton stopped (error, or trailing text accepted) are not interpreted
TraceSkip == /\ IsEvent("feed")
             /\ status # "run"
             /\ pos' = pos + 1
             /\ UNCHANGED <<ctl, stk, status, out, acc, eofev, opens, evs>>

EofOK(e) == \/ status \in {"ambig","deep"}          \* outside the reference's verdict
            \/ /\ e.accept = acc
               /\ acc => LET r == Place(IF status = "trail" THEN <<>> ELSE eofev, pos, opens, evs)
                         IN /\ e.events = r.evs
                            /\ e.len = MaxEnd(r.evs)

TraceEof == /\ IsEvent("eof")
            /\ EofOK(TraceLog[l])
            /\ UNCHANGED <<ctl, stk, status, out, acc, eofev, pos, opens, evs>>

\* an end-of-input report that the specification does not explain is consumed and reported,
\* so that one TLC run lists every such document
TraceBad == /\ IsEvent("eof")
            /\ ~EofOK(TraceLog[l])
            /\ PrintT(<<"TRACE-BAD-LINE", l>>)
            /\ UNCHANGED <<ctl, stk, status, out, acc, eofev, pos, opens, evs>>

TraceNext == TraceReset \/ TraceFeed \/ TraceSkip \/ TraceEof \/ TraceBad
TraceSpec == TraceInit /\ [][TraceNext]_tvars

\* every line of the trace was explained by a step of the specification
TraceAccepted ==
   LET d == TLCGet("stats").diameter IN
   IF d - 1 = Len(TraceLog) THEN TRUE
   ELSE Print(<<"TRACE-REJECTED-AT-LINE", d>>, FALSE)
===============================================================================
