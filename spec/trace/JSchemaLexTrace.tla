---------------------------- MODULE JSchemaLexTrace ----------------------------
(* Direction 2 for the schema scanner: event streams recorded from              *)
(* notations/jschema/scanner (one line per event, with its span, the classes of *)
(* its first and last byte and a summary of the text skipped before it) are     *)
(* validated against JSchemaLex.  A text is introduced by a "reset" line and    *)
(* closed by a "done" line that says how the scan ended: "complete" (the        *)
(* scanner reached the end of the text), or "refused" (it stopped with a        *)
(* diagnostic: the events before that are a prefix of a behaviour and nothing   *)
(* more is demanded).  A complete scan must have closed everything it opened.   *)
EXTENDS JSchemaLex, Json, TLCExt, IOUtils

TraceLog == ndJsonDeserialize("trace.ndjson")
VARIABLE l
tvars == <<stk, cur, pend, status, l>>

TraceInit == LexInit /\ l = 1
IsLine(k) == l <= Len(TraceLog) /\ TraceLog[l].ev = k /\ l' = l + 1

TraceReset == /\ IsLine("reset")
              /\ stk' = << Frame("top", 0, FALSE) >> /\ cur' = 0 /\ pend' = NoGap /\ status' = "run"

\* after an event that the specification does not explain the rest of the text is not interpreted (status "lost")
TraceEvent == /\ IsLine("lex") /\ status \in {"run", "end"}
              /\ Ev(TraceLog[l])
TraceLost  == /\ IsLine("lex") /\ status = "lost"
              /\ UNCHANGED <<stk, cur, pend, status>>
TraceBad   == /\ IsLine("lex") /\ status \in {"run", "end"}
              /\ ~ENABLED Ev(TraceLog[l])
              /\ PrintT(<<"TRACE-BAD-LINE", l>>)
              /\ status' = "lost" /\ UNCHANGED <<stk, cur, pend>>

DoneOK(e) == \/ status = "lost"
             \/ e.how = "refused"
             \/ e.how = "complete" /\ Len(stk) = 1 /\ stk[1].ph = "done"
TraceDone    == IsLine("done") /\ DoneOK(TraceLog[l]) /\ UNCHANGED <<stk, cur, pend, status>>
TraceBadDone == /\ IsLine("done") /\ ~DoneOK(TraceLog[l])
                /\ PrintT(<<"TRACE-BAD-LINE", l>>)
                /\ UNCHANGED <<stk, cur, pend, status>>

TraceNext == TraceReset \/ TraceEvent \/ TraceLost \/ TraceBad \/ TraceDone \/ TraceBadDone
TraceSpec == TraceInit /\ [][TraceNext]_tvars

TraceAccepted ==
   LET d == TLCGet("stats").diameter IN
   IF d - 1 = Len(TraceLog) THEN TRUE
   ELSE Print(<<"TRACE-REJECTED-AT-LINE", d>>, FALSE)
===============================================================================
