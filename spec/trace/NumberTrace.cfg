SPECIFICATION TraceSpec
CONSTANTS
  Chars = {}
  MaxLen = 0
POSTCONDITION TraceAccepted
CHECK_DEADLOCK FALSE
