------------------------------- MODULE NumberTrace -------------------------------
(* Direction 2 for C13: observations recorded from json.NewNumber / Cmp / Equal / *)
(* the four ordering predicates / String / LengthOfFractionalPart are validated   *)
(* against Number.tla.  Every line is self-contained:                              *)
(*   {"ev":"num","t":[chars],"ok":bool,"str":[chars],"frac":n}                     *)
(*   {"ev":"cmp","a":[chars],"b":[chars],"cmp":c,"eq":..,"lt":..,"le":..,"gt":..,"ge":..} *)
(* Texts travel as arrays of one-character strings (TLC cannot index strings).     *)
EXTENDS Number, Json, TLCExt, IOUtils

TraceLog == ndJsonDeserialize("trace.ndjson")
VARIABLE l
tvars == <<ctl, txt, first, phase, l>>

TraceInit == Init /\ l = 1

\* NewNumber(t): accepted iff the grammar accepts; then String() denotes the same value and
\* LengthOfFractionalPart() is the number of significant fraction digits
NumOK(e) == /\ e.ok = (e.t # <<>> /\ Accepts(e.t))
            /\ e.ok => /\ Accepts(e.str)
                       /\ Norm(e.str) = Norm(e.t)
                       /\ e.frac = Len(Norm(e.t).frac)

CmpOK(e) == LET c == CmpNorm(Norm(e.a), Norm(e.b))
            IN /\ Accepts(e.a) /\ Accepts(e.b)
               /\ e.cmp = c
               /\ e.eq = (c = 0) /\ e.lt = (c < 0) /\ e.le = (c <= 0) /\ e.gt = (c > 0) /\ e.ge = (c >= 0)

Explained(e) == (e.ev = "num" /\ NumOK(e)) \/ (e.ev = "cmp" /\ CmpOK(e))

TraceStep == /\ l <= Len(TraceLog) /\ l' = l + 1
             /\ Explained(TraceLog[l])
             /\ UNCHANGED <<ctl, txt, first, phase>>

\* a line that no action explains is consumed and reported, so that one TLC run lists every such line
TraceBad == /\ l <= Len(TraceLog) /\ l' = l + 1
            /\ ~Explained(TraceLog[l])
            /\ PrintT(<<"TRACE-BAD-LINE", l>>)
            /\ UNCHANGED <<ctl, txt, first, phase>>

TraceNext == TraceStep \/ TraceBad
TraceSpec == TraceInit /\ [][TraceNext]_tvars

TraceAccepted ==
   LET d == TLCGet("stats").diameter IN
   IF d - 1 = Len(TraceLog) THEN TRUE
   ELSE Print(<<"TRACE-REJECTED-AT-LINE", d>>, FALSE)
===============================================================================
