\* random long behaviours over six keys (run with -simulate): growth and shrinking of the containers' backing storage
SPECIFICATION SimSpec
CONSTANTS
  Keys = {"k1","k2","k3","k4","k5","k6"}
  Vals = {"v1","v2"}
  MaxOps = 60
INVARIANTS TypeOK OrderIsPermutationOfKeys
CHECK_DEADLOCK FALSE
