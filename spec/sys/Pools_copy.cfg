SPECIFICATION Spec
CONSTANTS
  Buffers = {"b1","b2","b3","b4"}
  ReturnAlias = FALSE
  MaxCalls = 4
INVARIANTS TypeOK HeldStable NoLiveAlias
CHECK_DEADLOCK FALSE
