\* call histories on objects of the kind "jdoc": two objects with two texts (the harness substitutes pairs of
\* catalogue texts for c1, c2), every sequence of up to three calls (Check, Len, and reading one lexeme)
SPECIFICATION Spec
CONSTANTS
  Objects = {"o1","o2"}
  Contents = {"c1","c2"}
  Ops = {"Check","Len","Next"}
  Registers = FALSE
  Sharing = FALSE
  Plan = ""
  MaxCalls = 5
INVARIANTS TypeOK Emit
PROPERTIES FrozenRegsStable
CHECK_DEADLOCK FALSE
