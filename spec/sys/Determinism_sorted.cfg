SPECIFICATION Spec
CONSTANTS
  Iteration = "sorted"
  MaxTypes = 3
INVARIANTS Confluent Emit
CHECK_DEADLOCK FALSE
