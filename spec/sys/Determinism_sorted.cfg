SPECIFICATION Spec
CONSTANTS
  Iteration = "sorted"
  MaxTypes = 3
INVARIANTS Confluent Repeatable Emit
CHECK_DEADLOCK FALSE
