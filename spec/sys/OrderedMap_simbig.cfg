\* long random behaviours over seventy keys (run with -simulate)
SPECIFICATION SimSpecBig
CONSTANTS
  Keys = {"k1","k2","k3","k4","k5","k6","k7","k8","k9","k10","k11","k12","k13","k14","k15","k16","k17","k18","k19","k20","k21","k22","k23","k24","k25","k26","k27","k28","k29","k30","k31","k32","k33","k34","k35","k36","k37","k38","k39","k40","k41","k42","k43","k44","k45","k46","k47","k48","k49","k50","k51","k52","k53","k54","k55","k56","k57","k58","k59","k60","k61","k62","k63","k64","k65","k66","k67","k68","k69","k70"}
  Vals = {"v1","v2"}
  MaxOps = 400
INVARIANTS TypeOK OrderIsPermutationOfKeys
CHECK_DEADLOCK FALSE
