SPECIFICATION Spec
CONSTANTS
  Iteration = "map"
  MaxTypes = 3
INVARIANTS Confluent
CHECK_DEADLOCK FALSE
