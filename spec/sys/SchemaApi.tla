------------------------------- MODULE SchemaApi -------------------------------
(* The library as a running system (properties C10, C09, C11): a client creates *)
(* schema objects from texts of a catalogue, registers some as user types of    *)
(* others, and calls the public operations in any order.  Abstractly every      *)
(* call's result is a *value* determined by the object's text and the types     *)
(* registered on it when the object was first compiled - it does not depend on  *)
(* anything else that happened in the process, and a value once returned never  *)
(* changes.  The behaviours of this module are the histories the harness        *)
(* replays on the real library; Pools.tla refines it with the process-wide      *)
(* buffer pools, where those two facts stop being true by construction.         *)
EXTENDS Integers, Sequences, FiniteSets, TLC, Json

CONSTANTS Objects,     \* e.g. {"o1","o2"}
          Contents,    \* catalogue ids of texts, e.g. {"shallow","nested","deeper","badscan","badrule","badvalue","usesT","typeT"}
          Ops,         \* the public operations of the kind of object explored: for schemas a subset of
                       \* {"Check","Example","GetAST","Len","Used","OpenAPI"}; the other kinds (JSON document, number,
                       \* regex schema, enum rule, literal guessing) have their own lists in SchemaApi_<kind>.cfg
          Registers,   \* BOOLEAN: can objects be registered as user types of one another (schemas only)?
          Sharing,     \* BOOLEAN: may one object be the user type of several roots (a type shared by the schemas of a project)?
          Plan,        \* "" or the name of a fixed assignment of contents to the objects (PlanContents)
          MaxCalls

\* which contents fail, and where (known meaning of the catalogue texts)
Fails == [badscan |-> "scanner", badrule |-> "loader", badvalue |-> "checker"]
IsBad(c) == c \in DOMAIN Fails

VARIABLES content,   \* [Objects -> Contents \cup {"none"}]
          regs,      \* [Objects -> SUBSET Objects]: objects registered as user type "@t" of the object
          frozen,    \* objects whose first compiling call has happened: later AddType must not change results
          hist       \* the history: sequence of call records
vars == <<content, regs, frozen, hist>>

Init == /\ content = [o \in Objects |-> "none"]
        /\ regs = [o \in Objects |-> {}]
        /\ frozen = {}
        /\ hist = <<>>

Step(rec) == Len(hist) < MaxCalls /\ hist' = Append(hist, rec)

\* objects are created in a fixed order (symmetry reduction by construction)
Order == CHOOSE f \in [1..Cardinality(Objects) -> Objects] : \A i, j \in 1..Cardinality(Objects) : i # j => f[i] # f[j]
NextFree == LET idx == {i \in 1..Cardinality(Objects) : content[Order[i]] = "none"} IN
            IF idx = {} THEN 0 ELSE CHOOSE i \in idx : \A j \in idx : i <= j

\* "shared-heir": two roots, an heir type and its parent: the heir is complete on one root and not on the other
\* "shared-item": two roots that use one type object @item, whose text refers to @id; the roots define @id differently
\* (a number on one, a string on the other: idNum and idStr are both registered under the name @id)
PlanContents == IF Plan = "shared-heir" THEN <<"usesHeir", "heir", "usesHeir", "typeObj">>
                ELSE IF Plan = "shared-item" THEN <<"usesItem", "item", "usesItem", "idNum", "idStr">>
                \* "shared-parent": a root that inherits from two types, and another root (created with keys optional by
                \* default) that inherits from the first of them only - the parent object is shared by both
                ELSE IF Plan = "shared-parent" THEN <<"heirOfTwo", "typeObj", "typeObj2", "heirOfOne">> ELSE <<>>
New(c) == /\ NextFree # 0
          /\ (Plan # "" => c = PlanContents[NextFree])
          /\ LET o == Order[NextFree] IN
             /\ content' = [content EXCEPT ![o] = c]
             /\ Step([op |-> "New", obj |-> o, arg |-> c])
          /\ UNCHANGED <<regs, frozen>>

\* under the plan "shared-item" the objects are created first, only the two roots are asked, and a root is given the
\* shared type and one of the two definitions of @id (the plan is about what the roots answer, not about misuse)
ItemPlan == Plan \in {"shared-item", "shared-parent"}
ItemRoot(o) == content[o] \in {"usesItem", "heirOfTwo", "heirOfOne"}

\* a call that compiles the object on first use
Call(op, o) == /\ content[o] # "none"
               /\ (ItemPlan => NextFree = 0 /\ ItemRoot(o))
               /\ op \in Ops
               /\ frozen' = frozen \cup {o}
               /\ Step([op |-> op, obj |-> o, arg |-> ""])
               /\ UNCHANGED <<content, regs>>

\* AddType(o, "@t", t): only meaningful before o is compiled; the library loads both
AddType(o, t) == /\ Registers
                 /\ (ItemPlan => /\ NextFree = 0 /\ ItemRoot(o) /\ ~ItemRoot(t)
                                 /\ ~(content[t] \in {"idNum", "idStr"} /\ \E x \in regs[o] : content[x] \in {"idNum", "idStr"}))
                 /\ content[o] # "none" /\ content[t] # "none" /\ o # t
                 /\ o \notin frozen
                 /\ (Sharing \/ \A x \in Objects : t \notin regs[x])      \* without Sharing one object is the type of at most one root
                 /\ t \notin regs[o]
                 /\ regs[t] = {}                              \* and types of types are not nested here:
                 /\ \A x \in Objects : o \notin regs[x]      \*   a root is not itself somebody's type
                 /\ regs' = [regs EXCEPT ![o] = @ \cup {t}]
                 /\ Step([op |-> "AddType", obj |-> o, arg |-> t])
                 /\ UNCHANGED <<content, frozen>>

Next == \/ \E c \in Contents : New(c)
        \/ \E op \in Ops, o \in Objects : Call(op, o)
        \/ \E o, t \in Objects : AddType(o, t)
Spec == Init /\ [][Next]_vars

\* the abstract result of a call: a function of the text and of the registered types' texts only
ResultKey(o) == <<content[o], {content[t] : t \in regs[o]}>>

TypeOK == /\ \A o \in Objects : content[o] \in Contents \cup {"none"}
          /\ \A o \in Objects : regs[o] \subseteq Objects
          /\ Len(hist) <= MaxCalls
\* a frozen object's registrations never change afterwards (what makes results repeatable)
FrozenRegsStable == [][\A o \in frozen : regs'[o] = regs[o]]_vars

\* Objects with a read cursor (a JSON document read lexeme by lexeme, operation "Next"): the result of a "Next" is the
\* element of the text's lexeme stream at the cursor, and the cursor then moves on.  The cursor is put back to the start
\* by the first "Check" and by the first "Len" of the object (each walks the text once and answers from memory
\* afterwards); nothing else moves it.  Check and Len themselves are functions of the text, wherever the cursor stands.
IsRewind(j) == /\ hist[j].op \in {"Check", "Len"}
               /\ ~\E m \in 1..(j - 1) : hist[m].obj = hist[j].obj /\ hist[m].op = hist[j].op
CursorAt(i) == LET o == hist[i].obj
                   rw == {j \in 1..(i - 1) : hist[j].obj = o /\ IsRewind(j)}
                   from == IF rw = {} THEN 0 ELSE CHOOSE j \in rw : \A m \in rw : m <= j
               IN Cardinality({j \in (from + 1)..(i - 1) : hist[j].obj = o /\ hist[j].op = "Next"})
Cursors == [i \in 1..Len(hist) |-> IF hist[i].op = "Next" THEN CursorAt(i) ELSE -1]

\* emission: every history that contains at least one call
Emit == (Len(hist) >= 2 /\ hist[Len(hist)].op # "New") => PrintT(ToJson([hist |-> hist, cursor |-> Cursors]))
===============================================================================
