------------------------------- MODULE Concurrent -------------------------------
(* Goroutines using the library at the same time (property C11).  Each process   *)
(* runs a short program of public calls, either on objects of its own (clause 1)  *)
(* or on one shared object whose first Check() has returned (clause 2).  A call   *)
(* is split at the points where the implementation synchronises - the sync.Once   *)
(* guard of an object and the process-wide buffer pool - which are exactly the    *)
(* verif hook points, so that a behaviour of this module is a schedule of hook    *)
(* events and a recorded hook trace can be validated against it (PoolsTrace).     *)
(*                                                                                *)
(*   NoBufferSharedByTwoProcesses : a pooled buffer is held by one process.       *)
(*   ResultsAreSequential         : every returned result is the value the        *)
(*                                  sequential library returns for that call.     *)
(* TLC checks both over all interleavings; the set of initial states is the set   *)
(* of work assignments the harness runs free under the race detector.             *)
EXTENDS Integers, Sequences, FiniteSets, TLC, Json

CONSTANTS Procs,        \* e.g. {1, 2}
          OpsC,         \* calls a program may contain, e.g. {"Check","Example","GetAST","OpenAPI"}
          ContentsC,    \* catalogue ids of the objects' texts
          MaxProg,      \* program length
          Buffers,
          Shared,       \* TRUE: all processes use one shared object; FALSE: each its own
          Prechecked    \* (Shared only) TRUE: the object's first Check() has returned before the processes start;
                        \* FALSE: the processes race for the first, compiling call

NeedsBuffers(op) == op \in {"Example","OpenAPI"}
Progs == UNION {[1..n -> OpsC] : n \in 1..MaxProg}

VARIABLES prog,     \* [Procs -> program]
          obj,      \* [Procs -> content id of the object the process uses]
          pc,       \* [Procs -> "idle" | "once" | "work" | "putback" | "ret"]
          ip,       \* [Procs -> index of the current call]
          bufs,     \* [Procs -> set of buffers held]
          free, born,
          once,     \* [object key -> "new" | "running" | "done"]; key = process id (own) or 0 (shared)
          owner,    \* [object key -> process running the once section, or 0]
          results   \* [Procs -> sequence of results returned], a result is <<op, content>>
vars == <<prog, obj, pc, ip, bufs, free, born, once, owner, results>>

Key(p) == IF Shared THEN 0 ELSE p
Keys == IF Shared THEN {0} ELSE Procs

Init == /\ prog \in [Procs -> Progs]
        /\ obj \in [Procs -> ContentsC]
        /\ Shared => \A p, q \in Procs : obj[p] = obj[q]
        /\ pc = [p \in Procs |-> "idle"] /\ ip = [p \in Procs |-> 1]
        /\ bufs = [p \in Procs |-> {}] /\ free = {} /\ born = {}
        \* clause 2: one shared object - either already checked, or fresh (the first call compiles it while the others wait)
        /\ once = [k \in Keys |-> IF Shared /\ Prechecked THEN "done" ELSE "new"]
        /\ owner = [k \in Keys |-> 0]
        /\ results = [p \in Procs |-> <<>>]

CurOp(p) == prog[p][ip[p]]

\* the call starts: every public call first passes the object's once guard (hook: once enter)
Begin(p) == /\ pc[p] = "idle" /\ ip[p] <= Len(prog[p])
            /\ pc' = [pc EXCEPT ![p] = "once"]
            /\ UNCHANGED <<prog, obj, ip, bufs, free, born, once, owner, results>>

\* once guard: the first caller runs the section, others wait until it is done (hook: once leave)
OnceEnter(p) == /\ pc[p] = "once"
                /\ \/ /\ once[Key(p)] = "new"
                      /\ once' = [once EXCEPT ![Key(p)] = "running"] /\ owner' = [owner EXCEPT ![Key(p)] = p]
                      /\ UNCHANGED pc
                   \/ /\ once[Key(p)] = "running" /\ owner[Key(p)] = p
                      /\ once' = [once EXCEPT ![Key(p)] = "done"] /\ owner' = [owner EXCEPT ![Key(p)] = 0]
                      /\ pc' = [pc EXCEPT ![p] = IF NeedsBuffers(CurOp(p)) THEN "work" ELSE "ret"]
                   \/ /\ once[Key(p)] = "done"
                      /\ pc' = [pc EXCEPT ![p] = IF NeedsBuffers(CurOp(p)) THEN "work" ELSE "ret"]
                      /\ UNCHANGED <<once, owner>>
                /\ UNCHANGED <<prog, obj, ip, bufs, free, born, results>>

\* pool: take a free or a fresh buffer (hook: pool get)
PoolGet(p) == /\ pc[p] = "work" /\ Cardinality(bufs[p]) < 2
              /\ \E b \in free \cup (Buffers \ born) :
                    /\ bufs' = [bufs EXCEPT ![p] = @ \cup {b}]
                    /\ free' = free \ {b} /\ born' = born \cup {b}
              /\ UNCHANGED <<prog, obj, pc, ip, once, owner, results>>
StartPut(p) == /\ pc[p] = "work" /\ bufs[p] # {}
               /\ pc' = [pc EXCEPT ![p] = "putback"]
               /\ UNCHANGED <<prog, obj, ip, bufs, free, born, once, owner, results>>
\* pool: give a buffer back (hook: pool put)
PoolPut(p) == /\ pc[p] = "putback"
              /\ \/ \E b \in bufs[p] : /\ bufs' = [bufs EXCEPT ![p] = @ \ {b}] /\ free' = free \cup {b}
                                       /\ UNCHANGED pc
                 \/ /\ bufs[p] = {} /\ pc' = [pc EXCEPT ![p] = "ret"] /\ UNCHANGED <<bufs, free>>
              /\ UNCHANGED <<prog, obj, ip, born, once, owner, results>>

\* the call returns a private value
Return(p) == /\ pc[p] = "ret"
             /\ results' = [results EXCEPT ![p] = Append(@, <<CurOp(p), obj[p]>>)]
             /\ ip' = [ip EXCEPT ![p] = @ + 1] /\ pc' = [pc EXCEPT ![p] = "idle"]
             /\ UNCHANGED <<prog, obj, bufs, free, born, once, owner>>

Next == \E p \in Procs : Begin(p) \/ OnceEnter(p) \/ PoolGet(p) \/ StartPut(p) \/ PoolPut(p) \/ Return(p)
Spec == Init /\ [][Next]_vars /\ \A p \in Procs : WF_vars(Begin(p) \/ OnceEnter(p) \/ StartPut(p) \/ PoolPut(p) \/ Return(p))

NoBufferSharedByTwoProcesses == \A p, q \in Procs : p # q => bufs[p] \cap bufs[q] = {}
NothingHeldOutsideCalls == \A p \in Procs : pc[p] \in {"idle","ret"} => bufs[p] = {}
\* results are exactly the sequential ones: the i-th result of p is its i-th call on its object
ResultsAreSequential == \A p \in Procs : \A i \in 1..Len(results[p]) : results[p][i] = <<prog[p][i], obj[p]>>
OnceRunsOnce == \A k \in Keys : once[k] = "running" => owner[k] \in Procs
\* every program finishes (no process waits forever on the once guard)
AllFinish == <>(\A p \in Procs : ip[p] > Len(prog[p]))

\* emission of the work assignments (initial states)
Fresh == \A p \in Procs : pc[p] = "idle" /\ ip[p] = 1
EmitWork == Fresh => PrintT(ToJson([shared |-> Shared, prechecked |-> Prechecked, progs |-> [p \in Procs |-> prog[p]], objs |-> [p \in Procs |-> obj[p]]]))
===============================================================================
