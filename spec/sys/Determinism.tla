------------------------------- MODULE Determinism -------------------------------
(* Same input, same answer (property C09).  A project is a root text plus a set   *)
(* of named user types, registered by AddType in some order; Check() then walks    *)
(* the registered types.  Every place where the implementation ranges over a Go    *)
(* map is an explicit nondeterministic choice here (Iteration = "map"): when two   *)
(* defects are present - in two registered types, or in two places of one type     *)
(* (each `@a | @b` choice and each `or` rule-set is an internal type of its own,   *)
(* kept in the same map) - either may be reported.  With Iteration = "sorted" the  *)
(* walk is by name and, inside a type, in source order, and the verdict is a       *)
(* function of the project alone (Confluent).                                      *)
(* The objects of a project may be used again (Reuse): the same type objects       *)
(* registered on a second root with the same text, or checked on their own before  *)
(* being registered.  The answer of the second use is the answer of the first      *)
(* (Repeatable): compiling a project must not consume anything of its objects.     *)
(* TLC lists, for the harness, every (root, type set, registration order, reuse)   *)
(* and marks the order-sensitive configurations, where the repetition-based        *)
(* sampling of the real code is concentrated.                                      *)
EXTENDS Integers, Sequences, FiniteSets, TLC, Json

CONSTANTS Iteration,      \* "map" | "sorted"
          MaxTypes

\* catalogue of registered types: name |-> the defects it has, in source order
TypeCat == [a |-> <<>>, b |-> <<>>, h |-> <<>>, q |-> <<>>,     \* (q: an `or` of rule-sets with format types, no defect)
            v |-> <<"value">>, w |-> <<"value">>, m |-> <<"missing-ref">>, r |-> <<"bad-rule">>,
            c |-> <<"missing-in-choice", "missing-in-choice">>,       \* two `@x | @y` properties, nothing registered
            o |-> <<"missing-in-or", "value-in-or">>,                  \* two `or` rule-sets, each with its own defect
            x |-> <<"value", "value">>,                                \* two properties whose examples break their rules
            g |-> <<"inherits-non-object">>,                           \* allOf of a scalar type: refused while merging
            f |-> <<"rule-not-admitted", "rule-not-admitted">>,        \* two rules a format type does not admit, on one node
            i |-> <<"rule-not-admitted", "rule-not-admitted", "rule-not-admitted">>,  \* the same on a property of an object type
            j |-> <<"inherits-defective-or-missing">>,                 \* an heir of i (allOf): i's properties are copied into it
            k |-> <<"inherits-defective-or-missing">>,                 \* an heir of c and p (allOf list of two): their unnamed types come with it
            p |-> <<"missing-in-or">>]                                 \* like the first defect of o, in a type of its own
TypeIds == DOMAIN TypeCat
\* root mentions no type / @a / every registered name / has two defective choices of its own / is an heir of @i (the
\* properties of @i, with their defects, are copied into the root, which is checked before any type)
\* / requires itself and is registered as a type of itself under two names (which of them a walk meets first must not matter)
Roots == {"plain", "refs-a", "refs-all", "two-choices", "heir-of-i", "self-two-names"}
RootDefects == [rt \in Roots |-> IF rt = "two-choices" THEN <<"missing-in-choice", "missing-in-choice">>
                                ELSE IF rt = "self-two-names" THEN <<"requires-itself">> ELSE <<>>]
Reuses == {"fresh", "second-root", "prechecked"}

VARIABLES root, order, done, verdict, reuse, verdict2
vars == <<root, order, done, verdict, reuse, verdict2>>
Range(s) == {s[i] : i \in 1..Len(s)}

Init == root \in Roots /\ order = <<>> /\ done = FALSE /\ verdict = "none" /\ reuse \in Reuses /\ verdict2 = "none"

Register(t) == /\ ~done /\ t \notin Range(order) /\ Len(order) < MaxTypes
               /\ order' = Append(order, t) /\ UNCHANGED <<root, done, verdict, reuse, verdict2>>

Broken(S) == {t \in S : TypeCat[t] # <<>>}
\* total order on names used by the sorted walk (internal types of the root come first)
Rank == [a |-> 1, b |-> 2, c |-> 3, f |-> 4, g |-> 5, h |-> 6, i |-> 7, j |-> 8, k |-> 9, m |-> 10, o |-> 11, p |-> 12, q |-> 13, r |-> 14, v |-> 15, w |-> 16, x |-> 17]
Least(S) == CHOOSE t \in S : \A u \in S : Rank[t] <= Rank[u]
Place(t, i) == <<t, i>>

\* the answer of a project: the first defect of the root, else the first defect of the least defective type
Canon(S) == IF RootDefects[root] # <<>> THEN Place("root", 1)
            ELSE IF Broken(S) = {} THEN Place("accepted", 0) ELSE Place(Least(Broken(S)), 1)
\* the answers a map-ordered walk may give: any defect of the root or of any type
AnyOf(S) == {Place("root", i) : i \in 1..Len(RootDefects[root])} \cup
          UNION {{Place(t, i) : i \in 1..Len(TypeCat[t])} : t \in Broken(S)}

Answer(S) == IF AnyOf(S) = {} THEN {Place("accepted", 0)}
             ELSE IF Iteration = "sorted" THEN {Canon(S)} ELSE AnyOf(S)

Check == /\ ~done /\ done' = TRUE
         /\ verdict' \in Answer(Range(order))
         \* the second use of the same objects answers like a first use of equal objects
         /\ verdict2' \in (IF reuse = "fresh" THEN {"none"} ELSE Answer(Range(order)))
         /\ UNCHANGED <<root, order, reuse>>

Next == (\E t \in TypeIds : Register(t)) \/ Check
Spec == Init /\ [][Next]_vars

\* the verdict is a function of (root, set of types): independent of registration order and of iteration order
Confluent == done => verdict = Canon(Range(order))
Repeatable == (done /\ reuse # "fresh") => verdict2 = verdict
Sensitive == Cardinality(AnyOf(Range(order))) >= 2

Emit == done => PrintT(ToJson([root |-> root, order |-> order, sensitive |-> Sensitive, reuse |-> reuse]))
===============================================================================
