------------------------------- MODULE Determinism -------------------------------
(* Same input, same answer (property C09).  A project is a root text plus a set   *)
(* of named user types, registered by AddType in some order; Check() then walks    *)
(* the registered types.  Every place where the implementation ranges over a Go    *)
(* map is an explicit nondeterministic choice here (Iteration = "map"): when two   *)
(* registered types are defective, either may be reported.  With                   *)
(* Iteration = "sorted" the walk is by name and the verdict is a function of the   *)
(* project alone (Confluent).  TLC lists, for the harness, every (root, type set,  *)
(* registration order) and marks the order-sensitive configurations, where the     *)
(* repetition-based sampling of the real code is concentrated.                     *)
EXTENDS Integers, Sequences, FiniteSets, TLC, Json

CONSTANTS Iteration,      \* "map" | "sorted"
          MaxTypes

\* catalogue of registered types: name |-> what is wrong with it
TypeCat == [a |-> "ok", b |-> "ok", v |-> "value", w |-> "value", m |-> "missing-ref", r |-> "bad-rule"]
TypeIds == DOMAIN TypeCat
Roots == {"plain", "refs-a", "refs-all"}        \* root mentions no type / @a / every registered name

VARIABLES root, order, done, verdict
vars == <<root, order, done, verdict>>
Range(s) == {s[i] : i \in 1..Len(s)}

Init == root \in Roots /\ order = <<>> /\ done = FALSE /\ verdict = "none"

Register(t) == /\ ~done /\ t \notin Range(order) /\ Len(order) < MaxTypes
               /\ order' = Append(order, t) /\ UNCHANGED <<root, done, verdict>>

Broken(S) == {t \in S : TypeCat[t] # "ok"}
\* total order on names used by the sorted walk
Rank == [a |-> 1, b |-> 2, m |-> 3, r |-> 4, v |-> 5, w |-> 6]
Least(S) == CHOOSE t \in S : \A u \in S : Rank[t] <= Rank[u]

\* AddType of a type with a bad rule fails at registration; the others are found by Check()
Canon(S) == IF Broken(S) = {} THEN "accepted" ELSE Least(Broken(S))

Check == /\ ~done /\ done' = TRUE
         /\ LET S == Range(order) IN
            IF Broken(S) = {} THEN verdict' = "accepted"
            ELSE IF Iteration = "sorted" THEN verdict' = Least(Broken(S))
            ELSE verdict' \in Broken(S)                 \* map iteration: any defective type may come first
         /\ UNCHANGED <<root, order>>

Next == (\E t \in TypeIds : Register(t)) \/ Check
Spec == Init /\ [][Next]_vars

\* the verdict is a function of (root, set of types): independent of registration order and of iteration order
Confluent == done => verdict = Canon(Range(order))
Sensitive == Cardinality(Broken(Range(order))) >= 2

Emit == done => PrintT(ToJson([root |-> root, order |-> order, sensitive |-> Sensitive]))
===============================================================================
