SPECIFICATION Spec
CONSTANTS
  Objects = {"o1","o2"}
  Contents = {"shallow","nested","deeper","badscan","badrule","badvalue","usesT","typeT","orset","rich","typeU","blank","comment","typeC","rootRef","typeObj","usesRule"}
  Ops = {"Check","Example","GetAST","Len","Used","OpenAPI"}
  Registers = TRUE
  Sharing = FALSE
  Plan = ""
  MaxCalls = 5
INVARIANTS TypeOK Emit
PROPERTIES FrozenRegsStable
CHECK_DEADLOCK FALSE
