\* a type object shared by two roots: an heir whose parent is registered on one root and missing on the other
SPECIFICATION Spec
CONSTANTS
  Objects = {"o1","o2","o3","o4"}
  Contents = {"usesHeir","heir","typeObj"}
  Ops = {"Check","Example"}
  Registers = TRUE
  Sharing = TRUE
  Plan = "shared-heir"
  MaxCalls = 8
INVARIANTS TypeOK Emit
PROPERTIES FrozenRegsStable
CHECK_DEADLOCK FALSE
