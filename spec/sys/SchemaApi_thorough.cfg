SPECIFICATION Spec
CONSTANTS
  Objects = {"o1","o2","o3"}
  Contents = {"shallow","badscan","badvalue","usesT","typeT","orset","rich","typeU","blank","typeC"}
  Ops = {"Check","Example","GetAST","OpenAPI"}
  Registers = TRUE
  Sharing = FALSE
  Plan = ""
  MaxCalls = 6
INVARIANTS TypeOK Emit
PROPERTIES FrozenRegsStable
CHECK_DEADLOCK FALSE
