\* one document read lexeme by lexeme with Check and Len in between: every sequence of up to eight calls
SPECIFICATION Spec
CONSTANTS
  Objects = {"o1"}
  Contents = {"c1"}
  Ops = {"Check","Len","Next"}
  Registers = FALSE
  Sharing = FALSE
  Plan = ""
  MaxCalls = 9
INVARIANTS TypeOK Emit
PROPERTIES FrozenRegsStable
CHECK_DEADLOCK FALSE
