\* one type object (@item, which refers to @id) shared by two roots that define @id differently
SPECIFICATION Spec
CONSTANTS
  Objects = {"o1","o2","o3","o4","o5"}
  Contents = {"usesItem","item","idNum","idStr"}
  Ops = {"Example"}
  Registers = TRUE
  Sharing = TRUE
  Plan = "shared-item"
  MaxCalls = 11
INVARIANTS TypeOK Emit
PROPERTIES FrozenRegsStable
CHECK_DEADLOCK FALSE
