--------------------------------- MODULE Pools ---------------------------------
(* Refinement of the result-producing calls of SchemaApi that makes the         *)
(* process-wide buffer pool explicit (notations/jschema/example.go,             *)
(* openapi/internal/tools.go): a call that builds text takes Depth[o] buffers   *)
(* from the pool (any free buffer, or a fresh one - a sound over-approximation  *)
(* of sync.Pool), writes into them, puts them all back, and returns either the  *)
(* outermost buffer's memory itself (ReturnAlias = TRUE: what the pinned tree   *)
(* did) or a private copy (ReturnAlias = FALSE).  The client keeps every result *)
(* together with a snapshot of what it read at return time.                     *)
(*   HeldStable: every held result still reads as its snapshot.                 *)
(*   NoLiveAlias: no held result shares memory with a pooled buffer.            *)
(* With ReturnAlias = TRUE TLC finds the shortest bad history (a prediction the *)
(* harness replays on the real code); with FALSE both invariants hold.          *)
EXTENDS Integers, Sequences, FiniteSets, TLC

CONSTANTS Buffers,           \* identities of buffers that may ever exist
          ReturnAlias, MaxCalls

\* catalogue objects and the number of buffers an Example() of each needs (nesting depth of its containers)
Depth == [shallow |-> 1, nested |-> 2, deeper |-> 3]
Objects == DOMAIN Depth

VARIABLES free,      \* buffers lying in the pool
          born,      \* buffers that exist
          text,      \* [Buffers -> what the buffer's memory currently reads as]; "" after reset
          held,      \* client-held results: seq of [buf |-> b or "copy", snap |-> s]
          ncalls
vars == <<free, born, text, held, ncalls>>

Init == free = {} /\ born = {} /\ text = [b \in Buffers |-> ""] /\ held = <<>> /\ ncalls = 0

\* choose k distinct buffers: free ones or fresh ones
Picks(k) == {S \in SUBSET (free \cup (Buffers \ born)) : Cardinality(S) = k}

\* Example(o): takes Depth[o] buffers, the outermost one receives the whole text "o"
Example(o) ==
  /\ ncalls < MaxCalls
  /\ \E S \in Picks(Depth[o]) : \E outer \in S :
       /\ born' = born \cup S
       /\ free' = free \cup S                                  \* all are put back before returning
       \* Put resets the length, not the memory: the outer buffer still reads as the text
       /\ text' = [b \in Buffers |-> IF b = outer THEN o ELSE IF b \in S THEN "part-of-" \o o ELSE text[b]]
       /\ held' = Append(held, [buf |-> IF ReturnAlias THEN outer ELSE "copy", snap |-> o])
  /\ ncalls' = ncalls + 1

Next == \E o \in Objects : Example(o)
Spec == Init /\ [][Next]_vars

Reads(h) == IF h.buf = "copy" THEN h.snap ELSE text[h.buf]
HeldStable  == \A i \in 1..Len(held) : Reads(held[i]) = held[i].snap
NoLiveAlias == \A i \in 1..Len(held) : held[i].buf = "copy"
TypeOK == free \subseteq born /\ born \subseteq Buffers
===============================================================================
