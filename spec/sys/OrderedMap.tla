------------------------------ MODULE OrderedMap ------------------------------
(* Insertion-ordered dictionary: the reference for the generated containers   *)
(* (schema.RuleASTNodes, schema.ASTNodes, ischema.Constraints,                *)
(* jschema.StringSet).  The abstract state *is* the dictionary: a sequence of *)
(* distinct keys (insertion order) and a function from those keys to values.  *)
(* One action per public mutating call; read-only calls (Len, Has, Get, Each, *)
(* EachSafe, Find, MarshalJSON) are observations of the state and are compared *)
(* by the replay harness after every action.                                   *)
EXTENDS Integers, Sequences, FiniteSets, TLC, Json

CONSTANTS Keys,      \* small key universe, e.g. {"k1","k2","k3"}
          Vals,      \* small value universe, e.g. {"v1","v2"}
          MaxOps     \* bound on the number of operations (exhaustive configs)

VARIABLES order,     \* Seq(Keys) without repetitions: insertion order
          data,      \* [keys present -> Vals]
          nops,      \* number of operations applied (bounds the exploration)
          last       \* the last operation, as a record (what the replay performs)

vars == <<order, data, nops, last>>

Range(s) == {s[i] : i \in 1..Len(s)}

Init == /\ order = <<>>
        /\ data = [k \in {} |-> "v1"]
        /\ nops = 0
        /\ last = [op |-> "init"]

Tick == nops < MaxOps /\ nops' = nops + 1

(* Set: new key is appended; existing key keeps its position. *)
Set(k, v) ==
    /\ Tick
    /\ order' = IF k \in DOMAIN data THEN order ELSE Append(order, k)
    /\ data'  = [x \in DOMAIN data \cup {k} |-> IF x = k THEN v ELSE data[x]]
    /\ last'  = [op |-> "set", k |-> k, v |-> v]

(* Update: applies a function to the value of a present key; absent key: no-op. *)
(* The function used by the replay maps every value to v.                      *)
Update(k, v) ==
    /\ Tick
    /\ order' = order
    /\ data'  = IF k \in DOMAIN data THEN [data EXCEPT ![k] = v] ELSE data
    /\ last'  = [op |-> "update", k |-> k, v |-> v]

(* Delete: present key is removed, others keep relative order; absent: no-op. *)
Delete(k) ==
    /\ Tick
    /\ order' = SelectSeq(order, LAMBDA x : x # k)
    /\ data'  = [x \in DOMAIN data \ {k} |-> data[x]]
    /\ last'  = [op |-> "delete", k |-> k]

(* Filter: keeps exactly the entries whose key is in P (P ranges over SUBSET Keys). *)
Filter(P) ==
    /\ Tick
    /\ order' = SelectSeq(order, LAMBDA x : x \in P)
    /\ data'  = [x \in DOMAIN data \cap P |-> data[x]]
    /\ last'  = [op |-> "filter", keep |-> P]

(* Map: replaces the value of every entry whose key is in P by v (others unchanged). *)
MapOp(P, v) ==
    /\ Tick
    /\ order' = order
    /\ data'  = [x \in DOMAIN data |-> IF x \in P THEN v ELSE data[x]]
    /\ last'  = [op |-> "map", on |-> P, v |-> v]

(* Map whose callback fails at key k: the entries before k (in iteration order) whose key is in P have been given v, *)
(* k itself and everything after it are what they were - whatever the callback returned next to its error.           *)
Pos(x) == CHOOSE i \in 1..Len(order) : order[i] = x
MapFail(P, v, k) ==
    /\ Tick
    /\ k \in DOMAIN data
    /\ order' = order
    /\ data'  = [x \in DOMAIN data |-> IF x \in P /\ Pos(x) < Pos(k) THEN v ELSE data[x]]
    /\ last'  = [op |-> "mapfail", on |-> P, v |-> v, k |-> k]

(* Filter whose callback panics at key k (the caller recovers and goes on using the container): the entries before *)
(* k that the callback rejected are gone, k and everything after it are what they were, and the container is as     *)
(* consistent as after any other operation.                                                                          *)
FilterPanic(P, k) ==
    /\ Tick
    /\ k \in DOMAIN data
    /\ order' = SelectSeq(order, LAMBDA x : x \in P \/ Pos(x) >= Pos(k))
    /\ data'  = [x \in {y \in DOMAIN data : y \in P \/ Pos(y) >= Pos(k)} |-> data[x]]
    /\ last'  = [op |-> "filterpanic", keep |-> P, k |-> k]

(* What a key is spelled like is not the container's business: the model's keys are abstract names, and every    *)
(* behaviour is replayed with the keys spelled as named and as each row below spells them.  The rows hold what     *)
(* a text written to JSON has to treat specially: the empty key, quotation mark and backslash, control characters  *)
(* with and without a short escape in JSON (which differ from those of Go), DEL, characters beyond ASCII and        *)
(* beyond the basic plane, U+2028, and what HTML-safe encoders escape.  TLC prints ASCII only: <NUL> <SOH> <BEL>    *)
(* <VT> <DEL> <EACUTE> <LS> <CUP> stand for U+0000, U+0001, U+0007, U+000B, U+007F, U+00E9, U+2028, U+1F3C6.      *)
Spellings == <<
  [k1 |-> "", k2 |-> "a\"b", k3 |-> "a\\b", k4 |-> "<SOH>", k5 |-> "<DEL>x", k6 |-> "<EACUTE>t<EACUTE>"],
  [k1 |-> "<BEL>", k2 |-> "<VT>", k3 |-> "<NUL>", k4 |-> "<LS>", k5 |-> "</a>&", k6 |-> "<CUP>"],
  [k1 |-> "\n", k2 |-> "\t", k3 |-> " ", k4 |-> "k4\\", k5 |-> "\"", k6 |-> "k1"] >>
SpellingsAreInjective == \A i \in 1..Len(Spellings) : \A a, b \in DOMAIN Spellings[i] : Spellings[i][a] = Spellings[i][b] => a = b
ASSUME SpellingsAreInjective
ASSUME PrintT(ToJson([spellings |-> Spellings]))

Next == \/ \E k \in Keys, v \in Vals : Set(k, v)
        \/ \E k \in Keys, v \in Vals : Update(k, v)
        \/ \E k \in Keys : Delete(k)
        \/ \E P \in SUBSET Keys : Filter(P)
        \/ \E P \in SUBSET Keys, v \in Vals : MapOp(P, v)
        \/ \E P \in {{}} \cup {Keys \ {x} : x \in Keys}, k \in Keys : FilterPanic(P, k)   \* (every subset by simulation)
        \/ \E v \in Vals, k \in Keys : MapFail(Keys, v, k)      \* (every key mapped up to the failing one; SimNext draws subsets)

Spec == Init /\ [][Next]_vars

-------------------------------------------------------------------------------
(* Design-level properties checked by TLC on the specification itself. *)

TypeOK == /\ order \in Seq(Keys)
          /\ DOMAIN data \subseteq Keys
          /\ \A k \in DOMAIN data : data[k] \in Vals

(* The order is a permutation of the keys present. *)
OrderIsPermutationOfKeys ==
    /\ \A i, j \in 1..Len(order) : i # j => order[i] # order[j]
    /\ Range(order) = DOMAIN data

(* Order of surviving keys never changes: an action property. *)
Before(s, a, b) == \E i, j \in 1..Len(s) : i < j /\ s[i] = a /\ s[j] = b
RelativeOrderStable ==
    [][\A a, b \in Keys : (a \in Range(order') /\ b \in Range(order') /\ Before(order, a, b))
                             => Before(order', a, b)]_vars

(* First result of Find(pred on keys P) and the Each sequence, as the spec defines them *)
FindFirst(P) == LET hits == SelectSeq(order, LAMBDA x : x \in P)
                IN IF hits = <<>> THEN "none" ELSE hits[1]

\* Next relation for `tlc -simulate`: the kind of operation is drawn first (TLC would otherwise pick uniformly among
\* all action instances, and the 64 subsets of Filter and Map would crowd out Set and Delete)
SimNext == LET kind == RandomElement({"set", "set", "set", "update", "delete", "delete", "filter", "map", "mapfail", "filterpanic"}) IN
           CASE kind = "set"    -> \E k \in Keys, v \in Vals : Set(k, v)
             [] kind = "update" -> \E k \in Keys, v \in Vals : Update(k, v)
             [] kind = "delete" -> \E k \in Keys : Delete(k)
             [] kind = "filter" -> \E P \in SUBSET Keys : Cardinality(P) >= Cardinality(Keys) - 2 /\ Filter(P)
             [] kind = "mapfail" -> \E P \in SUBSET Keys, v \in Vals, k \in Keys : MapFail(P, v, k)
             [] kind = "filterpanic" -> \E P \in SUBSET Keys, k \in Keys : FilterPanic(P, k)
             [] OTHER           -> \E P \in SUBSET Keys, v \in Vals : MapOp(P, v)
SimSpec == Init /\ [][SimNext]_vars

\* the same for a large key universe (seventy keys: past the sizes at which maps and slices grow): every argument is
\* drawn with RandomElement, subsets are "all keys but two"; sets outnumber deletes so that the containers fill up
SimNextBig == LET kind == RandomElement({"set", "set", "set", "set", "set", "update", "delete", "delete", "filter", "map"})
                  k1 == RandomElement(Keys) k2 == RandomElement(Keys) v == RandomElement(Vals) IN
              CASE kind = "set"    -> Set(k1, v)
                [] kind = "update" -> Update(k1, v)
                [] kind = "delete" -> Delete(k1)
                [] kind = "filter" -> Filter(Keys \ {k1, k2})
                [] OTHER           -> MapOp(Keys \ {k1, k2}, v)
SimSpecBig == Init /\ [][SimNextBig]_vars

\* emission for `tlc -simulate` (long random behaviours over a larger key universe): one line per state, in behaviour order
Emit == PrintT(ToJson([n |-> nops, last |-> last, order |-> order, data |-> data]))

\* VIEW used by the exhaustive configurations: nops and last only bound/label the search.
View == <<order, data>>
===============================================================================
