\* one parent type object shared by a root that inherits from two types and a root that inherits from it alone
SPECIFICATION Spec
CONSTANTS
  Objects = {"o1","o2","o3","o4"}
  Contents = {"heirOfTwo","typeObj","typeObj2","heirOfOne"}
  Ops = {"Check","Example","OpenAPI","GetAST"}
  Registers = TRUE
  Sharing = TRUE
  Plan = "shared-parent"
  MaxCalls = 10
INVARIANTS TypeOK Emit
PROPERTIES FrozenRegsStable
CHECK_DEADLOCK FALSE
