\* every history of at most two calls on one object: the call prefixes after which the semantic checks
\* (C01, C03-C08) repeat their assertions (the result of a call depends on text and registrations only)
SPECIFICATION Spec
CONSTANTS
  Objects = {"o1"}
  Contents = {"shallow"}
  Ops = {"Check","Example","GetAST","Len","Used","OpenAPI"}
  Registers = TRUE
  Sharing = FALSE
  Plan = ""
  MaxCalls = 3
INVARIANTS TypeOK Emit
PROPERTIES FrozenRegsStable
CHECK_DEADLOCK FALSE
