\* Complete labelled transition system of the reference dictionary (79 states):
\* MaxOps is irrelevant under the VIEW, which drops nops/last.
SPECIFICATION Spec
CONSTANTS
  Keys = {"k1","k2","k3"}
  Vals = {"v1","v2"}
  MaxOps = 100
INVARIANTS TypeOK OrderIsPermutationOfKeys
PROPERTIES RelativeOrderStable
VIEW View
CHECK_DEADLOCK FALSE
