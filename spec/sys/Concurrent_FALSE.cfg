SPECIFICATION Spec
CONSTANTS
  Procs = {1, 2}
  OpsC = {"Check","Example","GetAST","OpenAPI"}
  ContentsC = {"nested","usesT","orset","rich"}
  MaxProg = 2
  Buffers = {"b1","b2","b3","b4"}
  Shared = FALSE
INVARIANTS NoBufferSharedByTwoProcesses NothingHeldOutsideCalls ResultsAreSequential OnceRunsOnce EmitWork
CHECK_DEADLOCK FALSE
