SPECIFICATION Spec
CONSTANTS
  MaxNames = 20
  MaxMentions = 21
  Family = "seq"
INVARIANTS UsedIsASet Emit
CHECK_DEADLOCK FALSE
