--------------------------------- MODULE Layout ---------------------------------
(* The presentation choices that must not change the meaning of a schema text    *)
(* (property C14): line ends, annotation style, quoting of rule names, padding,  *)
(* user comments, leading/trailing blank lines.  A layout is reached from the    *)
(* plain one by toggle actions; every reachable layout is emitted and the        *)
(* harness prints each project of SchemaText.tla under the layouts (all of them  *)
(* in the thorough tier, a seeded sample in the quick tier) - the orbit of the   *)
(* project.  The printer keeps every annotated element alone on its line and     *)
(* puts user comments only on lines of their own or after a complete value that  *)
(* carries no annotation, so no layout can cause a rejection by itself.          *)
EXTENDS Integers, TLC, Json

VARIABLES nl, multi, quote, pad, comments, split, lead, tail
vars == <<nl, multi, quote, pad, comments, split, lead, tail>>

Init == nl = "lf" /\ multi = 0 /\ quote = 0 /\ pad = 0 /\ comments = 0 /\ split = 0 /\ lead = 0 /\ tail = 0

SetNewline(k)   == nl' = k /\ k \in {"lf", "crlf", "cr"} /\ UNCHANGED <<multi, quote, pad, comments, split, lead, tail>>
SetStyle(m)     == multi' = m /\ m \in 0..2 /\ UNCHANGED <<nl, quote, pad, comments, split, lead, tail>>
\* rule names: 0 all bare, 1 all quoted, 2 quoted at the top of the annotation and bare inside nested rule-sets,
\* 3 the reverse, 4 every second name quoted
SetQuotes(q)    == quote' = q /\ q \in 0..4 /\ UNCHANGED <<nl, multi, pad, comments, split, lead, tail>>
\* padding between tokens: 0-2 blanks, 3 a tab, 4 a blank and a tab
Pad(n)          == pad' = n /\ n \in 0..4 /\ UNCHANGED <<nl, multi, quote, comments, split, lead, tail>>
Comments(n)     == comments' = n /\ n \in 0..4 /\ UNCHANGED <<nl, multi, quote, pad, split, lead, tail>>
\* one annotation written as two: 1 = `/* note */ // {rules}` (or the first rule apart from the others) on one line,
\* 2 = `// {rules}` and the note as an annotation of its own on the next line
Split(n)        == split' = n /\ n \in 0..2 /\ UNCHANGED <<nl, multi, quote, pad, comments, lead, tail>>
LeadingBlank(n) == lead' = n /\ n \in 0..1 /\ UNCHANGED <<nl, multi, quote, pad, comments, split, tail>>
TrailingBlank(n) == tail' = n /\ n \in {0, 2} /\ UNCHANGED <<nl, multi, quote, pad, comments, split, lead>>

Next == \/ \E k \in {"lf", "crlf", "cr"} : SetNewline(k)
        \/ \E m \in 0..4 : SetStyle(m) \/ Pad(m) \/ Comments(m)
        \/ \E q \in 0..4 : SetQuotes(q)
        \/ \E n \in 0..2 : LeadingBlank(n) \/ TrailingBlank(n) \/ Split(n)
Spec == Init /\ [][Next]_vars

\* every layout is reachable from every other one: the orbit is one connected class
TypeOK == nl \in {"lf", "crlf", "cr"} /\ multi \in 0..2 /\ quote \in 0..4 /\ pad \in 0..4 /\ comments \in 0..4 /\ split \in 0..2 /\ lead \in 0..1 /\ tail \in {0, 2}
Emit == PrintT(ToJson([nl |-> nl, multi |-> multi, quote |-> quote, pad |-> pad, comments |-> comments, split |-> split,
                       lead_blank |-> lead, tail_blank |-> tail]))
===============================================================================
