---------------------------- MODULE SchemaModelExtra ----------------------------
(* Further rule families of property C01 - enum, const, nullable, built-in       *)
(* string formats, `or` with two real alternatives - as small builder machines   *)
(* that produce the schema text itself (the concrete syntax is part of the       *)
(* specification here) together with the verdict the documented meaning demands. *)
EXTENDS RuleSemantics, Json

\* mixed scalar catalogue: text, identity for "is the same value" (decoded string, or the literal itself)
Sc(t, id, k) == [text |-> t, id |-> id, k |-> k]
ScalarCat == << Sc("1", "l:1", "integer"), Sc("\"1\"", "s:1", "string"), Sc("1.5", "l:1.5", "float"), Sc("\"a\"", "s:a", "string"),
                Sc("\"\\u0061\"", "s:a", "string"), Sc("\"b\"", "s:b", "string"), Sc("true", "l:true", "boolean"),
                Sc("null", "l:null", "null"), Sc("2", "l:2", "integer"), Sc("\"a.b\"", "s:a.b", "string"),
                Sc("\"a\\fb\"", "s:a-ff-b", "string"), Sc("\"\\u0001\"", "s:soh", "string") >>
N == Len(ScalarCat)

\* format samples with obvious validity
Fmt(ty, t, ok) == [type |-> ty, text |-> t, ok |-> ok]
FmtCat == << Fmt("email", "\"user@example.com\"", TRUE), Fmt("email", "\"no-at-sign\"", FALSE), Fmt("email", "\"\"", FALSE),
             Fmt("uri", "\"https://example.com/path?x=1\"", TRUE), Fmt("uri", "\"not a uri\"", FALSE),
             Fmt("uuid", "\"123e4567-e89b-12d3-a456-426614174000\"", TRUE), Fmt("uuid", "\"123\"", FALSE),
             Fmt("uuid", "\"123e4567-e89b-12d3-a456-42661417400g\"", FALSE),
             Fmt("date", "\"2021-12-31\"", TRUE), Fmt("date", "\"2021-13-45\"", FALSE), Fmt("date", "\"12/31/2021\"", FALSE),
             Fmt("datetime", "\"2021-12-31T23:59:59Z\"", TRUE), Fmt("datetime", "\"2021-01-02T07:23:12+03:00\"", TRUE),
             Fmt("datetime", "\"2021-12-31 23:59:59\"", FALSE), Fmt("datetime", "\"2021-12-31\"", FALSE),
             \* a two-byte character where two digits are expected: the byte length is that of a valid value
             \* (placeholder <E9>, TLC prints ASCII only)
             Fmt("uuid", "\"550e8400-e29b-41d4-a716-4466554400<E9>\"", FALSE), Fmt("uuid", "\"<E9>50e8400e29b41d4a71644665544000\"", FALSE),
             Fmt("date", "\"2021-12-<E9>\"", FALSE), Fmt("datetime", "\"2021-12-31T23:59:<E9>Z\"", FALSE),
             Fmt("email", "\"<E9>\"", FALSE), Fmt("uri", "\"<E9>\"", FALSE) >>

VARIABLES fam, root, typ, expect, stage, list
vars == <<fam, root, typ, expect, stage, list>>
Init == fam = "" /\ root = "" /\ typ = "" /\ expect = "" /\ stage = "start" /\ list = <<>>

Verdict(b) == IF b THEN "accept" ELSE "reject"
RECURSIVE JoinTexts(_, _)
JoinTexts(s, i) == IF i > Len(s) THEN "" ELSE ScalarCat[s[i]].text \o (IF i < Len(s) THEN ", " ELSE "") \o JoinTexts(s, i + 1)
Member(v, s) == \E k \in 1..Len(s) : ScalarCat[s[k]].id = ScalarCat[v].id
Wrap(skel, text) == IF skel = "prop" THEN "{\n  \"k\": " \o text \o "\n}"
                    ELSE IF skel = "item" THEN "[\n  " \o text \o "\n]" ELSE text

\* ---- enum: the list is built element by element (distinct values only: duplicates are C17's business)
StartEnum == stage = "start" /\ stage' = "enum" /\ fam' = "enum" /\ UNCHANGED <<root, typ, expect, list>>
EnumAdd(i) == /\ stage = "enum" /\ Len(list) < 3 /\ ~Member(i, list)
              /\ list' = Append(list, i) /\ UNCHANGED <<fam, root, typ, expect, stage>>
EnumFinish(v, skel) ==
  /\ stage = "enum" /\ list # <<>>
  \* a value that refers to a type is written with the JSON kind of the type's own example
  \* (whether an enum type also admits its listed values of other kinds there is not settled by the statement)
  /\ (skel = "ref") => ScalarCat[v].k = ScalarCat[list[1]].k
  /\ LET ann == " // {enum: [" \o JoinTexts(list, 1) \o "]}" IN
     IF skel = "ref"
     THEN root' = ScalarCat[v].text \o " // {type: \"@t\"}" /\ typ' = ScalarCat[list[1]].text \o ann
     ELSE root' = Wrap(skel, ScalarCat[v].text \o ann) /\ typ' = ""
  /\ expect' = Verdict(Member(v, list)) /\ stage' = "done" /\ UNCHANGED <<fam, list>>

\* ---- const: the type's example is the only allowed value
Const(v, tv, skel) ==
  /\ stage = "start" /\ fam' = "const" /\ stage' = "done" /\ list' = <<>>
  /\ ScalarCat[v].id = ScalarCat[tv].id \/ ScalarCat[v].text # ScalarCat[tv].text
  /\ (skel = "ref") => ScalarCat[v].k = ScalarCat[tv].k
  /\ IF skel = "ref"
     THEN root' = ScalarCat[v].text \o " // {type: \"@t\"}" /\ typ' = ScalarCat[tv].text \o " // {const: true}"
          /\ expect' = Verdict(ScalarCat[v].id = ScalarCat[tv].id)
     ELSE root' = Wrap(skel, ScalarCat[v].text \o " // {const: true}") /\ typ' = "" /\ expect' = "accept" /\ v = tv

\* ---- nullable: null is a value of a nullable node and of nothing else
Nullable(isNull, flag, skel) ==
  /\ stage = "start" /\ fam' = "nullable" /\ stage' = "done" /\ list' = <<>>
  /\ (skel = "ref") => ~isNull           \* a null written where a type is referred to: not settled (see above)
  /\ LET val == IF isNull THEN "null" ELSE "5"
         rule == IF flag = "absent" THEN "" ELSE ", nullable: " \o flag
     IN IF skel = "ref"
        THEN root' = val \o " // {type: \"@t\"}" /\ typ' = "5 // {type: \"integer\"" \o rule \o "}"
        ELSE root' = Wrap(skel, val \o " // {type: \"integer\"" \o rule \o "}") /\ typ' = ""
  /\ expect' = Verdict(~isNull \/ flag = "true")

\* ---- formats
Format(i, skel) ==
  /\ stage = "start" /\ fam' = "format" /\ stage' = "done" /\ list' = <<>>
  /\ root' = Wrap(skel, FmtCat[i].text \o " // {type: \"" \o FmtCat[i].type \o "\"}") /\ typ' = ""
  /\ expect' = Verdict(FmtCat[i].ok)

\* ---- calendar: a date is a day that exists in the proleptic Gregorian calendar, written YYYY-MM-DD; a datetime adds
\* an hour below 24 and a minute below 60 (seconds are left at 00: leap seconds are not settled by the statement)
IsLeap(y) == (y % 4 = 0 /\ y % 100 # 0) \/ y % 400 = 0
DaysIn(m, y) == IF m \in {1, 3, 5, 7, 8, 10, 12} THEN 31 ELSE IF m \in {4, 6, 9, 11} THEN 30 ELSE IF IsLeap(y) THEN 29 ELSE 28
DateOK(y, m, d) == m \in 1..12 /\ d >= 1 /\ d <= DaysIn(m, y)
Pad2(n) == IF n < 10 THEN "0" \o ToString(n) ELSE ToString(n)
DateText(y, m, d) == ToString(y) \o "-" \o Pad2(m) \o "-" \o Pad2(d)
CalYears == {1600, 1900, 1999, 2000, 2023, 2024, 2100, 2400}
CalMonths == {0, 1, 2, 4, 9, 12, 13}
CalDays == {0, 1, 28, 29, 30, 31, 32}
Calendar(y, m, d, skel) ==
  /\ stage = "start" /\ fam' = "calendar" /\ stage' = "done" /\ list' = <<>>
  /\ root' = Wrap(skel, "\"" \o DateText(y, m, d) \o "\" // {type: \"date\"}") /\ typ' = ""
  /\ expect' = Verdict(DateOK(y, m, d))
Clock(y, m, d, h, mi, skel) ==
  /\ stage = "start" /\ fam' = "calendar" /\ stage' = "done" /\ list' = <<>>
  /\ root' = Wrap(skel, "\"" \o DateText(y, m, d) \o "T" \o Pad2(h) \o ":" \o Pad2(mi) \o ":00Z\" // {type: \"datetime\"}") /\ typ' = ""
  /\ expect' = Verdict(DateOK(y, m, d) /\ h < 24 /\ mi < 60)

\* ---- `or` with two real alternatives: integer with a lower bound, string with a maximal length
Or2(kind, i, b, m) ==
  /\ stage = "start" /\ fam' = "or2" /\ stage' = "done" /\ list' = <<>>
  /\ b \in {6, 9} /\ m \in 0..2
  /\ LET text == IF kind = "num" THEN NumCat[i].text ELSE StrCat[i].text
         ok   == IF kind = "num" THEN ~NumCat[i].dot /\ CmpNum(NumCat[i], NumCat[b]) >= 0 ELSE StrCat[i].len <= m
     IN /\ (kind = "num" => ~NumCat[i].dot)
        /\ root' = text \o " // {or: [{type: \"integer\", min: " \o NumCat[b].text \o "}, {type: \"string\", maxLength: " \o ToString(m) \o "}]}"
        /\ typ' = "" /\ expect' = Verdict(ok)

\* ---- `or` over the whole type vocabulary, alternatives written as a name or as a rule-set
\* The verdict is stated only where the documented families leave no doubt (a number given to "float"/"decimal",
\* strings given to a format, are left open: "unknown" projects are still converted and crash-tested).
TypeVocab == <<"integer", "float", "decimal", "string", "boolean", "null", "email", "uri", "uuid", "date", "datetime",
               "any", "object", "array", "enum">>
OrValues == {1, 2, 3, 4, 7, 8}          \* 1, "1", 1.5, "a", true, null of ScalarCat
Fits(v, T) == LET k == ScalarCat[v].k IN
              IF T = "any" THEN "yes"
              ELSE IF T = "enum" THEN (IF ScalarCat[v].id \in {"l:1", "s:a"} THEN "yes" ELSE "no")      \* the list is [1, "a"]
              ELSE IF k = "integer" THEN (IF T = "integer" THEN "yes" ELSE IF T \in {"float", "decimal"} THEN "open" ELSE "no")
              ELSE IF k = "float" THEN (IF T = "float" THEN "yes" ELSE IF T = "decimal" THEN "open" ELSE "no")
              ELSE IF k = "string" THEN (IF T = "string" THEN "yes" ELSE IF T \in {"email", "uri", "uuid", "date", "datetime"} THEN "no" ELSE "no")
              ELSE IF k = "boolean" THEN (IF T = "boolean" THEN "yes" ELSE "no")
              ELSE (IF T = "null" THEN "yes" ELSE "no")
AltText(T, form) == IF T = "enum" THEN "{type: \"enum\", enum: [1, \"a\"]}"        \* an enum needs its list: rule-set form only
                    ELSE IF T = "decimal" THEN "{type: \"decimal\", precision: 2}"
                    ELSE IF form = "name" THEN "\"" \o T \o "\"" ELSE "{type: \"" \o T \o "\"}"
\* nf: the node is also `nullable: true`.  That takes nothing away; whether it makes a null acceptable that no
\* alternative admits is left open like every null written where types are referred to (see Nullable).
OrVocab(v, i, j, fi, fj, skel, nf) ==
  /\ stage = "start" /\ fam' = (IF nf THEN "orvocab-nullable" ELSE "orvocab") /\ stage' = "done" /\ list' = <<>>
  /\ i # j
  /\ LET a == Fits(v, TypeVocab[i]) b == Fits(v, TypeVocab[j]) IN
     /\ expect' = IF a = "yes" \/ b = "yes" THEN "accept"
                  ELSE IF nf /\ ScalarCat[v].k = "null" THEN "unknown"
                  ELSE IF a = "no" /\ b = "no" THEN "reject" ELSE "unknown"
     /\ root' = Wrap(skel, ScalarCat[v].text \o " // {or: [" \o AltText(TypeVocab[i], fi) \o ", " \o AltText(TypeVocab[j], fj) \o "]"
                              \o (IF nf THEN ", nullable: true" ELSE "") \o "}")
     /\ typ' = ""

\* ---- additionalProperties over the whole type vocabulary (what the rule admits is not C01's business: the
\* projects are converted and crash-tested; the own example has no additional property, so it must be accepted
\* whenever the rule value is admitted at all)
ApVocab(i) ==
  /\ stage = "start" /\ fam' = "apvocab" /\ stage' = "done" /\ list' = <<>>
  /\ LET T == IF i <= Len(TypeVocab) THEN TypeVocab[i] ELSE "mixed" IN
     root' = "{ // {additionalProperties: \"" \o T \o "\"}\n  \"a\": 1\n}"
  /\ typ' = "" /\ expect' = "unknown"

\* the same with a key shortcut among the properties (the shortcut's values are additional properties too)
ApVocabShortcut(i) ==
  /\ stage = "start" /\ fam' = "apvocab-shortcut" /\ stage' = "done" /\ list' = <<>>
  /\ LET T == IF i <= Len(TypeVocab) THEN TypeVocab[i] ELSE "mixed" IN
     root' = "{ // {additionalProperties: \"" \o T \o "\"}\n  @t: 1,\n  \"a\": 1\n}"
  /\ typ' = "\"key\"" /\ expect' = "unknown"

\* ---- key shortcuts: the key of the example is the example of the key's type, whatever it is made of
KeyStrings == <<"\"a\"", "\"a\\\"\"", "\"\\\"a\"", "\"\\\"\"", "\"a\\\\\"", "\"\\\\\"", "\"a b\"", "\"\\u0041\"", "\"a\\nb\"", "\"\"">>
KeyShortcut(i, v) ==
  /\ stage = "start" /\ fam' = "keyshortcut" /\ stage' = "done" /\ list' = <<>>
  /\ root' = "{\n  @t: " \o ScalarCat[v].text \o "\n}"
  /\ typ' = KeyStrings[i] /\ expect' = "accept"

\* a key shortcut followed by a literal key that is spelled like the example of the shortcut's type: both are
\* properties of the object (the literal one is required and keeps its own value kind).  The example then has the name
\* twice; a reader that lets the last one win sees the literal property.  (The other order is left out: what an
\* example with a duplicated name means when the shortcut's value comes last is not settled by the statement.)
KeyShortcutTwin(i, first) ==
  /\ stage = "start" /\ fam' = "keyshortcut-twin" /\ stage' = "done" /\ list' = <<>>
  /\ i \in {1, 4, 7} /\ first
  /\ root' = IF first THEN "{\n  @t: 1,\n  " \o KeyStrings[i] \o ": \"x\"\n}"
                       ELSE "{\n  " \o KeyStrings[i] \o ": \"x\",\n  @t: 1\n}"
  /\ typ' = KeyStrings[i] /\ expect' = "unknown"

\* ---- an enum list spread over the lines of a /* */ annotation, with // comments in every subset of the five places a
\* line offers: after the opening bracket, on a line of its own before the first item, after the first item, on a line
\* of its own between the items, after the last item.  The comments are presentation: the list is ["a", "b"].
Bit(m, k) == (m \div (2 ^ k)) % 2 = 1
EnumLines(m, val) ==
  /\ stage = "start" /\ fam' = "enumlines" /\ stage' = "done" /\ list' = <<>>
  /\ root' = val \o " /* {enum: [" \o (IF Bit(m, 0) THEN " // c0" ELSE "") \o "\n"
               \o (IF Bit(m, 1) THEN "  // c1\n" ELSE "")
               \o "  \"a\"," \o (IF Bit(m, 2) THEN " // c2" ELSE "") \o "\n"
               \o (IF Bit(m, 3) THEN "  // c3\n" ELSE "")
               \o "  \"b\"" \o (IF Bit(m, 4) THEN " // c4" ELSE "") \o "\n]} */"
  /\ typ' = "" /\ expect' = (IF val = "\"z\"" THEN "reject" ELSE "accept")

\* ---- one named enum rule (text in `typ`, marked "rule:"; registered with AddRule as @t) referred to by two nodes of
\* one schema: each reference means the list the rule text says, however the text is laid out (comments on lines of
\* their own included) and however often the rule has been read before
NamedRuleTexts == << "[\"x\", \"y\", 3]", "[\n  \"x\", // first\n  // a line that holds nothing but a comment\n  \"y\",\n  3 // last\n]",
                     "[ // c\n  \"x\",\n  // c\n  // c\n  \"y\", 3\n]" >>
NamedEnumVals == << "\"x\"", "\"y\"", "3", "\"z\"" >>
NamedEnumTwice(r, a, b) ==
  /\ stage = "start" /\ fam' = "namedenum" /\ stage' = "done" /\ list' = <<>>
  /\ root' = "{\n  \"a\": " \o NamedEnumVals[a] \o ", // {enum: @t}\n  \"b\": " \o NamedEnumVals[b] \o " // {enum: @t}\n}"
  /\ typ' = "rule:" \o NamedRuleTexts[r]
  /\ expect' = Verdict(a # 4 /\ b # 4)

\* ---- regex rules whose expression begins or ends with a slash, or escapes it (a JSight `regex` rule has no delimiters:
\* every character belongs to the expression); the value next to each matches
RegexRuleTexts == << "\"/api/v1\" // {regex: \"^\\\\/api\\\\/\"}",
                "\"//x\" // {regex: \"/+x\"}",
                "\"a/\" // {regex: \"\\\\/$\"}",
                "\"/a\" // {regex: \"^/\"}",
                "\"ba/c\" // {regex: \"a/\"}",
                "\"a/b\" // {regex: \"/\"}",
                "\"/\" // {regex: \"^\\\\/$\"}",
                "\"a//b\" // {regex: \"\\\\/\\\\/\"}",
                "\"x\" // {regex: \"/?\"}",
                "\"///\" // {regex: \"^[/]+$\"}" >>
RegexRule(i, skel) ==
  /\ stage = "start" /\ fam' = "regexrule" /\ stage' = "done" /\ list' = <<>>
  /\ root' = Wrap(skel, RegexRuleTexts[i]) /\ typ' = "" /\ expect' = "accept"

\* ---- size: n members that all refer to one user type (or carry one rule each), for the sizes at which an
\* implementation may switch its bookkeeping or meet a limit.  The text is long and regular: the specification gives
\* shape and size, `root` holds the member pattern with # for the member number, the harness repeats it n times.
ScaledSizes == {15, 16, 17, 255, 256, 257, 1000, 1023, 1024, 1025, 1100, 4096}
ScaledShapes == <<"object-of-refs", "array-of-refs", "object-of-ruled-scalars", "object-of-or-refs">>
Scaled(n, sh) ==
  /\ stage = "start" /\ fam' = "scaled:" \o ScaledShapes[sh] \o ":" \o ToString(n) /\ stage' = "done" /\ list' = <<>>
  /\ root' = CASE sh = 1 -> "  \"k#\": @t"
              [] sh = 2 -> "  @t"
              [] sh = 3 -> "  \"k#\": # // {min: 0}"
              [] OTHER  -> "  \"k#\": 1 // {or: [\"@t\", \"integer\"]}"
  /\ typ' = IF sh = 3 THEN "" ELSE "{\n  \"v\": 1\n}"
  /\ expect' = "accept"

\* ---- every rule name with a value of every JSON kind: most combinations are refused - what is demanded of them
\* is a proper diagnostic (C16) and no crash (C02), whatever the verdict
RuleNamesAll == <<"type", "min", "max", "exclusiveMinimum", "exclusiveMaximum", "precision", "minLength", "maxLength",
                  "regex", "minItems", "maxItems", "optional", "nullable", "const", "enum", "or", "allOf",
                  "additionalProperties", "serializeFormat", "nosuchrule">>
RuleValuesAll == <<"0", "-1", "1.5", "\"x\"", "\"\"", "true", "null", "[]", "[1]", "{}", "{a: 1}", "@t", "\"@t\"", "[\"@t\"]">>
RuleKinds(r, v, x) ==
  /\ stage = "start" /\ fam' = "rulekinds" /\ stage' = "done" /\ list' = <<>>
  /\ root' = Wrap(IF x = 1 THEN "root" ELSE "prop", ScalarCat[IF x = 1 THEN 1 ELSE 4].text \o " // {" \o RuleNamesAll[r] \o ": " \o RuleValuesAll[v] \o "}")
  /\ typ' = "\"s\"" /\ expect' = "unknown"

\* ---- numeric rules with values at and beyond the machine word sizes, on a value that fits the rule
BigValues == <<"2147483648", "4294967295", "9223372036854775807", "9223372036854775808", "18446744073709551615",
               "18446744073709551616", "1000000000000000000000000000000">>
BigRules == <<[r |-> "precision", v |-> "1.5", pre |-> "type: \"decimal\", "], [r |-> "min", v |-> "1.5", pre |-> ""],
              [r |-> "max", v |-> "1.5", pre |-> ""], [r |-> "minLength", v |-> "\"a\"", pre |-> ""],
              [r |-> "maxLength", v |-> "\"a\"", pre |-> ""], [r |-> "minItems", v |-> "[]", pre |-> ""],
              [r |-> "maxItems", v |-> "[]", pre |-> ""]>>
BigRule(r, b, neg) ==
  /\ stage = "start" /\ fam' = "bigrule" /\ stage' = "done" /\ list' = <<>>
  /\ (neg => BigRules[r].r \in {"min", "max"})
  /\ root' = BigRules[r].v \o " // {" \o BigRules[r].pre \o BigRules[r].r \o ": " \o (IF neg THEN "-" ELSE "") \o BigValues[b] \o "}"
  /\ typ' = "" /\ expect' = "unknown"

\* ---- diagnostics that quote a piece of the rejected input: whatever that piece looks like - formatting directives
\* of the implementation language, placeholders of other template languages, escapes, quotation marks - the rejection
\* is the same diagnostic with the same code as for a harmless piece (C16); most of these projects are refused
EchoTexts == <<"zz", "%!", "%s", "%d", "%v%v", "%!d(MISSING)", "%!(EXTRA string=x)", "100%", "%", "%%", "{0}", "$1", "`",
               "<b>", "\\\\", "\\\"", "\\u0025!", "%!s", "a%!b">>
EchoSites == <<"dupkey", "rule", "type", "enumdup", "email", "uri", "date", "datetime", "uuid", "regexbad", "regexmiss",
               "enummiss", "or", "allof", "enum-rule", "regex-schema", "shortcut">>
Echo(i, k) ==
  LET t == EchoTexts[i] s == EchoSites[k] IN
  /\ stage = "start" /\ stage' = "done" /\ list' = <<>>
  /\ fam' = (IF s = "enum-rule" THEN "echo:enum" ELSE IF s = "regex-schema" THEN "echo:regex" ELSE "echo")
  /\ root' = CASE s = "dupkey"    -> "{\n  \"" \o t \o "\": 1,\n  \"" \o t \o "\": 2\n}"
               [] s = "rule"      -> "1 // {\"" \o t \o "\": 2}"
               [] s = "type"      -> "1 // {type: \"" \o t \o "\"}"
               [] s = "enumdup"   -> "\"" \o t \o "\" // {enum: [\"" \o t \o "\", \"" \o t \o "\"]}"
               [] s \in {"email", "uri", "date", "datetime", "uuid"} -> "\"" \o t \o "\" // {type: \"" \o s \o "\"}"
               [] s = "regexbad"  -> "\"a\" // {regex: \"(" \o t \o "\"}"
               [] s = "regexmiss" -> "\"" \o t \o "\" // {regex: \"^zz$\"}"
               [] s = "enummiss"  -> "\"" \o t \o "\" // {enum: [\"zz\", \"yy\"]}"
               [] s = "or"        -> "1 // {or: [\"" \o t \o "\", \"string\"]}"
               [] s = "allof"     -> "{} // {allOf: \"" \o t \o "\"}"
               [] s = "enum-rule" -> "[\"" \o t \o "\", \"" \o t \o "\"]"
               [] s = "regex-schema" -> "/(" \o t \o "/"
               [] OTHER           -> "{\n  @t: 1\n}"
  /\ typ' = (IF s = "shortcut" THEN "\"" \o t \o "\" // {type: \"email\"}" ELSE "")
  /\ expect' = "unknown"

Skels == {"root", "prop", "item", "ref"}
Next == \/ StartEnum
        \/ \E i \in 1..N : EnumAdd(i)
        \/ \E v \in 1..N, s \in Skels : EnumFinish(v, s)
        \/ \E v, tv \in 1..N, s \in Skels : Const(v, tv, s)
        \/ \E n \in BOOLEAN, f \in {"absent", "true", "false"}, s \in Skels : Nullable(n, f, s)
        \/ \E i \in 1..Len(FmtCat), s \in Skels \ {"ref"} : Format(i, s)
        \/ \E y \in CalYears, m \in CalMonths, d \in CalDays, s \in {"root", "item"} : Calendar(y, m, d, s)
        \/ \E y \in {1900, 2024}, d \in {28, 29, 30}, h \in {0, 23, 24}, mi \in {0, 59, 60} : Clock(y, 2, d, h, mi, "prop")
        \/ \E i \in 1..Len(NumCat), b \in 1..Len(NumCat), m \in 0..2 : Or2("num", i, b, m)
        \/ \E i \in 1..Len(StrCat), b \in 1..Len(NumCat), m \in 0..2 : Or2("str", i, b, m)
        \/ \E r \in 1..Len(BigRules), b \in 1..Len(BigValues), neg \in BOOLEAN : BigRule(r, b, neg)
        \/ \E r \in 1..Len(RuleNamesAll), v \in 1..Len(RuleValuesAll), x \in 1..2 : RuleKinds(r, v, x)
        \/ \E n \in ScaledSizes, sh \in 1..Len(ScaledShapes) : Scaled(n, sh)
        \/ \E i \in 1..(Len(TypeVocab) + 1) : ApVocab(i) \/ ApVocabShortcut(i)
        \/ \E i \in 1..Len(EchoTexts), k \in 1..Len(EchoSites) : Echo(i, k)
        \/ \E i \in 1..Len(KeyStrings), v \in {1, 4, 8} : KeyShortcut(i, v)
        \/ \E i \in 1..Len(KeyStrings), f \in BOOLEAN : KeyShortcutTwin(i, f)
        \/ \E m \in 0..31, val \in {"\"a\"", "\"b\"", "\"z\""} : EnumLines(m, val)
        \/ \E r \in 1..Len(NamedRuleTexts), a, b \in 1..Len(NamedEnumVals) : NamedEnumTwice(r, a, b)
        \/ \E i \in 1..Len(RegexRuleTexts), s \in {"root", "prop", "item"} : RegexRule(i, s)
        \/ \E v \in OrValues, i, j \in 1..Len(TypeVocab), fi, fj \in {"name", "set"}, s \in {"root", "prop"}, nf \in BOOLEAN : OrVocab(v, i, j, fi, fj, s, nf)
Spec == Init /\ [][Next]_vars

\* a value is always a member of an enum that lists it; const accepts its own example
OwnExampleAccepted == (stage = "done" /\ fam = "const" /\ typ = "") => expect = "accept"
Emit == stage = "done" => PrintT(ToJson([fam |-> fam, root |-> root, typ |-> typ, expect |-> expect]))
===============================================================================
