------------------------------- MODULE CycleGraph -------------------------------
(* Small projects in which types refer to themselves and to each other in every  *)
(* reference position (for property C02: reference cycles must end in a value or *)
(* a diagnostic, never in unbounded recursion).  @a and @c are string types, @b  *)
(* is an object type; each type mentions at most one name, in a position that    *)
(* fits its kind; the root mentions one name in any of the eight positions.      *)
(* Cycles are NOT excluded here - that is the point; the module only generates   *)
(* the texts (the concrete syntax is produced in TLA+).                          *)
EXTENDS Integers, Sequences, TLC, Json

StrNames == {"a", "c"}
AllNames == {"a", "b", "c"}

\* text of a string-kind type: nothing, {type: "@x"}, {or: ["@x", "integer"]}, {or: [{type: "@x"}, ...]}, or the bare reference @x
StrForms == {<<"none", "a">>} \cup {<<f, x>> : f \in {"type", "or", "orset", "ref", "choice"}, x \in StrNames}
StrText(ex, v) == CASE v[1] = "none"  -> ex
                    [] v[1] = "type"  -> ex \o " // {type: \"@" \o v[2] \o "\"}"
                    [] v[1] = "or"    -> ex \o " // {or: [\"@" \o v[2] \o "\", \"integer\"]}"
                    [] v[1] = "orset" -> ex \o " // {or: [{type: \"@" \o v[2] \o "\"}, {type: \"integer\"}]}"
                    [] v[1] = "ref"   -> "@" \o v[2]
                    [] v[1] = "choice" -> "@" \o v[2] \o " | @a"
\* text of the object type @b
ObjForms == {<<"none", "a">>, <<"allof", "b">>} \cup
            {<<f, x>> : f \in {"prop", "optprop", "arrprop", "ap", "keysc"}, x \in AllNames}
ObjText(v) == CASE v[1] = "none"    -> "{\n  \"bk\": 1\n}"
                [] v[1] = "allof"   -> "{ // {allOf: \"@" \o v[2] \o "\"}\n  \"bk\": 1\n}"
                [] v[1] = "prop"    -> "{\n  \"bk\": @" \o v[2] \o "\n}"
                [] v[1] = "optprop" -> "{\n  \"bk\": @" \o v[2] \o " // {optional: true}\n}"
                [] v[1] = "arrprop" -> "{\n  \"bk\": [@" \o v[2] \o "]\n}"
                [] v[1] = "ap"      -> "{ // {additionalProperties: \"@" \o v[2] \o "\"}\n  \"bk\": 1\n}"
                [] v[1] = "keysc"   -> "{\n  @" \o v[2] \o ": 1\n}"
\* the root
RootForms == {<<f, x>> : f \in {"value", "key", "type", "or", "orset", "ap", "array"}, x \in AllNames} \cup {<<"allof", "b">>, <<"choice", "a">>, <<"choice", "b">>}
RootText(v) == CASE v[1] = "value" -> "@" \o v[2]
                 [] v[1] = "array"  -> "[@" \o v[2] \o "]"
                 [] v[1] = "choice" -> "@" \o v[2] \o " | @c"
                 [] v[1] = "key"    -> "{\n  @" \o v[2] \o ": 1\n}"
                 [] v[1] = "type"   -> "\"x\" // {type: \"@" \o v[2] \o "\"}"
                 [] v[1] = "or"     -> "\"x\" // {or: [\"@" \o v[2] \o "\", \"integer\"]}"
                 [] v[1] = "orset"  -> "\"x\" // {or: [{type: \"@" \o v[2] \o "\"}, {type: \"integer\"}]}"
                 [] v[1] = "ap"     -> "{} // {additionalProperties: \"@" \o v[2] \o "\"}"
                 [] v[1] = "allof"  -> "{} // {allOf: \"@" \o v[2] \o "\"}"

VARIABLES fa, fb, fc, fr, stage
vars == <<fa, fb, fc, fr, stage>>
Init == fa = <<"none", "a">> /\ fb = <<"none", "a">> /\ fc = <<"none", "a">> /\ fr = <<"value", "a">> /\ stage = 0
DefA(v) == stage = 0 /\ fa' = v /\ stage' = 1 /\ UNCHANGED <<fb, fc, fr>>
DefB(v) == stage = 1 /\ fb' = v /\ stage' = 2 /\ UNCHANGED <<fa, fc, fr>>
DefC(v) == stage = 2 /\ fc' = v /\ stage' = 3 /\ UNCHANGED <<fa, fb, fr>>
DefRoot(v) == stage = 3 /\ fr' = v /\ stage' = 4 /\ UNCHANGED <<fa, fb, fc>>
Next == (\E v \in StrForms : DefA(v) \/ DefC(v)) \/ (\E v \in ObjForms : DefB(v)) \/ (\E v \in RootForms : DefRoot(v))
Spec == Init /\ [][Next]_vars

\* does the mention graph have a cycle? (reported to the harness for the coverage count)
Target(v) == IF v[1] = "none" THEN {} ELSE IF v[1] = "choice" THEN {v[2], "a"} ELSE {v[2]}
Succ(n) == IF n = "a" THEN Target(fa) ELSE IF n = "b" THEN Target(fb) ELSE Target(fc)
Reach1(S) == S \cup UNION {Succ(n) : n \in S}
Cyclic == \E n \in AllNames : n \in Reach1(Reach1(Reach1(Succ(n))))
Emit == stage = 4 => PrintT(ToJson([root |-> RootText(fr), a |-> StrText("\"s\"", fa), b |-> ObjText(fb), c |-> StrText("\"t\"", fc), cyclic |-> Cyclic]))
===============================================================================
