------------------------------- MODULE TypeGraph -------------------------------
(* Type reference graphs (property C06).  Types 0..N-1, type 0 is the root.     *)
(* Every type is an object whose properties are a scalar, a reference to a type *)
(* (plain / optional / nullable / inside an array) or a choice `@x | @y`; with  *)
(* RootForms a type may also carry `nullable` on its own root node, or be an    *)
(* alias - nothing but a reference to another type, nullable or not.            *)
(*                                                                              *)
(*   Finite(t)        t has a finite instance: least fixpoint where a property  *)
(*                    is harmless unless it is a mandatory plain link, a plain  *)
(*                    reference needs its target finite, a choice needs one     *)
(*                    finite alternative.                                       *)
(*   SelfRequiring    the root reaches itself through mandatory plain           *)
(*                    references only.                                          *)
(* Theorem checked by TLC on every graph: SelfRequiring => ~Finite(root), i.e.  *)
(* the two directions of the property never demand opposite verdicts.           *)
(* Graphs are built by actions (one type per step) so that all TLC workers take *)
(* part; every finished graph is emitted with both predicates for the replay.   *)
EXTENDS Integers, Sequences, FiniteSets, TLC, Json

CONSTANTS N,          \* number of types
          MaxRoot,    \* max properties of the root
          MaxOther,   \* max properties of every other type
          Ring,       \* TRUE: type i may only refer to i+1 (mod N) and to the root (long cycles with chords)
          ModesUsed,  \* subset of Modes explored for references (e.g. {"plain"} for the pure requirement graphs)
          FatTypes,   \* how many non-root types (1..FatTypes) may have as many properties as the root
          RootForms,  \* subset of {"object", "nullable-object", "alias", "nullable-alias", "choice"}: what a type's own root node may be
          OptionalByDefault \* BOOLEAN: the schemas are created with "keys are optional by default": a property is a
                      \* mandatory link only when it says `optional: false` (mode "required")

Types == 0..(N - 1)
\* "arraymin": the reference is one of two elements of an array that must not be empty: [@x, "leaf"] // {minItems: 1}
\* (the other element alone makes an instance, so the link is not mandatory)
Modes == {"plain", "optional", "nullable", "array", "required", "arraymin"}      \* ("mixed" and "shortcut" select further kinds)
\* is a reference written with mode m a mandatory link?
MandatoryMode(m) == m = "required" \/ (m \in {"plain", "mixed"} /\ ~OptionalByDefault)

Targets(t) == IF Ring THEN {(t + 1) % N, 0} ELSE Types
Refs(t)    == {[k |-> "ref", t |-> x, u |-> x, m |-> m] : x \in Targets(t), m \in ModesUsed \cap Modes}
\* a choice may carry an explicit `type: "mixed"` (mode "mixed"): the same thing said twice
Choices(t) == IF Ring THEN {} ELSE {[k |-> "choice", t |-> pr[1], u |-> pr[2], m |-> md] :
                                       pr \in {q \in Types \X Types : q[1] < q[2]}, md \in {"plain"} \cup (ModesUsed \cap {"mixed"})}
Scalar     == [k |-> "scalar", t |-> 0, u |-> 0, m |-> "plain"]
\* an optional key-shortcut property `@k: @x // {optional: true}` written next to a mandatory literal property whose
\* key is spelled the same ("@k": 1): the two keys are different things, the link stays optional
ScOpts(t)  == IF "shortcut" \in ModesUsed THEN {[k |-> "scopt", t |-> x, u |-> x, m |-> "optional"] : x \in Targets(t)} ELSE {}
Kinds(t)   == {Scalar} \cup Refs(t) \cup Choices(t) \cup ScOpts(t)

\* property sets of at most n kinds, built constructively (SUBSET of a 16-element set is cheap, of 22 is not)
PropSets(t, n) == {{}} \cup {{p} : p \in Kinds(t)} \cup
                  (IF n >= 2 THEN {{p, q} : p \in Kinds(t), q \in Kinds(t)} ELSE {})

VARIABLES def,     \* [defined types -> [form, props]]
          next     \* next type to define; N when the graph is complete
vars == <<def, next>>

\* an alias is written as its single plain reference
AliasSets(t) == {{[k |-> "ref", t |-> x, u |-> x, m |-> "plain"]} : x \in Targets(t)}
Init == def = <<>> /\ next = 0
\* a type that is nothing but a choice `@x | @y`
ChoiceSets(t) == {{c} : c \in Choices(t)}
Define(f, S) == /\ next < N /\ f \in RootForms
                /\ (f \in {"alias", "nullable-alias"}) => S \in AliasSets(next)
                /\ (f = "choice") => S \in ChoiceSets(next)
                /\ def' = Append(def, [form |-> f, props |-> S])       \* def[i+1] describes type i
                /\ next' = next + 1
Next == \E f \in RootForms :
          \E S \in (IF f \in {"alias", "nullable-alias"} THEN AliasSets(next)
                    ELSE IF f = "choice" THEN ChoiceSets(next)
                    ELSE PropSets(next, IF next = 0 \/ next <= FatTypes THEN MaxRoot ELSE MaxOther)) : Define(f, S)
Spec == Init /\ [][Next]_vars

Props(t) == def[t + 1].props
Form(t) == def[t + 1].form
NullableRoot(t) == Form(t) \in {"nullable-object", "nullable-alias"}     \* null is an instance of the type
Complete == next = N

\* ---- finite instance: least fixpoint, N+1 rounds suffice
PropOK(p, F) == \/ p.k = "scalar"
                \/ ~MandatoryMode(p.m)
                \/ p.k = "ref" /\ p.t \in F
                \/ p.k = "choice" /\ (p.t \in F \/ p.u \in F)
RECURSIVE Fix(_, _)
Fix(F, n) == IF n = 0 THEN F ELSE Fix({t \in Types : NullableRoot(t) \/ \A p \in Props(t) : PropOK(p, F)}, n - 1)
FiniteSet == Fix({}, N + 1)
Finite(t) == t \in FiniteSet

\* ---- the root requires itself through mandatory plain references
Succ(t) == IF NullableRoot(t) THEN {} ELSE {p.t : p \in {q \in Props(t) : q.k = "ref" /\ MandatoryMode(q.m)}}
RECURSIVE Reach(_, _)
Reach(S, n) == IF n = 0 THEN S ELSE Reach(S \cup UNION {Succ(t) : t \in S}, n - 1)
SelfRequiring == 0 \in Reach(Succ(0), N)          \* (a nullable root has no successors: never self-requiring)

\* any cycle at all (used by the harness to pick the interesting graphs)
AllSucc(t) == {p.t : p \in {q \in Props(t) : q.k # "scalar"}} \cup {p.u : p \in {q \in Props(t) : q.k = "choice"}}
RECURSIVE ReachAll(_, _)
ReachAll(S, n) == IF n = 0 THEN S ELSE ReachAll(S \cup UNION {AllSucc(t) : t \in S}, n - 1)
HasCycle == \E t \in Types : t \in ReachAll(AllSucc(t), N)

\* ---- theorem and sanity lemmas
Theorem == Complete => (SelfRequiring => ~Finite(0))
FixIsFixpoint == Complete => (Fix(FiniteSet, 1) = FiniteSet)
NoRefsAreFinite == Complete => ((\A t \in Types : \A p \in Props(t) : p.k = "scalar") => FiniteSet = Types)
NullableRootsAreFinite == Complete => \A t \in Types : NullableRoot(t) => Finite(t)

\* ---- the example-expansion process terminates: a type is entered at most 3 times along a branch
\* (variant: the per-type counters strictly increase along a branch and are bounded)
MaxVisitsPerBranch == 3
ExpansionBound == N * MaxVisitsPerBranch

Emit == Complete => PrintT(ToJson([types |-> [t \in Types |-> Props(t)], forms |-> [t \in Types |-> Form(t)], optdefault |-> OptionalByDefault, finite |-> Finite(0),
                                   selfreq |-> SelfRequiring, cycle |-> HasCycle]))
===============================================================================
