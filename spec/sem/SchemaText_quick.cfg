SPECIFICATION Spec
CONSTANTS
  MaxProps = 2
  ValueIdx = {1, 2, 3, 4, 5, 6, 7, 8, 9, 10, 11, 12, 13, 14, 15}
  AnnPerValue = 16
  Contexts = {0, 1, 2}
INVARIANTS OneNodePerElement Emit
CHECK_DEADLOCK FALSE
