---------------------------------- MODULE AllOf ----------------------------------
(* Inheritance by the `allOf` rule (property C07).  A project is a root object    *)
(* and N named types; every type is withheld (not registered), a non-object, or   *)
(* an object with own keys (each required or optional), an `allOf` list of type   *)
(* names and an additionalProperties setting.                                      *)
(*   Merge(t)  = own keys followed by the keys of the listed types, transitively, *)
(*               in list order, each inherited key remembering where it came from *)
(*               and whether it is optional.                                       *)
(*   Refusals  = the reasons for which the project must be rejected instead:      *)
(*               a listed type is missing, is not an object, the inheritance is   *)
(*               cyclic, a key would be duplicated, or two different              *)
(*               additionalProperties settings meet along a chain.                *)
(* The library compiles every registered type, so a defect in any registered type *)
(* rejects the project.  Projects are built type by type (builder actions).       *)
EXTENDS Integers, Sequences, FiniteSets, TLC, Json

CONSTANTS N,          \* number of named types: "a", "b" (, "c")
          KeySet,     \* e.g. {"k1", "k2"}
          MaxList,    \* max length of an allOf list
          APs,        \* additionalProperties settings explored, subset of {"absent","true","false","string","any"}
          Nest,       \* BOOLEAN: may the value of an own key be an object that has an allOf list of its own?
          RootChoice, \* BOOLEAN: the root is a choice `@x | @y` of two of the types (instead of an object)
          OptDefTypes,\* BOOLEAN: the named types are created with "keys are optional by default" (the root is not): a key
                      \* of a type is then optional unless it says otherwise, and keeps that status when inherited
          SelfReg     \* BOOLEAN: the root object is also registered as a type, under the name "main": the named types (and
                      \* the root itself) may list it, so inheritance chains - and cycles - may pass through the root

Names == IF N = 2 THEN {"a", "b"} ELSE {"a", "b", "c"}
NameSeq == IF N = 2 THEN <<"a", "b">> ELSE <<"a", "b", "c">>

\* own key lists: at most one key per object here (diamonds and overlaps come from inheritance), in two flavours.
\* The value of the key is a scalar (sub = <<>>) or, with Nest, the object { // {allOf: "@x"} "n": 0 } (sub = <<x>>):
\* an heir below an heir, whose own list has to be merged as well.
ListNames == Names \cup (IF SelfReg THEN {"main"} ELSE {})
Subs == {<<>>} \cup (IF Nest THEN {<<x>> : x \in ListNames} ELSE {})
OwnKeys == {<<>>} \cup {<<[k |-> k, opt |-> o, sub |-> s]>> : k \in KeySet, o \in BOOLEAN, s \in Subs}
NestedObj(e) == [kind |-> "object", own |-> <<[k |-> "n", opt |-> FALSE, sub |-> <<>>]>>, allOf |-> e.sub, ap |-> "absent"]
Lists == {<<>>} \cup {<<x>> : x \in ListNames} \cup
         (IF MaxList >= 2 THEN {<<pr[1], pr[2]>> : pr \in {q \in ListNames \X ListNames : q[1] # q[2]}} ELSE {})
Objects == {[kind |-> "object", own |-> o, allOf |-> l, ap |-> p] : o \in OwnKeys, l \in Lists, p \in APs}
Defs == Objects \cup {[kind |-> "withheld", own |-> <<>>, allOf |-> <<>>, ap |-> "absent"],
                      [kind |-> "scalar", own |-> <<>>, allOf |-> <<>>, ap |-> "absent"]}

VARIABLES def,      \* [defined names -> Defs] as a sequence in the order of NameSeq
          root,     \* the root object, or "none"
          done
vars == <<def, root, done>>

NoRoot == [kind |-> "none", own |-> <<>>, allOf |-> <<>>, ap |-> "absent"]
Init == def = <<>> /\ root = NoRoot /\ done = FALSE
DefineType(d) == /\ Len(def) < N /\ def' = Append(def, d) /\ UNCHANGED <<root, done>>
DefineRoot(r) == /\ ~RootChoice /\ Len(def) = N /\ ~done /\ r.kind = "object" /\ root' = r /\ done' = TRUE /\ UNCHANGED def
\* the root is `@x | @y`: the property listing of the project is then the listing of each alternative (allOf holds them)
DefineRootChoice(x, y) == /\ RootChoice /\ Len(def) = N /\ ~done /\ x # y
                          /\ root' = [kind |-> "choice", own |-> <<>>, allOf |-> <<x, y>>, ap |-> "absent"]
                          /\ done' = TRUE /\ UNCHANGED def
Next == \/ \E d \in Defs : DefineType(d)
        \/ \E r \in Objects : DefineRoot(r)
        \/ \E x, y \in Names : DefineRootChoice(x, y)
Spec == Init /\ [][Next]_vars

Idx(n) == CHOOSE i \in 1..N : NameSeq[i] = n
D(n) == IF n = "main" THEN root ELSE def[Idx(n)]
Registered == {n \in Names : D(n).kind # "withheld"} \cup (IF SelfReg /\ root.kind = "object" THEN {"main"} ELSE {})

\* ---- inheritance graph over registered objects
Parents(o) == {o.allOf[i] : i \in 1..Len(o.allOf)}
RECURSIVE Anc(_, _)
Anc(S, k) == IF k = 0 THEN S ELSE Anc(S \cup UNION {IF D(n).kind = "object" THEN Parents(D(n)) ELSE {} : n \in S}, k - 1)
Ancestors(o) == Anc(Parents(o), N + 1)          \* all names reachable through allOf lists
NestedOf(o) == {NestedObj(o.own[i]) : i \in {j \in 1..Len(o.own) : o.own[j].sub # <<>>}}
TopObjects == (IF root.kind = "object" THEN {root} ELSE {}) \cup {D(n) : n \in {m \in Registered : D(m).kind = "object"}}
AllObjects == TopObjects \cup UNION {NestedOf(o) : o \in TopObjects}
\* what a type needs to be complete: the types it lists and the types its nested heirs list
Needs(o) == Parents(o) \cup UNION {Parents(x) : x \in NestedOf(o)}
RECURSIVE Dep(_, _)
Dep(S, k) == IF k = 0 THEN S ELSE Dep(S \cup UNION {IF D(n).kind = "object" THEN Needs(D(n)) ELSE {} : n \in S}, k - 1)

\* ---- refusal classes (over the root and every registered type)
Missing   == \/ \E o \in AllObjects : \E n \in Ancestors(o) : D(n).kind = "withheld"
             \/ root.kind = "choice" /\ \E i \in 1..2 : D(root.allOf[i]).kind = "withheld"
NonObject == \E o \in AllObjects : \E n \in Ancestors(o) : D(n).kind = "scalar"
Cyclic    == \E n \in Registered : D(n).kind = "object" /\ n \in Dep(Needs(D(n)), N + 1)

\* merged key list, defined when none of the three above applies (depth bounded by N+1)
\* an entry of a merged list: key, optional flag, and the merged key names of the value if it is a nested heir
RECURSIVE MergeD(_, _)
MergeD(o, depth) ==
  LET KeysOf(s) == [j \in 1..Len(s) |-> s[j].k]
      own == [i \in 1..Len(o.own) |->
                [k |-> o.own[i].k, opt |-> o.own[i].opt,
                 nk |-> IF o.own[i].sub = <<>> THEN <<>>
                        ELSE IF depth = 0 THEN <<"n">> ELSE KeysOf(MergeD(NestedObj(o.own[i]), depth - 1))]]
  IN IF depth = 0 THEN own
     ELSE LET inh(i) == LET m == MergeD(D(o.allOf[i]), depth - 1) IN
                            [j \in 1..Len(m) |-> [k |-> m[j].k, opt |-> m[j].opt \/ OptDefTypes, nk |-> m[j].nk]]
              RECURSIVE Cat(_)
              Cat(i) == IF i > Len(o.allOf) THEN <<>> ELSE inh(i) \o Cat(i + 1)
          IN own \o Cat(1)
Merge(o) == MergeD(o, N + 3)
HasDup(s) == \E i, j \in 1..Len(s) : i # j /\ s[i].k = s[j].k
Structural == Missing \/ NonObject \/ Cyclic
Duplicate == ~Structural /\ \E o \in AllObjects : HasDup(Merge(o))

\* additionalProperties: "true" and "any" are the same setting
Meaning(p) == IF p = "any" THEN "true" ELSE p
Settings(o) == {Meaning(x.ap) : x \in {o} \cup {D(n) : n \in {m \in Ancestors(o) : D(m).kind = "object"}}} \ {"absent"}
APConflict == ~Structural /\ \E o \in AllObjects : Cardinality(Settings(o)) > 1

Refusals == (IF Missing THEN {"missing"} ELSE {}) \cup (IF NonObject THEN {"nonobject"} ELSE {}) \cup
            (IF Cyclic THEN {"cycle"} ELSE {}) \cup (IF Duplicate THEN {"duplicate"} ELSE {}) \cup
            (IF APConflict THEN {"apconflict"} ELSE {})
Accepted == Refusals = {}

\* direct parent through which each inherited key of the root arrives, and the type that declares it
RECURSIVE OriginD(_, _, _)
OriginD(o, name, depth) ==      \* sequence parallel to MergeD(o, depth): [via, origin]
  IF depth = 0 THEN [i \in 1..Len(o.own) |-> [via |-> name, origin |-> name]]
  ELSE LET RECURSIVE Cat(_)
           Cat(i) == IF i > Len(o.allOf) THEN <<>>
                     ELSE LET p == o.allOf[i] sub == OriginD(D(p), p, depth - 1)
                          IN [j \in 1..Len(sub) |-> [via |-> p, origin |-> sub[j].origin]] \o Cat(i + 1)
       IN [i \in 1..Len(o.own) |-> [via |-> name, origin |-> name]] \o Cat(1)

\* ---- design-level lemmas
\* an accepted project has no duplicate key in any merged object
MergeHasNoDuplicateKeys == (done /\ Accepted) => \A o \in AllObjects : ~HasDup(Merge(o))
\* merging is insensitive to the depth bound once it exceeds the longest chain
MergeStable == (done /\ ~Structural /\ root.kind = "object") => MergeD(root, N + 3) = MergeD(root, N + 4)
\* an object without an allOf list keeps exactly its own keys
NoListNoChange == (done /\ ~Structural /\ root.kind = "object" /\ root.allOf = <<>>) =>
                     /\ Len(Merge(root)) = Len(root.own)
                     /\ \A i \in 1..Len(root.own) : Merge(root)[i].k = root.own[i].k /\ Merge(root)[i].opt = root.own[i].opt
\* a nested heir always keeps its own key first and gains exactly the merged keys of the listed type
NestedHeirGains == (done /\ ~Structural /\ root.kind = "object") =>
                     \A i \in 1..Len(root.own) : root.own[i].sub # <<>> =>
                         LET nk == Merge(root)[i].nk m == Merge(D(root.own[i].sub[1])) IN
                         /\ nk[1] = "n" /\ Len(nk) = 1 + Len(m)
                         /\ \A j \in 1..Len(m) : nk[j + 1] = m[j].k

Emit == done => PrintT(ToJson([optdef |-> OptDefTypes, selfreg |-> SelfReg, types |-> [i \in 1..N |-> [name |-> NameSeq[i], d |-> def[i]]], root |-> root,
                               refusals |-> Refusals,
                               keys |-> IF Structural \/ root.kind # "object" THEN <<>> ELSE Merge(root),
                               origin |-> IF Structural \/ root.kind # "object" THEN <<>> ELSE OriginD(root, "root", N + 3),
                               \* a choice root: the listing of each alternative that is an object
                               alts |-> IF Structural \/ root.kind # "choice" THEN <<>>
                                        ELSE [i \in 1..2 |-> [name |-> root.allOf[i],
                                                              keys |-> IF D(root.allOf[i]).kind = "object" THEN Merge(D(root.allOf[i])) ELSE <<>>]]]))
===============================================================================
