------------------------------- MODULE SchemaText -------------------------------
(* Schema projects with annotations, for the properties that speak about what    *)
(* the source *says*: C04 (GetAST reports exactly the structure, rules, notes,   *)
(* order), C14 (meaning is independent of layout), C15 (Len), C08 (OpenAPI).     *)
(*                                                                               *)
(* A project is built by builder actions from menus of values and annotations    *)
(* (every annotation is satisfied by the value it is attached to, so that the    *)
(* project is accepted and GetAST() is defined).  AstOf gives the tree GetAST()  *)
(* must return: one node per example element in source order with JSON kind,     *)
(* key, key-shortcut flag, decoded value or reference text, note and the ordered *)
(* list of rules with their values, nested for `or`, `enum` and `allOf`.         *)
(* The concrete text is produced by the harness printer from the same records    *)
(* under a layout vector (newline kind, annotation style, quoted rule names,     *)
(* padding, user comments); the layouts are meaning-preserving by construction.  *)
EXTENDS Integers, Sequences, FiniteSets, TLC, Json

CONSTANTS MaxProps,     \* properties of the root object
          ValueIdx,     \* subset of 1..Len(ValueMenu) used
          AnnPerValue,  \* how many annotations of each value's menu are used (0 = only "no annotation")
          Contexts      \* where the built object stands in the text: subset of 0..2 (see Wrap)

\* ---- rule values
RNum(t)  == [k |-> "number",  t |-> t, items |-> <<>>, props |-> <<>>]
RStr(t)  == [k |-> "string",  t |-> t, items |-> <<>>, props |-> <<>>]   \* t = decoded text
RBool(t) == [k |-> "boolean", t |-> t, items |-> <<>>, props |-> <<>>]
RNull    == [k |-> "null",    t |-> "null", items |-> <<>>, props |-> <<>>]
RRef(t)  == [k |-> "ref",     t |-> t, items |-> <<>>, props |-> <<>>]   \* a bare @name as rule value
RList(s) == [k |-> "array",   t |-> "", items |-> s, props |-> <<>>]
RSet(p)  == [k |-> "object",  t |-> "", items |-> <<>>, props |-> p]     \* p = seq of [n, v]
Rule(n, v) == [n |-> n, v |-> v]
Big == "18446744073709551617"                                           \* 2^64 + 1
Half == "9223372036854775808"                                           \* 2^63
MaxU == "18446744073709551615"                                          \* 2^64 - 1

\* ---- annotations: ordered rules + note id (0 = none); menus per value
Ann(rules, note) == [rules |-> rules, note |-> note]
NoAnn == Ann(<<>>, 0)
Notes == << "Simple note", "Note 2 (with punctuation, and: colons)", "ends with a full stop." >>

\* ---- values: k = scalar | ref | array | object;  scalars carry their text, JSON kind and decoded value
Scalar(text, tt, val) == [k |-> "scalar", text |-> text, tt |-> tt, val |-> val, kids |-> <<>>, keys |-> <<>>]
Ref(text)             == [k |-> "ref", text |-> text, tt |-> "reference", val |-> text, kids |-> <<>>, keys |-> <<>>]
\* kids of containers are [node, ann] pairs; keys (objects) are [text, shortcut] pairs
Arr(kids)             == [k |-> "array", text |-> "", tt |-> "array", val |-> "", kids |-> kids, keys |-> <<>>]
Obj(keys, kids)       == [k |-> "object", text |-> "", tt |-> "object", val |-> "", kids |-> kids, keys |-> keys]
Kid(node, ann) == [node |-> node, ann |-> ann]
Key(text, sc)  == [text |-> text, sc |-> sc]

Twelve == Scalar("12", "number", "12")
Frac   == Scalar("-0.50", "number", "-0.50")
Tom    == Scalar("\"Tom\"", "string", "Tom")
Esc    == Scalar("\"q\\\"x\"", "string", "q\"x")
Ctl    == Scalar("\"a\\fb\\u0001\"", "string", "a<FF>b<SOH>")          \* control characters: the harness substitutes <FF>, <SOH>
Yes    == Scalar("true", "boolean", "true")
Nul    == Scalar("null", "null", "null")

ValueMenu == << Twelve, Frac, Tom, Esc, Yes, Nul, Ref("@t"), Ref("@a | @b"),
                Arr(<< Kid(Twelve, Ann(<<Rule("min", RNum("1"))>>, 1)), Kid(Tom, NoAnn) >>),
                Obj(<< Key("in", FALSE) >>, << Kid(Twelve, Ann(<<Rule("max", RNum("100"))>>, 0)) >>),
                Obj(<<>>, <<>>), Arr(<<>>),
                Obj(<< Key("@k", TRUE), Key("z", FALSE) >>, << Kid(Yes, NoAnn), Kid(Arr(<< Kid(Nul, NoAnn) >>), NoAnn) >>),
                Ctl,
                Ref("@a | @b | @t") >>    \* a choice of three: the reference text is reported with ` | ` between the names, however it is spaced

\* annotation menus, indexed like ValueMenu; the first entries are the most basic ones
AnnMenu == <<
  \* 12
  << Ann(<<Rule("min", RNum("1"))>>, 0),
     Ann(<<Rule("min", RNum("0")), Rule("max", RNum("100")), Rule("exclusiveMaximum", RBool("true"))>>, 1),
     Ann(<<>>, 2),
     Ann(<<Rule("or", RList(<< RSet(<<Rule("type", RStr("integer")), Rule("min", RNum("1"))>>), RStr("string") >>))>>, 0),
     Ann(<<Rule("enum", RList(<< RNum("12"), RStr("x"), RNull >>))>>, 3),
     Ann(<<Rule("max", RNum(Big))>>, 0),
     Ann(<<Rule("type", RStr("integer")), Rule("const", RBool("true"))>>, 0),
     \* an `or` element that is an enum with its list
     Ann(<<Rule("or", RList(<< RSet(<<Rule("type", RStr("enum")), Rule("enum", RList(<< RNum("12"), RStr("x") >>))>>), RStr("string") >>))>>, 0),
     \* numbers in rules are reported as written, whatever their spelling
     Ann(<<Rule("min", RNum("2.0")), Rule("max", RNum("12.00"))>>, 0),
     Ann(<<Rule("min", RNum("-0")), Rule("max", RNum("12.000"))>>, 0),
     Ann(<<Rule("min", RNum("0.50")), Rule("max", RNum("100.0"))>>, 2),
     \* an enum rule referred to by name (registered with AddRule), as the only rule and followed by another
     Ann(<<Rule("enum", RRef("@sizes"))>>, 0),
     Ann(<<Rule("enum", RRef("@sizes")), Rule("optional", RBool("true"))>>, 1) >>,
  \* -0.50
  << Ann(<<Rule("type", RStr("decimal")), Rule("precision", RNum("2"))>>, 0),
     Ann(<<Rule("min", RNum("-1.5"))>>, 1),
     Ann(<<Rule("type", RStr("decimal")), Rule("precision", RNum(Big))>>, 0),
     Ann(<<Rule("type", RStr("decimal")), Rule("precision", RNum("9223372036854775807"))>>, 0),
     Ann(<<Rule("min", RNum("-1.50")), Rule("max", RNum("10.0")), Rule("exclusiveMaximum", RBool("true"))>>, 0),
     Ann(<<Rule("min", RNum("-0.50")), Rule("max", RNum("-0.5"))>>, 0),
     Ann(<<Rule("max", RNum("0.0"))>>, 1) >>,
  \* "Tom"
  << Ann(<<Rule("minLength", RNum("1"))>>, 0),
     Ann(<<Rule("regex", RStr("^T")), Rule("maxLength", RNum("10"))>>, 1),
     Ann(<<Rule("maxLength", RNum(MaxU))>>, 0),
     Ann(<<Rule("minLength", RNum(Big))>>, 0),
     Ann(<<Rule("enum", RList(<< RStr("Tom"), RStr("b") >>))>>, 0),
     Ann(<<Rule("type", RStr("string"))>>, 2),
     \* `or` whose elements are rule-sets and names of format types
     Ann(<<Rule("or", RList(<< RSet(<<Rule("type", RStr("datetime"))>>), RSet(<<Rule("type", RStr("string")), Rule("maxLength", RNum("10"))>>), RStr("email"), RSet(<<Rule("type", RStr("uuid"))>>) >>))>>, 1),
     \* a pattern that does not compile: the project is refused (C16 judges the diagnostic)
     Ann(<<Rule("regex", RStr("[T"))>>, 0),
     Ann(<<Rule("enum", RRef("@names"))>>, 2),
     Ann(<<Rule("nullable", RBool("true")), Rule("enum", RRef("@names"))>>, 0) >>,
  \* "q\"x"
  << Ann(<<Rule("minLength", RNum("3"))>>, 0), Ann(<<>>, 1) >>,
  \* true
  << Ann(<<Rule("const", RBool("true"))>>, 0), Ann(<<Rule("type", RStr("boolean"))>>, 1) >>,
  \* null
  << Ann(<<>>, 1), Ann(<<Rule("type", RStr("null"))>>, 0) >>,
  \* @t
  << Ann(<<Rule("optional", RBool("true"))>>, 0), Ann(<<>>, 2) >>,
  \* @a | @b
  << Ann(<<Rule("optional", RBool("true"))>>, 1) >>,
  \* [12, "Tom"]
  << Ann(<<Rule("minItems", RNum("1"))>>, 0),
     Ann(<<Rule("minItems", RNum("0")), Rule("maxItems", RNum("5"))>>, 1),
     Ann(<<Rule("maxItems", RNum(MaxU))>>, 0),
     Ann(<<Rule("minItems", RNum(Big))>>, 0) >>,
  \* {"in": 12}
  << Ann(<<Rule("additionalProperties", RBool("false"))>>, 0),
     Ann(<<Rule("allOf", RStr("@base"))>>, 1),
     Ann(<<Rule("allOf", RList(<< RStr("@base"), RStr("@base2") >>)), Rule("optional", RBool("true"))>>, 0),
     \* a list is reported as written, repetitions included (an empty type may be inherited twice)
     Ann(<<Rule("allOf", RList(<< RStr("@marker"), RStr("@base"), RStr("@marker") >>))>>, 0),
     Ann(<<Rule("allOf", RList(<< RStr("@marker"), RStr("@marker") >>))>>, 1) >>,
  \* {}
  << Ann(<<Rule("additionalProperties", RStr("string"))>>, 0), Ann(<<>>, 3) >>,
  \* []
  << Ann(<<Rule("maxItems", RNum("0"))>>, 0) >>,
  \* {@k: true, "z": [null]}
  << Ann(<<>>, 1) >>,
  \* "a\fb\u0001"
  << Ann(<<Rule("const", RBool("true"))>>, 0), Ann(<<Rule("enum", RList(<< RStr("a<FF>b<SOH>"), RStr("x") >>))>>, 1),
     Ann(<<Rule("maxLength", RNum(Half))>>, 0) >>,
  \* @a | @b | @t
  << Ann(<<Rule("optional", RBool("true"))>>, 1), Ann(<<>>, 2) >> >>

PropKeys == << Key("id", FALSE), Key("a\\\"b", FALSE), Key("last", FALSE) >>   \* text as written between the quotes

\* ---- the project being built: root object whose i-th property is (PropKeys[i], value, annotation)
VARIABLES props,    \* seq of [v |-> value index, a |-> annotation index (0 = none)]
          rootAnn,  \* 0 none, 1 note only, 2 rule + note
          ctx,      \* context the built object is placed in (chosen when the project is finished)
          done
vars == <<props, rootAnn, ctx, done>>

Init == props = <<>> /\ rootAnn = 0 /\ ctx = 0 /\ done = FALSE
AddProp(v, a) == /\ ~done /\ Len(props) < MaxProps
                 /\ v \in ValueIdx /\ a \in 0..(IF AnnPerValue < Len(AnnMenu[v]) THEN AnnPerValue ELSE Len(AnnMenu[v]))
                 \* `optional` and allOf+optional annotate properties: always the case here
                 /\ props' = Append(props, [v |-> v, a |-> a]) /\ UNCHANGED <<rootAnn, ctx, done>>
Finish(r, x) == /\ ~done /\ props # <<>> /\ r \in 0..2 /\ x \in Contexts
                /\ rootAnn' = r /\ ctx' = x /\ done' = TRUE /\ UNCHANGED props
Next == (\E v \in 1..Len(ValueMenu), a \in 0..16 : AddProp(v, a)) \/ (\E r \in 0..2, x \in 0..2 : Finish(r, x))
Spec == Init /\ [][Next]_vars

RootAnns == << NoAnn, Ann(<<>>, 1), Ann(<<Rule("additionalProperties", RBool("true"))>>, 2) >>
AnnOf(p) == IF p.a = 0 THEN NoAnn ELSE AnnMenu[p.v][p.a]
Built == Obj([i \in 1..Len(props) |-> PropKeys[i]],
             [i \in 1..Len(props) |-> Kid(ValueMenu[props[i].v], AnnOf(props[i]))])
\* The same object with the same annotation means the same wherever it stands.  Context 0: it is the root.
\* Context 1: the last member of an object that is the only item of an array that is a property of the root
\* (depth 3, after an annotated sibling).  Context 2: the second and last item of a root array, after a scalar.
Wrap(x, node, ann) ==
  CASE x = 0 -> Kid(node, ann)
    [] x = 1 -> Kid(Obj(<< Key("outer", FALSE) >>,
                        << Kid(Arr(<< Kid(Obj(<< Key("first", FALSE), Key("deep", FALSE) >>,
                                              << Kid(Twelve, Ann(<<Rule("min", RNum("1"))>>, 3)), Kid(node, ann) >>), NoAnn) >>), NoAnn) >>), NoAnn)
    [] x = 2 -> Kid(Arr(<< Kid(Tom, NoAnn), Kid(node, ann) >>), NoAnn)
Placed == Wrap(ctx, Built, RootAnns[rootAnn + 1])
Project == Placed.node

\* ---- the tree GetAST() must return
RECURSIVE RuleAst(_)
RuleAst(v) == [tt |-> IF v.k = "ref" THEN "reference" ELSE v.k, val |-> v.t,
               items |-> [i \in 1..Len(v.items) |-> RuleAst(v.items[i])],
               props |-> [i \in 1..Len(v.props) |-> [n |-> v.props[i].n, v |-> RuleAst(v.props[i].v)]]]
RECURSIVE AstOf(_, _, _)
AstOf(node, ann, key) ==
  [tt |-> node.tt, key |-> key.text, sc |-> key.sc, val |-> node.val,
   note |-> IF ann.note = 0 THEN "" ELSE Notes[ann.note],
   rules |-> [i \in 1..Len(ann.rules) |-> [n |-> ann.rules[i].n, v |-> RuleAst(ann.rules[i].v)]],
   kids |-> [i \in 1..Len(node.kids) |->
               AstOf(node.kids[i].node, node.kids[i].ann, IF node.k = "object" THEN node.keys[i] ELSE Key("", FALSE))]]

\* ---- design-level lemmas
\* one AST node per example element
RECURSIVE Elements(_)
Elements(node) == 1 + (IF node.kids = <<>> THEN 0 ELSE LET s == [i \in 1..Len(node.kids) |-> Elements(node.kids[i].node)]
                                                           IN LET RECURSIVE Sum(_) Sum(j) == IF j = 0 THEN 0 ELSE s[j] + Sum(j - 1) IN Sum(Len(s)))
RECURSIVE AstSize(_)
AstSize(a) == 1 + (IF a.kids = <<>> THEN 0 ELSE LET s == [i \in 1..Len(a.kids) |-> AstSize(a.kids[i])]
                                                  IN LET RECURSIVE Sum(_) Sum(j) == IF j = 0 THEN 0 ELSE s[j] + Sum(j - 1) IN Sum(Len(s)))
OneNodePerElement == done => AstSize(AstOf(Project, Placed.ann, Key("", FALSE))) = Elements(Project)
\* the names used by a project (for the used-types observable and for registering what the project needs)
Emit == done => PrintT(ToJson([project |-> Project, rootann |-> Placed.ann, notes |-> Notes, ctx |-> ctx,
                               ast |-> AstOf(Project, Placed.ann, Key("", FALSE))]))
===============================================================================
