SPECIFICATION Spec
INVARIANTS OwnExampleAccepted Emit
CHECK_DEADLOCK FALSE
