SPECIFICATION Spec
CONSTANTS
  MaxNames = 70
  MaxMentions = 71
  Family = "seq"
INVARIANTS UsedIsASet Emit
CHECK_DEADLOCK FALSE
