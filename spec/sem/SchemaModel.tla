------------------------------ MODULE SchemaModel ------------------------------
(* Abstract schema projects for property C01: one tested scalar (or array)      *)
(* placed in a skeleton, with a set of value rules from the rule/type           *)
(* compatibility table, built step by step by builder actions.  For every       *)
(* finished project the specification says whether Check() must accept it:      *)
(* every example value - the tested one and, for a type reference, the type's   *)
(* own example - satisfies the rules under RuleSemantics.                       *)
(*                                                                              *)
(* Skeletons: "root"  v // {rules}                                              *)
(*            "prop"  { "k": v // {rules} }                                     *)
(*            "item"  [ v // {rules} ]                                          *)
(*            "or"    v // {or: [{type: T, rules}, {type: "boolean"}]}          *)
(*            "ref"   v // {type: "@t"}   with  @t = tv // {rules}              *)
(*            "refor" v // {or: ["@t", "boolean"]}  with  @t = tv // {rules}    *)
(*            "reftor" v // {type: "@t"}                                        *)
(*                     with  @t = tv // {or: [{type: T, rules}, {type: "boolean"}]} *)
(*            "ref2"  {"k": @t}  with  @t = v // {type: "@u"}                   *)
(*                    and  @u = tv // {rules}   (a chain of two references:    *)
(*                    what @t demands depends on how the project defines @u;   *)
(*                    the harness also uses the @t object in a project with a  *)
(*                    rule-free @u first: the verdict of the second project    *)
(*                    is the same as on fresh objects)                         *)
(*                                                                              *)
(* Composition (ComposeExpect): a project whose root is an object with one      *)
(* property per part, every part with a user type of its own, is accepted iff   *)
(* every part is; the harness composes pairs of finished projects.              *)
EXTENDS RuleSemantics, Json

CONSTANTS Skeletons,     \* subset of {"root","prop","item","or","ref","refor"}
          Bounds,        \* subset of BoundIdx used for min/max
          Kinds          \* subset of {"num","str","arr"}

VARIABLES stage,   \* "skel" | "value" | "rules" | "done"
          skel, kind, v, tv, rules
vars == <<stage, skel, kind, v, tv, rules>>

Init == stage = "skel" /\ skel = "" /\ kind = "" /\ v = 0 /\ tv = 0 /\ rules = {}

ChooseSkeleton(s) == /\ stage = "skel" /\ skel' = s /\ stage' = "value"
                     /\ UNCHANGED <<kind, v, tv, rules>>

NeedsTypeExample == skel \in {"ref", "refor", "reftor", "ref2"}
ChooseValue(k, i, j) ==
  /\ stage = "value" /\ k \in Kinds
  /\ kind' = k /\ v' = i /\ tv' = j
  /\ (k = "arr") => skel \in {"root", "prop"}                       \* arrays as root or property only
  /\ (j # 0) <=> NeedsTypeExample
  /\ (k = "num" /\ j # 0) => NumCat[i].dot = NumCat[j].dot          \* same JSON number kind as the type's example
  /\ stage' = "rules" /\ UNCHANGED <<skel, rules>>

\* canonical order of rule names: a rule may only be added after all "smaller" ones (no permutations)
Rank == [min |-> 1, exclusiveMinimum |-> 2, max |-> 3, exclusiveMaximum |-> 4, precision |-> 5,
         minLength |-> 6, maxLength |-> 7, regex |-> 8, minItems |-> 9, maxItems |-> 10, type |-> 11]
Has(n) == \E r \in rules : r.n = n
Val(n) == (CHOOSE r \in rules : r.n = n).i
Latest == IF rules = {} THEN 0 ELSE CHOOSE x \in {Rank[r.n] : r \in rules} : \A y \in {Rank[r.n] : r \in rules} : x >= y

TheNum == NumCat[v]
Allowed(r) ==
  /\ Rank[r.n] > Latest
  /\ CASE kind = "num" ->
            \/ r.n = "min" /\ r.i \in Bounds
            \/ r.n = "exclusiveMinimum" /\ r.i = 1 /\ Has("min")
            \/ r.n = "max" /\ r.i \in Bounds
                 /\ (Has("min") => LET c == CmpNum(NumCat[Val("min")], NumCat[r.i]) IN
                                     IF Has("exclusiveMinimum") THEN c < 0 ELSE c <= 0)
            \/ r.n = "exclusiveMaximum" /\ r.i = 1 /\ Has("max")
                 /\ (Has("min") => CmpNum(NumCat[Val("min")], NumCat[Val("max")]) < 0)
            \/ r.n = "precision" /\ r.i \in {1, 2} /\ TheNum.dot              \* precision belongs to float/decimal
            \/ r.n = "type" /\ ((TheNum.dot /\ r.i = 2 /\ ~Has("precision")) \/ (~TheNum.dot /\ r.i = 1)   \* 1 integer, 2 float, 3 decimal
                                \/ (TheNum.dot /\ r.i = 3 /\ Has("precision")))
       [] kind = "str" ->
            \/ r.n = "minLength" /\ r.i \in 0..3
            \/ r.n = "maxLength" /\ r.i \in 0..3 /\ (Has("minLength") => Val("minLength") <= r.i)
            \/ r.n = "regex" /\ r.i \in 1..Len(PatCat)
            \/ r.n = "type" /\ r.i = 4                                               \* 4 string
       [] kind = "arr" ->
            \/ r.n = "minItems" /\ r.i \in 0..3
            \/ r.n = "maxItems" /\ r.i \in 0..3 /\ (Has("minItems") => Val("minItems") <= r.i)
       [] OTHER -> FALSE
  \* a rule set inside `or` must name its type
  /\ TRUE

AddRule(r) == /\ stage = "rules" /\ Allowed(r)
              /\ rules' = rules \cup {r} /\ UNCHANGED <<stage, skel, kind, v, tv>>

Finish == /\ stage = "rules"
          /\ (skel \in {"or", "reftor"}) => Has("type")    \* `or` alternatives carry an explicit type
          /\ Has("precision") => Has("type")              \* precision belongs to the decimal type (compatibility table)
          /\ NeedsTypeExample => rules # {}                \* a type worth referring to has rules
          /\ stage' = "done" /\ UNCHANGED <<skel, kind, v, tv, rules>>

RuleNames == DOMAIN Rank
Next == \/ \E s \in Skeletons : ChooseSkeleton(s)
        \/ \E i \in 1..Len(NumCat), j \in 0..Len(NumCat) : ChooseValue("num", i, j)
        \/ \E i \in 1..Len(StrCat), j \in 0..Len(StrCat) : ChooseValue("str", i, j)
        \/ \E i \in 0..3 : ChooseValue("arr", i, 0)
        \/ \E n \in RuleNames, i \in 0..20 : AddRule([n |-> n, i |-> i])
        \/ Finish
Spec == Init /\ [][Next]_vars

\* ---- the verdict the documented meaning demands
ValueRules == {r \in rules : r.n # "type"}
Sat(i) == CASE kind = "num" -> SatNum(NumCat[i], ValueRules)
            [] kind = "str" -> SatStr(StrCat[i], ValueRules)
            [] kind = "arr" -> SatArr(i, ValueRules)
            [] OTHER -> TRUE
Expect == IF Sat(v) /\ (tv # 0 => Sat(tv)) THEN "accept" ELSE "reject"
\* independent parts side by side: es is the sequence of the parts' verdicts
ComposeExpect(es) == IF \A i \in DOMAIN es : es[i] = "accept" THEN "accept" ELSE "reject"

\* ---- what the replay needs: texts of the values and of the rules in canonical order
TextOf(k, i) == IF k = "num" THEN NumCat[i].text ELSE IF k = "str" THEN StrCat[i].text ELSE ""
TypeNames == <<"integer", "float", "decimal", "string">>
RuleText(r) == IF r.n \in {"min", "max"} THEN NumCat[r.i].text
               ELSE IF r.n \in {"exclusiveMinimum", "exclusiveMaximum"} THEN "true"
               ELSE IF r.n = "regex" THEN PatCat[r.i].text
               ELSE IF r.n = "type" THEN "\"" \o TypeNames[r.i] \o "\""
               ELSE ToString(r.i)
AllNames == <<"min", "exclusiveMinimum", "max", "exclusiveMaximum", "precision", "minLength", "maxLength",
              "regex", "minItems", "maxItems", "type">>
RuleSeq == LET ord == SelectSeq(AllNames, LAMBDA n : Has(n))
           IN [k \in 1..Len(ord) |-> [n |-> ord[k], t |-> RuleText(CHOOSE r \in rules : r.n = ord[k])]]

TypeOK == stage \in {"skel", "value", "rules", "done"}
\* lemma: a project without value rules is always accepted
NoRulesAccepted == (stage = "done" /\ ValueRules = {}) => Expect = "accept"
Emit == stage = "done" =>
          PrintT(ToJson([skel |-> skel, kind |-> kind, v |-> TextOf(kind, v), n |-> IF kind = "arr" THEN v ELSE 0,
                         tv |-> IF tv = 0 THEN "" ELSE TextOf(kind, tv), rules |-> RuleSeq, expect |-> Expect]))
===============================================================================
