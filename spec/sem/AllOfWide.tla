-------------------------------- MODULE AllOfWide --------------------------------
(* Inheritance by `allOf` for objects with many own keys (property C07).  AllOf.tla *)
(* explores every shape of project with at most one own key per object; here the    *)
(* heir has n own keys w1..wn, for the sizes at which an implementation may change  *)
(* how it keeps the keys of an object, and the listed types bring one key each:     *)
(*   repeat(i)   @a = {"w<i>"}: refused as a duplicate iff i <= n; for i = n + 1    *)
(*               the key is new and comes last                                      *)
(*   twice       @a = {"x"}, @b = {"x"}, allOf [@a, @b]: the second "x" would be    *)
(*               key n + 2: refused                                                 *)
(*   both        @a = {"x"}, @b = {"y"}: accepted, own keys then x then y           *)
(* The cases are emitted in the format of AllOf.tla (same replay).                  *)
EXTENDS Integers, Sequences, TLC, Json

CONSTANTS Sizes

K(i) == "w" \o ToString(i)
Own(n) == [i \in 1..n |-> [k |-> K(i), opt |-> FALSE, sub |-> <<>>]]
One(k) == [kind |-> "object", own |-> <<[k |-> k, opt |-> FALSE, sub |-> <<>>]>>, allOf |-> <<>>, ap |-> "absent"]
Heir(n, l) == [kind |-> "object", own |-> Own(n), allOf |-> l, ap |-> "absent"]
Entry(k) == [k |-> k, opt |-> FALSE, nk |-> <<>>]
OwnKeys(n) == [i \in 1..n |-> Entry(K(i))]
OwnOrigin(n) == [i \in 1..n |-> [via |-> "root", origin |-> "root"]]

(* A second family, "fan": m heirs WITHOUT own properties, each listing the same first type (bk keys b1..) and a     *)
(* second type of its own (one key: the same name "name" in every second type, or a name of its own); the root has   *)
(* one property per heir.  Every heir is the first type's keys followed by its own second type's key, whatever the  *)
(* other heirs inherit - and two heirs that inherit the same name from different types are not a duplicate.          *)
FanTypes(m, bk, same) ==
  << [name |-> "base", d |-> [kind |-> "object", own |-> [i \in 1..bk |-> [k |-> "b" \o ToString(i), opt |-> FALSE, sub |-> <<>>]], allOf |-> <<>>, ap |-> "absent"]] >>
  \o [i \in 1..m |-> [name |-> "p" \o ToString(i), d |-> One(IF same THEN "name" ELSE "n" \o ToString(i))]]
  \o [i \in 1..m |-> [name |-> "h" \o ToString(i), d |-> [kind |-> "object", own |-> <<>>, allOf |-> <<"base", "p" \o ToString(i)>>, ap |-> "absent"]]]
FanExpect(m, bk, same) == [i \in 1..m |-> [j \in 1..bk |-> "b" \o ToString(j)] \o << IF same THEN "name" ELSE "n" \o ToString(i) >>]
EmitFan == \A m \in {2, 3}, bk \in {1, 2, 4, 5, 6}, same \in BOOLEAN :
             PrintT(ToJson([fan |-> [m |-> m, bk |-> bk, same |-> same], types |-> FanTypes(m, bk, same), heirs |-> FanExpect(m, bk, same)]))
ASSUME EmitFan

VARIABLES case
Init == case = [mode |-> "none"]
Pick(c) == case.mode = "none" /\ case' = c
Next == \E n \in Sizes :
          \/ \E i \in {1, 2, n - 1, n, n + 1} \cap (1..(n + 1)) :
               Pick([mode |-> "repeat", n |-> n, a |-> One(K(i)), b |-> One("unused"), l |-> <<"a">>, dup |-> i <= n,
                     extra |-> <<Entry(K(i))>>, xo |-> <<[via |-> "a", origin |-> "a"]>>])
          \/ Pick([mode |-> "twice", n |-> n, a |-> One("x"), b |-> One("x"), l |-> <<"a", "b">>, dup |-> TRUE, extra |-> <<>>, xo |-> <<>>])
          \/ Pick([mode |-> "both", n |-> n, a |-> One("x"), b |-> One("y"), l |-> <<"a", "b">>, dup |-> FALSE,
                   extra |-> <<Entry("x"), Entry("y")>>, xo |-> <<[via |-> "a", origin |-> "a"], [via |-> "b", origin |-> "b"]>>])
Spec == Init /\ [][Next]_case

\* the merged list of an accepted case has no key twice
NoDuplicateWhenAccepted ==
  (case.mode # "none" /\ ~case.dup) =>
     LET m == OwnKeys(case.n) \o case.extra IN \A i, j \in 1..Len(m) : i # j => m[i].k # m[j].k
Emit == case.mode # "none" =>
  PrintT(ToJson([optdef |-> FALSE, selfreg |-> FALSE,
                 types |-> << [name |-> "a", d |-> case.a], [name |-> "b", d |-> case.b] >>,
                 root |-> Heir(case.n, case.l),
                 refusals |-> IF case.dup THEN <<"duplicate">> ELSE <<>>,
                 keys |-> IF case.dup THEN <<>> ELSE OwnKeys(case.n) \o case.extra,
                 origin |-> IF case.dup THEN <<>> ELSE OwnOrigin(case.n) \o case.xo,
                 alts |-> <<>>]))
===============================================================================
