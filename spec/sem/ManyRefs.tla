-------------------------------- MODULE ManyRefs --------------------------------
(* Many type names in one schema text (property C05, second configuration).      *)
(* RefPositions.tla explores every *position* with a handful of names; this      *)
(* module explores the *number* of names and their repetition: the root is an    *)
(* array (or an object) whose members mention the types @t1 .. @tN, some of them *)
(* several times, in the positions value / choice / type rule / or rule.         *)
(*   Used    = the set of names mentioned (each once, whatever the multiplicity) *)
(*   Missing = Used \ Registered                                                 *)
(* Behaviours are built mention by mention; TLC explores them by simulation      *)
(* (ManyRefs_sim.cfg) and exhaustively for the family "first n names in order,   *)
(* then one of them again" (ManyRefs_seq.cfg), which crosses every size at which *)
(* an implementation might switch its bookkeeping (4, 8, 16, 32, 64).            *)
EXTENDS Integers, Sequences, FiniteSets, TLC, Json

CONSTANTS MaxNames,     \* names are 1..MaxNames
          MaxMentions,  \* length bound of a text
          Family        \* "seq": 1, 2, .., n, r   |   "free": any sequence

Positions == {"value", "choice", "type", "or"}

VARIABLES ms,      \* sequence of mentions [n |-> name, p |-> position]
          done,
          withheld \* names left unregistered (at most one)
vars == <<ms, done, withheld>>

Init == ms = <<>> /\ done = FALSE /\ withheld = {}

Names(s) == {s[i].n : i \in 1..Len(s)}
Mention(n, p) ==
  /\ ~done /\ Len(ms) < MaxMentions /\ n \in 1..MaxNames /\ p \in Positions
  /\ IF Family = "seq"
     THEN \* one position throughout; the next new name, or - once at least two are there - an earlier one again,
          \* which ends the text
          /\ (ms # <<>> => p = ms[1].p)
          /\ \/ (n = Cardinality(Names(ms)) + 1 /\ Len(ms) = Cardinality(Names(ms)))
             \/ (n \in Names(ms) /\ Len(ms) = Cardinality(Names(ms)) /\ Len(ms) >= 2)
     ELSE TRUE
  /\ ms' = Append(ms, [n |-> n, p |-> p]) /\ UNCHANGED <<done, withheld>>
Finish(w) == /\ ~done /\ ms # <<>> /\ (w = {} \/ w \subseteq Names(ms)) /\ Cardinality(w) <= 1
             /\ (Family = "seq" => /\ Len(ms) > Cardinality(Names(ms))       \* the repeat has been written
                                   /\ w \in {{}, {1}, {ms[Len(ms)].n}})
             /\ done' = TRUE /\ withheld' = w /\ UNCHANGED ms
\* RandomElement keeps simulated behaviours from stopping early
Next == \/ \E n \in 1..MaxNames, p \in Positions : Mention(n, p)
        \/ \E w \in {{}} \cup {{n} : n \in 1..MaxNames} : Finish(w)
Spec == Init /\ [][Next]_vars

Used == Names(ms)
Missing == withheld

\* design-level: the multiplicity of a name never shows in Used
UsedIsASet == done => Cardinality(Used) <= Len(ms) /\ \A n \in Used : \E i \in 1..Len(ms) : ms[i].n = n
Emit == done => PrintT(ToJson([mentions |-> ms, used |-> Used, missing |-> Missing]))
===============================================================================
