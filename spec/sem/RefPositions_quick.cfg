SPECIFICATION Spec
CONSTANTS
  MaxMentions = 2
  Rotate = TRUE
INVARIANTS UsedIsReached MissingOnlyIfWithheld Emit
CHECK_DEADLOCK FALSE
