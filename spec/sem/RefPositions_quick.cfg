SPECIFICATION Spec
CONSTANTS
  MaxMentions = 2
INVARIANTS UsedIsReached MissingOnlyIfWithheld Emit
CHECK_DEADLOCK FALSE
