----------------------------- MODULE RuleSemantics -----------------------------
(* The documented meaning of the value rules of JSight Schema (property C01),   *)
(* over a catalogue of scalar texts with exact denotations.  Numbers are exact  *)
(* decimals mant * 10^(-scale) compared by cross-multiplication over Integers.  *)
(* Everything here is constant-level; SchemaModel builds projects from it.      *)
EXTENDS Integers, Sequences, FiniteSets, TLC

Pow10(n) == IF n = 0 THEN 1 ELSE IF n = 1 THEN 10 ELSE IF n = 2 THEN 100 ELSE IF n = 3 THEN 1000
            ELSE IF n = 4 THEN 10000 ELSE 100000

\* ---- number catalogue: text, mantissa, scale (value = m / 10^s), has a decimal point as written
Num(t, m, s, dot) == [text |-> t, m |-> m, s |-> s, dot |-> dot, kind |-> "num"]
NumCat == << Num("-10.5", -105, 1, TRUE), Num("-1", -1, 0, FALSE), Num("-0", 0, 0, FALSE), Num("0", 0, 0, FALSE),
             Num("0.5", 5, 1, TRUE), Num("1", 1, 0, FALSE), Num("9", 9, 0, FALSE), Num("9.99", 999, 2, TRUE),
             Num("10", 10, 0, FALSE), Num("10.0", 100, 1, TRUE), Num("10.00", 1000, 2, TRUE),
             Num("10.01", 1001, 2, TRUE), Num("10.001", 10001, 3, TRUE), Num("10.5", 105, 1, TRUE),
             Num("11", 11, 0, FALSE), Num("0.10", 10, 2, TRUE),
             Num("-0.0", 0, 1, TRUE), Num("0.00", 0, 2, TRUE), Num("-0.00", 0, 2, TRUE), Num("-0.10", -10, 2, TRUE) >>
\* bounds written in rules (a subset of the catalogue by index)
BoundIdx == {2, 3, 4, 6, 9, 10, 14, 17}    \* -1, -0, 0, 1, 10, 10.0, 10.5, -0.0

CmpNum(a, b) == LET S == IF a.s > b.s THEN a.s ELSE b.s
                    x == a.m * Pow10(S - a.s)
                    y == b.m * Pow10(S - b.s)
                IN IF x < y THEN -1 ELSE IF x > y THEN 1 ELSE 0
\* significant fraction digits of the value (trailing zeros do not count)
RECURSIVE FracDigits(_, _)
FracDigits(m, s) == IF s = 0 \/ m = 0 THEN 0 ELSE IF m % 10 = 0 THEN FracDigits(m \div 10, s - 1) ELSE s
IsWhole(n) == FracDigits(n.m, n.s) = 0

\* ---- string catalogue: text as written in the schema (JSON), decoded length in bytes (ASCII + escapes only),
\*      and which catalogue patterns match it
Str(t, len, tags) == [text |-> t, len |-> len, tags |-> tags, kind |-> "str"]
StrCat == << Str("\"\"", 0, {}), Str("\"a\"", 1, {"has-a", "starts-a", "lower3-"}), Str("\"ab\"", 2, {"has-a", "starts-a", "ends-b"}),
             Str("\"abc\"", 3, {"has-a", "starts-a", "lower3"}), Str("\"a\\nb\"", 3, {"has-a", "starts-a", "ends-b"}),
             Str("\"\\u0061b\"", 2, {"has-a", "starts-a", "ends-b"}), Str("\"B\"", 1, {}), Str("\"xyzw\"", 4, {}),
             Str("\"a\\fb\"", 3, {"has-a", "starts-a", "ends-b"}), Str("\"\\u0001\\b\"", 2, {}) >>
\* patterns (JSON text of the regex rule value) and the tag a string must carry to match
PatCat == << [text |-> "\"a\"", tag |-> "has-a"], [text |-> "\"^a\"", tag |-> "starts-a"],
             [text |-> "\"b$\"", tag |-> "ends-b"], [text |-> "\"^[a-z]{3}$\"", tag |-> "lower3"] >>

\* ---- a rule is [n |-> name, i |-> index / number / boolean as integer]
\* numeric node
SatNum(v, R) ==
  /\ \A r \in R : r.n = "min" => LET c == CmpNum(v, NumCat[r.i]) IN
                                  IF \E x \in R : x.n = "exclusiveMinimum" /\ x.i = 1 THEN c > 0 ELSE c >= 0
  /\ \A r \in R : r.n = "max" => LET c == CmpNum(v, NumCat[r.i]) IN
                                  IF \E x \in R : x.n = "exclusiveMaximum" /\ x.i = 1 THEN c < 0 ELSE c <= 0
  /\ \A r \in R : r.n = "precision" => FracDigits(v.m, v.s) <= r.i
\* string node
SatStr(v, R) ==
  /\ \A r \in R : r.n = "minLength" => v.len >= r.i
  /\ \A r \in R : r.n = "maxLength" => v.len <= r.i
  /\ \A r \in R : r.n = "regex" => PatCat[r.i].tag \in v.tags
\* array node with k items
SatArr(k, R) ==
  /\ \A r \in R : r.n = "minItems" => k >= r.i
  /\ \A r \in R : r.n = "maxItems" => k <= r.i

\* ---- sanity lemmas that guard against a wrong oracle (checked by TLC as ASSUME)
ASSUME \A i \in 1..Len(NumCat) : CmpNum(NumCat[i], NumCat[i]) = 0
ASSUME CmpNum(NumCat[3], NumCat[4]) = 0                 \* -0 = 0
ASSUME CmpNum(NumCat[17], NumCat[4]) = 0 /\ CmpNum(NumCat[19], NumCat[18]) = 0   \* -0.0 = 0 = 0.00 = -0.00
ASSUME CmpNum(NumCat[9], NumCat[10]) = 0 /\ CmpNum(NumCat[10], NumCat[11]) = 0    \* 10 = 10.0 = 10.00
ASSUME CmpNum(NumCat[8], NumCat[9]) = -1 /\ CmpNum(NumCat[12], NumCat[9]) = 1     \* 9.99 < 10 < 10.01
ASSUME FracDigits(1000, 2) = 0 /\ FracDigits(10, 2) = 1 /\ FracDigits(10001, 3) = 3 /\ FracDigits(0, 0) = 0
\* exclusive bounds imply inclusive ones
ASSUME \A i \in 1..Len(NumCat), b \in BoundIdx :
         SatNum(NumCat[i], {[n |-> "min", i |-> b], [n |-> "exclusiveMinimum", i |-> 1]}) => SatNum(NumCat[i], {[n |-> "min", i |-> b]})
===============================================================================
