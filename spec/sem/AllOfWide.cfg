SPECIFICATION Spec
CONSTANTS
  Sizes = {2, 7, 8, 9, 15, 16, 17, 18, 31, 32, 33, 63, 64, 65, 100}
INVARIANTS NoDuplicateWhenAccepted Emit
CHECK_DEADLOCK FALSE
