\* every scalar and key of the catalogues in the four smallest document shapes: s, [s], [s, s], {"k": s}
SPECIFICATION Spec
CONSTANTS
  MaxTokens = 4
  MaxDepth = 1
  Scalars = {1, 2, 3, 4, 5, 6, 7, 8, 9, 10, 11, 12, 13, 14, 15, 16, 17, 18, 19, 20, 21, 22, 23, 24, 25, 26, 27, 28, 29, 30, 31, 32, 33, 34, 35, 36, 37, 38, 39, 40, 41, 42, 43, 44, 45, 46, 47, 48, 49}
  Keys = {1, 2, 3, 4, 5, 6, 7, 8, 9, 10, 11, 12, 13, 14, 15, 16, 17, 18, 19}
INVARIANTS TypeOK Balanced NoDanglingKey Emit EmitSizes
CHECK_DEADLOCK FALSE
