SPECIFICATION Spec
INVARIANTS TypeOK Emit
CHECK_DEADLOCK FALSE
