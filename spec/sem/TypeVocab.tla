------------------------------- MODULE TypeVocab -------------------------------
(* The closed vocabulary of schema types (property C20): which names are types, *)
(* the documented soft-equality families, the token type of each schema type    *)
(* and JSON type, and the classification of scalar literals.                    *)
(* The exploration has two parts: Pick(a); Pick(b) over all pairs of types, and *)
(* number literals typed character by character (Number's recogniser); both     *)
(* emit one JSON case per state for the replay harness.                         *)
EXTENDS Number, Json

Undefined == ""
\* the 16 documented type names; the internal "comment" type takes part in the pairs only: it is related to itself
\* and to nothing else, in either direction (the wildcards are "the same as any other *value* type")
Types == {"string","integer","float","decimal","boolean","object","array","null",
          "email","uri","uuid","date","datetime","enum","mixed","any"}
Wild      == {"enum","mixed","any"}                       \* the same as any other type
StringFam == {"string","email","uri","uuid","date","datetime"}
FloatFam  == {"float","decimal"}
FamilyOf(t) == IF t \in StringFam THEN "string-family" ELSE IF t \in FloatFam THEN "float-family" ELSE t

Comment == "comment"
SoftEq(a, b) == IF a = Comment \/ b = Comment THEN a = b
                ELSE /\ a \in Types /\ b \in Types
                     /\ (a = b \/ a \in Wild \/ b \in Wild \/ FamilyOf(a) = FamilyOf(b))

\* near misses that must not be valid type names
NearMisses == {"", "String", "int", "number", "bool", "Integer", "strin", "strings", " string", "date-time",
               "dateTime", "UUID", "url", "@string", "any ", "nul", "obj", "list"}

\* token type of a schema type, and of a JSON type of the same name
TokenOf(t) == CASE t \in {"object"} -> "object" [] t = "array" -> "array" [] t = "string" -> "string"
                [] t \in {"integer","float","decimal"} -> "number" [] t = "boolean" -> "boolean"
                [] t = "null" -> "null" [] t = "mixed" -> "reference" [] OTHER -> ""
JsonTypeNames == {"object","array","string","integer","float","boolean","null","mixed"}

Scalars == {"string","integer","float","decimal","boolean","null","email","uri","uuid","date","datetime","enum"}

\* classification of a number literal: a text with a decimal point and no exponent is a float as written;
\* otherwise it is an integer iff its value has no significant fraction digits
HasChar(t, S) == \E i \in 1..Len(t) : t[i] \in S
KindOfNumber(t) == IF HasChar(t, {"."}) /\ ~HasChar(t, {"e","E"}) THEN "float"
                   ELSE IF Norm(t).frac = <<>> THEN "integer" ELSE "float"
\* number texts at the edges of the machine types (int32, int64, uint64, float64 precision and range) and longer:
\* the classification is a matter of the text, not of what a machine word can hold
BigNumbers == <<
   <<"9","2","2","3","3","7","2","0","3","6","8","5","4","7","7","5","8","0","7">>,
   <<"9","2","2","3","3","7","2","0","3","6","8","5","4","7","7","5","8","0","8">>,
   <<"-","9","2","2","3","3","7","2","0","3","6","8","5","4","7","7","5","8","0","8">>,
   <<"-","9","2","2","3","3","7","2","0","3","6","8","5","4","7","7","5","8","0","9">>,
   <<"1","8","4","4","6","7","4","4","0","7","3","7","0","9","5","5","1","6","1","5">>,
   <<"1","8","4","4","6","7","4","4","0","7","3","7","0","9","5","5","1","6","1","6">>,
   <<"2","1","4","7","4","8","3","6","4","7">>,
   <<"2","1","4","7","4","8","3","6","4","8">>,
   <<"-","2","1","4","7","4","8","3","6","4","9">>,
   <<"4","2","9","4","9","6","7","2","9","6">>,
   <<"1","2","3","4","5","6","7","8","9","0","1","2","3","4","5","6","7","8","9","0","1","2","3","4","5","6","7","8","9","0">>,
   <<"-","1","2","3","4","5","6","7","8","9","0","1","2","3","4","5","6","7","8","9","0","1","2","3","4","5","6","7","8","9","0">>,
   <<"1","2","3","4","5","6","7","8","9","0","1","2","3","4","5","6","7","8","9","0","1","2","3","4","5","6","7","8","9","0","1","2","3","4","5","6","7","8","9","0",".","5">>,
   <<"9","0","0","7","1","9","9","2","5","4","7","4","0","9","9","3">>,
   <<"1","e","1","9">>,
   <<"1","E","2","0">>,
   <<"9","2","2","3","3","7","2","0","3","6","8","5","4","7","7","5","8",".","0","7">>,
   <<"1","e","4","0","0">>,
   <<"1","e","-","4","0","0">>,
   <<"1",".","5","e","4","0","0">>,
   <<"1","0","0","0","0","0","0","0","0","0","0","0","0","0","0","0","0","0","0","0","0","e","-","2","0">>,
   <<"1","2","3","4","5","6","7","8","9","0","1","2","3","4","5","6","7","8","9","0","e","-","1">>,
   <<"0",".","0","0","0","0","0","0","0","0","0","0","0","0","0","0","0","0","0","0","0","0","0","0","0","0","0","0","0","0","1">>,
   <<"9","9","9","9","9","9","9","9","9","9","9","9","9","9","9","9","9","9">>,
   <<"1","0","0","0","0","0","0","0","0","0","0","0","0","0","0","0","0","0","0">>,
   <<"9","9","9","9","9","9","9","9","9","9","9","9","9","9","9","9","9","9","9","9">> >>
\* other literals: a text in double quotes is a string whatever it contains
Literals == << <<"true", "boolean">>, <<"false", "boolean">>, <<"null", "null">>, <<"{", "object">>, <<"[", "array">>,
               <<"\"\"", "string">>, <<"\"a\"", "string">>, <<"\"a.b\"", "string">>, <<"\"1.5\"", "string">>,
               <<"\"1e5\"", "string">>, <<"\"12\"", "string">>, <<"\"true\"", "string">>, <<"\"null\"", "string">>,
               <<"\"{\"", "string">>, <<"\"[\"", "string">>, <<"\"a\\\"b\"", "string">>, <<"\".\"", "string">>,
               <<"\"e\"", "string">>, <<"\"-1.0E+2\"", "string">>, <<"\"@a\"", "string">> >>

\* every text in double quotes whose body is made of up to three of these pieces (plain characters, characters that
\* mean something elsewhere in the language, every kind of escape) is a string literal
StrPieces == <<"a", ".", "1", "e", "{", "@", "/", " ", "\\\\", "\\\"", "\\n", "\\u0041", "\\/">>
RECURSIVE Concat(_, _)
Concat(f, i) == IF i > Len(f) THEN "" ELSE StrPieces[f[i]] \o Concat(f, i + 1)
StringLiterals == {"\"" \o Concat(f, 1) \o "\"" : f \in UNION {[1..n -> 1..Len(StrPieces)] : n \in 0..3}}

VARIABLES ta, tb
tvVars == <<ctl, txt, first, phase, ta, tb>>

TvInit == Init /\ ta = "none" /\ tb = "none"
PickA(t) == ta = "none" /\ txt = <<>> /\ ta' = t /\ UNCHANGED <<ctl, txt, first, phase, tb>>
PickB(t) == ta # "none" /\ tb = "none" /\ tb' = t /\ UNCHANGED <<ctl, txt, first, phase, ta>>
TypeNumber(c) == ta = "none" /\ Feed(c) /\ UNCHANGED <<ta, tb>>
TvNext == \/ \E t \in Types \cup {Undefined, Comment} : PickA(t) \/ PickB(t)
          \/ \E c \in Chars : TypeNumber(c)
TvSpec == TvInit /\ [][TvNext]_tvVars

\* ---- design-level properties (checked over all pairs)
Reflexive  == (ta \in Types) => SoftEq(ta, ta)
Symmetric  == (ta # "none" /\ tb # "none") => (SoftEq(ta, tb) <=> SoftEq(tb, ta))
UndefinedUnrelated == (ta # "none" /\ tb # "none" /\ (ta = Undefined \/ tb = Undefined)) => ~SoftEq(ta, tb)
\* exactly the documented families: two different plain types outside one family are unrelated
ExactlyFamilies == (ta \in Types \ Wild /\ tb \in Types \ Wild /\ ta # tb /\ tb # "none")
                      => (SoftEq(ta, tb) <=> FamilyOf(ta) = FamilyOf(tb))
\* token types of schema types and JSON types of the same name agree by construction; every scalar has a scalar token
ScalarTokens == \A t \in Scalars \ {"enum"} : TokenOf(t) \in {"string","number","boolean","null"} \/ t \in StringFam

\* ---- emission for the replay
EmitPair == (ta # "none" /\ tb # "none") =>
              PrintT(ToJson([kind |-> "pair", a |-> ta, b |-> tb, soft |-> SoftEq(ta, tb)]))
EmitNumber == (ta = "none" /\ ctl \in Final) =>
              PrintT(ToJson([kind |-> "number", text |-> txt, expect |-> KindOfNumber(txt)]))
EmitVocab == (ta = "none" /\ txt = <<>>) =>
              PrintT(ToJson([kind |-> "vocab", types |-> Types, near |-> NearMisses, scalars |-> Scalars,
                             jsonTypes |-> JsonTypeNames, literals |-> Literals, strings |-> StringLiterals,
                             bignumbers |-> [i \in 1..Len(BigNumbers) |-> [text |-> BigNumbers[i], expect |-> KindOfNumber(BigNumbers[i])]],
                             tokens |-> [t \in Types |-> TokenOf(t)]]))
===============================================================================
