SPECIFICATION TvSpec
CONSTANTS
  Chars = {"-","+",".","0","1","5","e","E"}
  MaxLen = 5
INVARIANTS Reflexive Symmetric UndefinedUnrelated ExactlyFamilies EmitPair EmitNumber EmitVocab
CHECK_DEADLOCK FALSE
