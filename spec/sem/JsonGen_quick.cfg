SPECIFICATION Spec
CONSTANTS
  MaxTokens = 7
  MaxDepth = 3
  Scalars = {2, 5, 9, 10, 12, 13, 15, 16}
  Keys = {1, 3, 4, 5, 6, 8}
INVARIANTS TypeOK Balanced NoDanglingKey Emit
CHECK_DEADLOCK FALSE
