SPECIFICATION Spec
CONSTANTS
  MaxTokens = 7
  MaxDepth = 3
  Scalars = {2, 5, 9, 12, 13, 15, 16, 21}
  Keys = {1, 4, 5, 6, 8, 12, 13, 15}
INVARIANTS TypeOK Balanced NoDanglingKey Emit
CHECK_DEADLOCK FALSE
