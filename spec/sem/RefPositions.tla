------------------------------ MODULE RefPositions ------------------------------
(* Type references in every position (property C05).  Names: @a (a string type), *)
(* @b (an object type), @c (a string type).  The root is an object whose         *)
(* properties mention names in the positions the language offers; the types may  *)
(* mention each other one level further.  Every subset of the definitions may be *)
(* registered or withheld, and an unused valid type @z may be registered on top. *)
(*   Used      = the names the root text mentions, in any position.              *)
(*   Reach     = names reachable from the root through mentions of registered    *)
(*               types.                                                          *)
(*   Missing   = Reach \ Registered: Check() must fail with "type not found"     *)
(*               naming one of them iff this set is not empty.                   *)
(* Generator hygiene: the only defect a project may have is a withheld           *)
(* definition; kinds fit the positions; mentions among types are acyclic; a      *)
(* registered type that nothing reaches mentions registered names only.          *)
EXTENDS Integers, Sequences, FiniteSets, TLC, Json

CONSTANTS MaxMentions,       \* properties of the root
          Rotate             \* TRUE: each project stands in one place, given by its shape; FALSE: in every place

\* Where the mentioning properties stand.  What a text mentions does not depend on where in the text it does so:
\*   flat    they are the properties of the root object
\*   nested  they are the properties of an object that is the property "w" of the root
\*   atkey   the same, but that property is spelled like a type name, in quotation marks: "@w" (an ordinary key - @w is
\*           not a type of the project, is not used and is not missing)
\*   item    they are the properties of an object that is the only item of the array "w" of the root
\* (allOf and additionalProperties annotate the root object in every case.)
Places == <<"flat", "nested", "atkey", "item">>
\* how the `|` of a choice is written: blanks on both sides, on neither, on one (the names are the same)
Pipes == <<" | ", "|", " |", "| ">>

Names == {"a", "b", "c", "d"}
StringNames == {"a", "c", "d"}
ObjectNames == {"b"}

\* a mention in the root: position and the names it uses
M(pos, ns) == [pos |-> pos, ns |-> ns]
RootMentions ==
     {M("value", <<n>>) : n \in Names}
\cup {M("choice", <<pr[1], pr[2]>>) : pr \in {q \in Names \X Names : q[1] # q[2]}}
\cup {M("key", <<n>>) : n \in StringNames}
\cup {M("type", <<n>>) : n \in StringNames}
\cup {M("or", <<n>>) : n \in StringNames}
\cup {M("orset", <<n>>) : n \in StringNames}
\cup {M("or2", <<pr[1], pr[2]>>) : pr \in {q \in StringNames \X StringNames : q[1] # q[2]}}
\cup {M("ormixed", <<pr[1], pr[2]>>) : pr \in {q \in StringNames \X StringNames : q[1] # q[2]}}   \* "x" // {type: "mixed", or: ["@n", "@m"]}
\cup {M("mixedor", <<n>>) : n \in StringNames}                                                    \* "x" // {or: ["@n", "integer"], type: "mixed"}
\cup {M("typenull", <<n>>) : n \in StringNames}      \* null // {type: "@n", nullable: true}
\cup {M("ornull", <<n>>) : n \in StringNames}        \* null // {or: ["@n", "integer"], nullable: true}
\cup {M("allOf", <<n>>) : n \in ObjectNames}
\cup {M("addprops", <<n>>) : n \in Names}

\* what a type definition may mention (0 = nothing); variants per name keep the kinds right
\*   a: "s"            | "s" // {type: "@c"}
\*   b: {"bk": 1}      | {"bk": @a} | {"bk": @c} | { // {allOf ...} no: single object type } | {"bk": 1} // {additionalProperties: "@a"}
\*   c: "t"            | "t" // {or: ["@a", "integer"]}
\*   a: @c  (a type that is nothing but a reference),   c: @a
\*   d: "u"  (a plain string type, mentions nothing)
TypeVariants == [a |-> {<<>>, <<"c">>, <<"ref-c">>}, b |-> {<<>>, <<"a">>, <<"c">>, <<"ap-a">>}, c |-> {<<>>, <<"a">>, <<"ref-a">>}, d |-> {<<>>}]
MentionsOf(n, v) == IF v = <<>> THEN {} ELSE IF v \in {<<"ap-a">>, <<"ref-a">>} THEN {"a"} ELSE IF v = <<"ref-c">> THEN {"c"} ELSE {v[1]}

VARIABLES root,        \* sequence of root mentions
          variant,     \* [Names -> variant]
          registered,  \* subset of Names
          unused,      \* is @z registered too?
          place,       \* where the mentioning properties stand (an element of Places)
          pipe,        \* how the `|` of choices is written (an element of Pipes)
          stage
vars == <<root, variant, registered, unused, place, pipe, stage>>

Init == root = <<>> /\ variant = [n \in Names |-> <<>>] /\ registered = {} /\ unused = FALSE /\ place = "flat" /\ pipe = " | " /\ stage = "root"

AddMention(m) == /\ stage = "root" /\ Len(root) < MaxMentions
                 /\ (m.pos = "allOf" => \A i \in 1..Len(root) : root[i].pos # "allOf")        \* one object, one allOf list each
                 /\ (m.pos = "addprops" => \A i \in 1..Len(root) : root[i].pos # "addprops")  \* and one additionalProperties rule
                 /\ (m.pos = "key" => \A i \in 1..Len(root) : root[i].pos # "key" \/ root[i].ns # m.ns)  \* no duplicate shortcut key
                 /\ root' = Append(root, m) /\ UNCHANGED <<variant, registered, unused, place, pipe, stage>>
ChooseVariants(f) == /\ stage = "root" /\ root # <<>>
                     /\ f \in [Names -> UNION {TypeVariants[n] : n \in Names}]
                     /\ \A n \in Names : f[n] \in TypeVariants[n]
                     \* acyclic mentions among types: a -> c and c -> a not together
                     /\ ~(f["a"] \in {<<"c">>, <<"ref-c">>} /\ f["c"] \in {<<"a">>, <<"ref-a">>})
                     \* a key shortcut needs a type whose kind is known without looking further
                     /\ \A i \in 1..Len(root) : root[i].pos = "key" => f[root[i].ns[1]] \notin {<<"ref-a">>, <<"ref-c">>}
                     \* the two alternatives of an `or` do not lead to one another (the library reports that as a recursion)
                     /\ \A i \in 1..Len(root) : root[i].pos \in {"or2", "choice", "ormixed"} =>
                            /\ root[i].ns[2] \notin MentionsOf(root[i].ns[1], f[root[i].ns[1]])
                            /\ root[i].ns[1] \notin MentionsOf(root[i].ns[2], f[root[i].ns[2]])
                     \* inheriting from @b must not meet a different additionalProperties setting (that is C07's refusal)
                     /\ (f["b"] = <<"ap-a">> /\ (\E i \in 1..Len(root) : root[i].pos = "allOf"))
                           => \A i \in 1..Len(root) : root[i].pos = "addprops" => root[i].ns = <<"a">>
                     /\ variant' = f /\ stage' = "register" /\ UNCHANGED <<root, registered, unused, place, pipe>>
ShapeNumber(S, z) == Cardinality(S) + Len(root) + (IF z THEN 1 ELSE 0) + Cardinality({n \in Names : variant[n] # <<>>})
Register(S, z, pl) == /\ stage = "register"
                      /\ (Rotate => pl = Places[(ShapeNumber(S, z) % Len(Places)) + 1])
                      /\ pipe' = Pipes[((ShapeNumber(S, z) \div Len(Places)) % Len(Pipes)) + 1]
                      /\ registered' = S /\ unused' = z /\ place' = pl /\ stage' = "done" /\ UNCHANGED <<root, variant>>
Next == \/ \E m \in RootMentions : AddMention(m)
        \/ \E f \in [Names -> {<<>>, <<"a">>, <<"c">>, <<"ap-a">>, <<"ref-a">>, <<"ref-c">>}] : ChooseVariants(f)
        \/ \E S \in SUBSET Names, z \in BOOLEAN, i \in 1..Len(Places) : Register(S, z, Places[i])
Spec == Init /\ [][Next]_vars

Used == UNION {{root[i].ns[j] : j \in 1..Len(root[i].ns)} : i \in 1..Len(root)}
RECURSIVE Close(_, _)
Close(S, k) == IF k = 0 THEN S
               ELSE Close(S \cup UNION {IF n \in registered THEN MentionsOf(n, variant[n]) ELSE {} : n \in S}, k - 1)
Reach == Close(Used, 3)
Missing == Reach \ registered

\* hygiene: registered types nothing reaches mention registered names only
Hygienic == \A n \in registered \ Reach : MentionsOf(n, variant[n]) \subseteq registered
\* the root refers to an object where it needs one: allOf needs @b's definition to be an object (always), fine by kinds

\* ---- design-level lemmas
UsedIsReached == stage = "done" => Used \subseteq Reach
MissingOnlyIfWithheld == stage = "done" => (Missing = {} <=> Reach \subseteq registered)
\* registering the unused type changes neither Used nor Missing (they do not mention it)
Emit == (stage = "done" /\ Hygienic) =>
          PrintT(ToJson([root |-> root, variant |-> variant, registered |-> registered, unused |-> unused, place |-> place, pipe |-> pipe,
                         used |-> Used, missing |-> Missing]))
===============================================================================
