-------------------------------- MODULE JsonGen --------------------------------
(* Generator of RFC 8259 JSON texts without exponent numbers and without        *)
(* duplicate keys (property C03), as a pushdown machine that emits tokens:      *)
(* every behaviour that ends with an empty stack is a well-formed document.     *)
(* Scalars and keys come from catalogues that cover the escape forms, non-ASCII *)
(* text, surrogate pairs, -0, leading-zero fractions and empty containers.      *)
(* The specification also fixes the rendering: Render gives the token texts, a  *)
(* layout id selects the blank run written at every whitespace position.        *)
(* (TLC cannot print non-ASCII text: the two non-ASCII entries are written as   *)
(* placeholders <NONASCII-n> which the harness replaces by fixed UTF-8 bytes.)  *)
EXTENDS Integers, Sequences, FiniteSets, TLC, Json

CONSTANTS MaxTokens, MaxDepth,
          Scalars,      \* indices into ScalarCat used by this configuration
          Keys          \* indices into KeyCat

ScalarCat == << "0", "-0", "12", "-3.25", "0.10", "1.50", "true", "false", "null", "\"\"", "\"a\"",
                "\"q\\\"b\\\\s\\/\"", "\"\\b\\f\\n\\r\\t\"", "\"\\u00e9\\u0041\"", "\"\\ud83d\\ude00\"", "\"<NONASCII-1>\"", "\"a.b\"", "\"1e5\"", "\"// {x}\"", "\"@t\"", "\"\\u001f\\u0010\\u0000\"",
                \* 22..: numbers at the edges of the machine word sizes, long digit strings, spellings of zero and one
                "18446744073709551615", "18446744073709551616", "-18446744073709551616", "9223372036854775807",
                "9223372036854775808", "-9223372036854775808", "-9223372036854775809", "4294967296", "-2147483649",
                "99999999999999999999", "123456789012345678901234567890", "0.000000000000000000001",
                "3.141592653589793238462643383279", "-0.0", "0.0", "1.0", "100", "-1", "1.7976931348623157",
                \* 41..: strings made of escapes only, a long string
                "\"\\\\\"", "\"\\\\\\\\\"", "\"\\\"\"", "\"\\/\"", "\"\\u005c\"",
                "\"Lorem ipsum dolor sit amet, consectetur adipiscing elit, sed do eiusmod tempor incididunt ut labore et dolore magna aliqua\"",
                \* 47..: U+007F (DEL) is not a control character for RFC 8259: it may stand unescaped (placeholder <DEL>)
                "\"a<DEL>b\"", "\"<DEL>\"", "\"\\u007f\"" >>
KeyCat    == << "\"a\"", "\"b\"", "\"\"", "\"a\\\"b\"", "\"a\\\\b\"", "\"a\\nb\"", "\"k\\u00e9\"", "\"<NONASCII-2>\"", "\"a b\"", "\"@k\"", "\"a/b\"", "\"k\\u001fz\"", "\"\\u0001\\b\\f\"", "\"k<DEL>\"",
                \* 15..: keys whose own text begins and ends with a quotation mark, is one, or is a backslash
                "\"\\\"a\\\"\"", "\"\\\"\\\"\"", "\"\\\"\"", "\"\\\\\"", "\"\\\"a\"" >>

VARIABLES stk,     \* open containers: records [k |-> "o"|"a", n |-> members so far, used |-> keys used]
          out,     \* tokens emitted: "{" "}" "[" "]" <<"key", i>> <<"scalar", i>>
          fin      \* a complete top-level value has been emitted
vars == <<stk, out, fin>>

Init == stk = <<>> /\ out = <<>> /\ fin = FALSE
Top == stk[Len(stk)]
TopK == IF stk = <<>> THEN "none" ELSE stk[Len(stk)].k
LastTok == IF out = <<>> THEN "none" ELSE out[Len(out)][1]
Room(n) == Len(out) + n + Len(stk) <= MaxTokens        \* leave room to close what is open
Bump == IF stk = <<>> THEN stk ELSE [stk EXCEPT ![Len(stk)].n = @ + 1]
\* a value may start at top level, in an array, or in an object right after a key
CanValue == ~fin /\ (TopK \in {"none", "a"} \/ (TopK = "o" /\ LastTok = "key"))
CanKey   == ~fin /\ TopK = "o" /\ LastTok # "key"

EmitScalar(i) == /\ CanValue /\ Room(1)
                 /\ out' = Append(out, <<"scalar", i>>) /\ stk' = Bump /\ fin' = (stk = <<>>)
Open(kind)    == /\ CanValue /\ Room(2) /\ Len(stk) < MaxDepth
                 /\ out' = Append(out, <<IF kind = "o" THEN "{" ELSE "[", 0>>)
                 /\ stk' = Append(Bump, [k |-> kind, n |-> 0, used |-> {}]) /\ fin' = FALSE
EmitKey(i)    == /\ CanKey /\ Room(2) /\ i \notin Top.used
                 /\ out' = Append(out, <<"key", i>>)
                 /\ stk' = [stk EXCEPT ![Len(stk)].used = @ \cup {i}] /\ fin' = FALSE
Close         == /\ ~fin /\ TopK # "none" /\ (TopK = "a" \/ LastTok # "key")
                 /\ out' = Append(out, <<IF TopK = "o" THEN "}" ELSE "]", 0>>)
                 /\ stk' = SubSeq(stk, 1, Len(stk) - 1) /\ fin' = (Len(stk) = 1)

Next == (\E i \in Scalars : EmitScalar(i)) \/ (\E k \in {"o", "a"} : Open(k)) \/ (\E i \in Keys : EmitKey(i)) \/ Close
Spec == Init /\ [][Next]_vars

\* ---- design-level invariants
TypeOK == Len(out) <= MaxTokens /\ Len(stk) <= MaxDepth
\* brackets balance exactly when the document is finished
Opens  == Len(SelectSeq(out, LAMBDA t : t[1] \in {"{", "["}))
Closes == Len(SelectSeq(out, LAMBDA t : t[1] \in {"}", "]"}))
Balanced == (fin => Opens = Closes /\ stk = <<>>) /\ (Opens - Closes = Len(stk))
\* in an object keys and values alternate, and a key never repeats (by construction of `used`)
NoDanglingKey == fin => LastTok # "key"

\* ---- rendering: token texts; the harness joins them with the layout's blank runs and inserts , and :
TokText(t) == IF t[1] = "key" THEN KeyCat[t[2]] ELSE IF t[1] = "scalar" THEN ScalarCat[t[2]] ELSE t[1]
\* ---- size: the documents above are small; the same catalogue also fills three large shapes - a flat array of n
\* scalars, an object of n members, a matrix of about n scalars - for the sizes at which an implementation may switch
\* its bookkeeping or meet a limit (the harness builds them from the catalogue, cycling through the scalars)
ScaledSizes == {15, 16, 17, 63, 64, 65, 255, 256, 257, 999, 1000, 1001, 1023, 1024, 1025, 4096, 20000}
\* ---- whitespace: RFC 8259 allows any run of space, tab, line feed and carriage return around the six structural
\* characters and around the text.  Every document is rendered with each of these runs at every such place (the same
\* run everywhere): none, each blank alone, the line-end conventions, and runs of two and more blanks of one and of
\* several kinds (a run is where an implementation may take a short cut that a single blank does not take).
BlankRuns == << <<>>, <<"sp">>, <<"tab">>, <<"lf">>, <<"cr","lf">>, <<"cr">>, <<"sp","lf","tab">>,
               <<"sp","sp">>, <<"tab","tab","tab">>, <<"sp","tab","sp">>, <<"sp","sp","sp","sp","sp","sp","sp","sp">>,
               <<"lf","lf">>, <<"cr","lf","sp","sp">> >>
EmitSizes == (out = <<>> /\ ~fin) => PrintT(ToJson([sizes |-> ScaledSizes, blanks |-> BlankRuns]))
Emit == fin => PrintT(ToJson([toks |-> [i \in 1..Len(out) |-> [k |-> out[i][1], t |-> TokText(out[i])]]]))
===============================================================================
