SPECIFICATION Spec
CONSTANTS
  N = 3
  MaxRoot = 2
  MaxOther = 1
  Ring = FALSE
INVARIANTS Theorem FixIsFixpoint NoRefsAreFinite Emit
CHECK_DEADLOCK FALSE
