SPECIFICATION Spec
CONSTANTS
  MaxNames = 3
  MaxMentions = 4
  Family = "free"
INVARIANTS UsedIsASet Emit
CHECK_DEADLOCK FALSE
