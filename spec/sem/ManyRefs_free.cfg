SPECIFICATION Spec
CONSTANTS
  MaxNames = 4
  MaxMentions = 4
  Family = "free"
INVARIANTS UsedIsASet Emit
CHECK_DEADLOCK FALSE
