SPECIFICATION Spec
CONSTANTS
  Skeletons = {"root","prop","item","or","ref","refor","reftor","ref2"}
  Bounds = {3, 4, 6, 9, 14}
  Kinds = {"num","str","arr"}
INVARIANTS TypeOK NoRulesAccepted Emit
CHECK_DEADLOCK FALSE
