SPECIFICATION Spec
CONSTANTS
  MaxItems = 3
INVARIANTS TypeOK EmitCat
CHECK_DEADLOCK FALSE
