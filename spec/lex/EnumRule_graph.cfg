SPECIFICATION Spec
CONSTANTS
  MaxItems = 3
  Use = {1, 2, 3, 4, 5, 6, 7, 8, 9, 10, 11, 12}
INVARIANTS TypeOK EmitCat
PROPERTIES ErrIsFinal
CHECK_DEADLOCK FALSE
