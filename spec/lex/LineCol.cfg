SPECIFICATION Spec
CONSTANTS
  MaxLen = 6
INVARIANTS TypeOK Monotone ColumnsRestart Emit
CHECK_DEADLOCK FALSE
