------------------------------- MODULE JSchemaLex -------------------------------
(* The stream of lexical events of the schema scanner (notations/jschema/scanner) *)
(* as a language of its own: which event may follow which, what the spans of the  *)
(* events are, and what may stand in the text between two events.  The scanner    *)
(* is the first stage of everything the library does with a schema - the loader   *)
(* builds the tree, and with it the AST, the example, Len() and every position of *)
(* a diagnostic, from these events - so an event stream that is a behaviour of    *)
(* this module is what "the library read the text the way it is written" means    *)
(* at the lowest level (properties C03, C04, C14, C15 rest on it).                *)
(*                                                                                *)
(* The module is a pushdown acceptor over events.  An event carries               *)
(*   t      its type (the names of lexeme.LexEventType)                           *)
(*   b, e   the span [b, e] of bytes it reports                                   *)
(*   fc, lc the classes of the bytes at b and at e (nc: of the byte after e)       *)
(*   from   where the text not yet accounted for begins (must equal `cur`)        *)
(*   gap    what stands between `from` and the event: number of commas, colons,   *)
(*          other non-blank bytes, and whether a '#' is among them (a user        *)
(*          comment; its text is free, so counts are then lower bounds)           *)
(*   scalar (literal-end only) is the span a JSON scalar on its own?              *)
(* The grammar of events:                                                         *)
(*   Value  ::= literal-begin literal-end                                         *)
(*            | object-begin (Key value-begin Value value-end)* object-end        *)
(*            | array-begin (item-begin Value item-end)* array-end                *)
(*            | mixed-value-begin types-shortcut-begin types-shortcut-end         *)
(*              mixed-value-end                                                   *)
(*   Key    ::= key-begin key-end | key-shortcut-begin key-shortcut-end           *)
(*   Ann    ::= inline-annotation-begin Body inline-annotation-end                *)
(*            | multi-line-annotation-begin Body multi-line-annotation-end        *)
(*   Body   ::= [object of rules] [text-begin text-end]                           *)
(* An annotation may stand after the root value, directly after the opening       *)
(* bracket of a container and after a member of a container - never inside        *)
(* another annotation; new-line events may stand wherever no scalar is open.      *)
(* Members are separated by exactly one comma, a key and its value by exactly one *)
(* colon; the comma may stand before or after an annotation that follows the      *)
(* member; inside the object of rules a comma before the closing brace is allowed.*)
EXTENDS Integers, Sequences, TLC

VARIABLES stk,     \* open events, innermost last: [k, b, ph, seps, ce, rule]
          cur,     \* first byte of the text not yet accounted for
          pend,    \* what new-line events have skipped since the last other event: [comma, colon, other, hash]
          status   \* "run" | "end" (after end-top)
lexVars == <<stk, cur, pend, status>>

NoGap == [comma |-> 0, colon |-> 0, other |-> 0, hash |-> FALSE]
Frame(k, b, rule) == [k |-> k, b |-> b, ph |-> "start", seps |-> 0, ce |-> -1, rule |-> rule]
LexInit == stk = << Frame("top", 0, FALSE) >> /\ cur = 0 /\ pend = NoGap /\ status = "run"

Top == stk[Len(stk)]
Depth == Len(stk)
InAnnotation == \E i \in 1..Len(stk) : stk[i].k \in {"iann", "mann"}
Add(g, h) == [comma |-> g.comma + h.comma, colon |-> g.colon + h.colon, other |-> g.other + h.other, hash |-> g.hash \/ h.hash]

\* what stands between two events
Blank(g)     == g.comma = 0 /\ g.colon = 0 /\ (g.other = 0 \/ g.hash)
OneComma(g)  == (g.comma = 1 \/ (g.hash /\ g.comma >= 1)) /\ (g.colon = 0 \/ g.hash) /\ (g.other = 0 \/ g.hash)
OneColon(g)  == (g.colon = 1 \/ (g.hash /\ g.colon >= 1)) /\ (g.comma = 0 \/ g.hash) /\ (g.other = 0 \/ g.hash)
AtMostOneComma(g) == Blank(g) \/ OneComma(g)

SetTop(f) == [stk EXCEPT ![Len(stk)] = f]
Push(f) == Append(stk, f)
\* pop the innermost frame and tell the one below that its child ended at ce
PopDone(ce) == LET rest == SubSeq(stk, 1, Len(stk) - 1) p == rest[Len(rest)]
               IN [rest EXCEPT ![Len(rest)] = [p EXCEPT !.ph = (IF p.k \in {"object", "array"} THEN "after"
                                                               ELSE IF p.k \in {"iann", "mann"} THEN (IF Top.k = "object" THEN "afterobj" ELSE "aftertext")
                                                               ELSE "done"),
                                                        !.ce = ce, !.seps = 0]]

ScalarStart == {"quote", "digit", "minus", "t", "f", "n"}

\* a value may begin here: at the root, after value-begin, after item-begin - or as the value of a rule
ValueMayBegin == Top.k \in {"top", "value", "item"} /\ Top.ph = "start"
\* an annotation may begin here
AnnotationMayBegin == /\ ~InAnnotation
                      /\ \/ Top.k = "top" /\ Top.ph = "done"
                         \/ Top.k \in {"object", "array"} /\ Top.ph \in {"start", "after"}

\* the span of a closing event begins where its opening event began
Closes(e, k) == Top.k = k /\ e.b = Top.b

Step(e, g) ==
  CASE e.t = "new-line" ->
         /\ Top.k \notin {"literal", "key", "kshort", "tshort", "ianntext", "iann"}
         /\ e.b = e.e /\ e.b >= cur
         \* the event reports the line-end byte.  As the scanner is written, the line end that closes a `#` user comment
         \* is reported twice: first at the last byte of the comment, then at the line end itself.
         /\ \/ e.fc \in {"cr", "lf"}
            \/ e.nc \in {"cr", "lf"} /\ (e.gap.hash \/ e.fc = "hash")
         /\ stk' = stk /\ cur' = e.e + 1 /\ pend' = g /\ status' = "run"
    [] e.t = "end-top" ->
         /\ Top.k = "top" /\ Top.ph = "done" /\ Depth = 1 /\ e.b >= cur
         /\ stk' = stk /\ cur' = cur /\ pend' = NoGap /\ status' = "end"
    \* ---- values
    [] e.t \in {"object-begin", "array-begin"} ->
         /\ ValueMayBegin \/ (Top.k \in {"iann", "mann"} /\ Top.ph = "start" /\ e.t = "object-begin")
         /\ e.b = e.e /\ e.b >= cur /\ e.fc = (IF e.t = "object-begin" THEN "lbrace" ELSE "lbrack")
         /\ Top.k \in {"top", "iann", "mann"} => Blank(g)
         /\ stk' = Push(Frame(IF e.t = "object-begin" THEN "object" ELSE "array", e.b, InAnnotation))
         /\ cur' = e.e + 1 /\ pend' = NoGap /\ status' = "run"
    [] e.t \in {"object-end", "array-end"} ->
         /\ Closes(e, IF e.t = "object-end" THEN "object" ELSE "array")
         /\ Top.ph \in {"start", "after"}
         /\ e.e >= cur /\ e.e > e.b /\ e.lc = (IF e.t = "object-end" THEN "rbrace" ELSE "rbrack")
         \* nothing but blanks (and at most the comma that an annotation was written after) before the closing bracket;
         \* inside an object of rules a comma before the closing brace is allowed
         /\ LET seps == [g EXCEPT !.comma = g.comma + Top.seps] IN
            IF Top.ph = "start" THEN Blank(seps) ELSE IF Top.rule THEN AtMostOneComma(seps) ELSE Blank(seps)
         /\ stk' = PopDone(e.e) /\ cur' = e.e + 1 /\ pend' = NoGap /\ status' = "run"
    [] e.t = "literal-begin" ->
         /\ ValueMayBegin /\ e.b = e.e /\ e.b >= cur
         /\ (~InAnnotation => e.fc \in ScalarStart)
         /\ Top.k = "top" => Blank(g)
         /\ stk' = Push(Frame("literal", e.b, InAnnotation)) /\ cur' = e.b /\ pend' = NoGap /\ status' = "run"
    [] e.t = "literal-end" ->
         /\ Closes(e, "literal") /\ e.e >= e.b /\ e.e + 1 >= cur
         /\ (e.fc = "quote" => e.lc = "quote" /\ e.e > e.b)
         /\ (~Top.rule => e.scalar)
         /\ stk' = PopDone(e.e) /\ cur' = e.e + 1 /\ pend' = NoGap /\ status' = "run"
    [] e.t = "mixed-value-begin" ->
         /\ ValueMayBegin /\ e.b = e.e /\ e.b >= cur /\ e.fc = "at"
         /\ Top.k = "top" => Blank(g)
         /\ stk' = Push(Frame("mixed", e.b, InAnnotation)) /\ cur' = e.b /\ pend' = NoGap /\ status' = "run"
    [] e.t = "types-shortcut-begin" ->
         /\ Top.k = "mixed" /\ Top.ph = "start" /\ e.b = Top.b /\ e.b = e.e /\ e.fc = "at"
         /\ stk' = Push(Frame("tshort", e.b, InAnnotation)) /\ cur' = e.b /\ pend' = NoGap /\ status' = "run"
    [] e.t = "types-shortcut-end" ->
         /\ Closes(e, "tshort") /\ e.e > e.b /\ e.e + 1 >= cur
         /\ stk' = PopDone(e.e) /\ cur' = e.e + 1 /\ pend' = NoGap /\ status' = "run"
    [] e.t = "mixed-value-end" ->
         \* the value is the shortcut, without the blank that may follow it
         /\ Closes(e, "mixed") /\ Top.ph = "done" /\ e.e \in {Top.ce, Top.ce - 1} /\ e.e > e.b
         /\ stk' = PopDone(Top.ce) /\ cur' = cur /\ pend' = NoGap /\ status' = "run"
    \* ---- members of objects
    [] e.t \in {"key-begin", "key-shortcut-begin"} ->
         /\ Top.k = "object" /\ Top.ph \in {"start", "after"} /\ e.b = e.e /\ e.b >= cur
         /\ (e.t = "key-shortcut-begin" => ~InAnnotation /\ e.fc = "at")
         /\ (e.t = "key-begin" /\ ~Top.rule => e.fc = "quote")
         /\ LET seps == [g EXCEPT !.comma = g.comma + Top.seps] IN
            IF Top.ph = "start" THEN Blank(seps) ELSE OneComma(seps)
         /\ stk' = Push(Frame(IF e.t = "key-begin" THEN "key" ELSE "kshort", e.b, InAnnotation))
         /\ cur' = e.b /\ pend' = NoGap /\ status' = "run"
    [] e.t \in {"key-end", "key-shortcut-end"} ->
         /\ Closes(e, IF e.t = "key-end" THEN "key" ELSE "kshort") /\ e.e >= e.b /\ e.e + 1 >= cur
         /\ (e.fc = "quote" => e.lc = "quote" /\ e.e > e.b)
         /\ stk' = [PopDone(e.e) EXCEPT ![Len(stk) - 1].ph = "colon"]
         /\ cur' = e.e + 1 /\ pend' = NoGap /\ status' = "run"
    [] e.t = "value-begin" ->
         /\ Top.k = "object" /\ Top.ph = "colon" /\ e.b = e.e /\ e.b >= cur /\ OneColon(g)
         /\ stk' = Push(Frame("value", e.b, InAnnotation)) /\ cur' = e.b /\ pend' = NoGap /\ status' = "run"
    [] e.t = "item-begin" ->
         /\ Top.k = "array" /\ Top.ph \in {"start", "after"} /\ e.b = e.e /\ e.b >= cur
         /\ LET seps == [g EXCEPT !.comma = g.comma + Top.seps] IN
            IF Top.ph = "start" THEN Blank(seps) ELSE OneComma(seps)
         /\ stk' = Push(Frame("item", e.b, InAnnotation)) /\ cur' = e.b /\ pend' = NoGap /\ status' = "run"
    [] e.t \in {"value-end", "item-end"} ->
         \* the span of a member is the span of its value
         /\ Closes(e, IF e.t = "value-end" THEN "value" ELSE "item") /\ Top.ph = "done" /\ e.e = Top.ce
         /\ stk' = PopDone(e.e) /\ cur' = cur /\ pend' = NoGap /\ status' = "run"
    \* ---- annotations
    [] e.t \in {"inline-annotation-begin", "multi-line-annotation-begin"} ->
         /\ AnnotationMayBegin /\ e.e = e.b + 1 /\ e.b >= cur
         /\ e.fc = "slash" /\ e.lc = (IF e.t = "inline-annotation-begin" THEN "slash" ELSE "star")
         \* the comma after the member may stand before its annotation
         /\ IF Top.k = "top" \/ Top.ph = "start" THEN Blank(g) ELSE AtMostOneComma([g EXCEPT !.comma = g.comma + Top.seps])
         \* (the comma is remembered in the frame of the container the annotation stands in)
         /\ stk' = Append([stk EXCEPT ![Len(stk)].seps = IF Top.k = "top" THEN 0 ELSE Top.seps + g.comma],
                          Frame(IF e.t = "inline-annotation-begin" THEN "iann" ELSE "mann", e.b, TRUE))
         /\ cur' = e.e + 1 /\ pend' = NoGap /\ status' = "run"
    [] e.t \in {"inline-annotation-text-begin", "multi-line-annotation-text-begin"} ->
         /\ Top.k = (IF e.t = "inline-annotation-text-begin" THEN "iann" ELSE "mann") /\ Top.ph \in {"start", "afterobj"}
         /\ e.b = e.e /\ e.b >= cur
         /\ stk' = Push(Frame(IF Top.k = "iann" THEN "ianntext" ELSE "manntext", e.b, TRUE))
         /\ cur' = e.b /\ pend' = NoGap /\ status' = "run"
    [] e.t \in {"inline-annotation-text-end", "multi-line-annotation-text-end"} ->
         /\ Closes(e, IF e.t = "inline-annotation-text-end" THEN "ianntext" ELSE "manntext") /\ e.e >= e.b /\ e.e + 1 >= cur
         /\ stk' = PopDone(e.e) /\ cur' = e.e + 1 /\ pend' = NoGap /\ status' = "run"
    [] e.t = "inline-annotation-end" ->
         \* an inline annotation ends with the last thing written in it
         /\ Closes(e, "iann") /\ Top.ph \in {"afterobj", "aftertext"} /\ e.e = Top.ce
         /\ stk' = SubSeq(stk, 1, Len(stk) - 1) /\ cur' = cur /\ pend' = pend /\ status' = "run"
    [] e.t = "multi-line-annotation-end" ->
         /\ Closes(e, "mann") /\ Top.ph \in {"start", "afterobj", "aftertext"} /\ e.e >= cur /\ e.e > Top.ce
         /\ e.lc = "slash"
         /\ stk' = SubSeq(stk, 1, Len(stk) - 1) /\ cur' = e.e + 1 /\ pend' = pend /\ status' = "run"
    [] OTHER -> FALSE

\* Ev(e): the event e happens; `pend` carries over what new-line events skipped.
Ev(e) == status = "run" /\ e.from = cur /\ Step(e, Add(pend, e.gap))

\* ---- structural invariants
TypeOK == /\ Len(stk) >= 1 /\ stk[1].k = "top" /\ cur >= 0
          /\ \A i \in 2..Len(stk) : stk[i].b >= stk[i - 1].b                      \* nesting: spans begin inside their parent
          /\ \A i \in 1..Len(stk) : stk[i].b <= cur
\* annotations do not nest
AnnotationsDoNotNest == \A i, j \in 1..Len(stk) : (i # j /\ stk[i].k \in {"iann", "mann"}) => stk[j].k \notin {"iann", "mann"}
===============================================================================
