------------------------------ MODULE JSchemaScan ------------------------------
(* JSight schema text at byte-class level: a generator with state coverage for  *)
(* the properties that quantify over *all byte strings* given to the schema     *)
(* entry points (C02: nothing crashes, C16: every rejection is a well-formed    *)
(* diagnostic).  It extends the JSON automaton of JsonDoc with what a schema    *)
(* adds: `@name` references and `@a | @b` choices as values, `@name` keys,      *)
(* `#` line comments and `###` block comments, `// ...` and `/* ... */`         *)
(* annotations that hold a rule object with bare or quoted keys, nested lists   *)
(* and rule-sets, and a `- note`.                                               *)
(*                                                                              *)
(* Status of this module (DESIGN §2.1): on the plain-JSON subset it follows RFC *)
(* 8259 minus exponents; on annotations and comments the language document is   *)
(* not available offline, so the module is NOT an acceptance oracle there: it   *)
(* only says which byte classes keep a text "inside the language as far as we   *)
(* know" (viable prefixes), so that every control state is crossed with every   *)
(* byte class and with end of input.  Inputs are emitted as the history `input`.*)
EXTENDS Integers, Sequences, TLC, Json

CONSTANTS MaxLen,      \* bound on the input length explored
          MaxDepth,    \* bound on open containers (example and rule containers together)
          StayAlive    \* TRUE (simulation): only steps that keep the text viable; FALSE: every class in every state

Classes == {"sp","tab","nl","lbrace","rbrace","lbrack","rbrack","colon","comma","quote","bslash","slash",
            "minus","plus","dot","zero","d19","e","E","t","r","u","f","a","l","s","n","b","hex",
            "ctl","other","hi","at","pipe","hash","star"}
HexC   == {"zero","d19","e","E","f","a","b","hex"}
Digit  == {"zero","d19"}
Ws     == {"sp","tab"}
Letter == {"e","E","t","r","u","f","a","l","s","n","b","hex","other"}     \* "other" stands for the remaining letters
NameC  == Letter \cup Digit \cup {"minus"}
\* in free text (comments, notes, string bodies) only the classes that can matter are explored
TextC  == {"other","sp","nl","star","slash","hash","quote","bslash","minus","lbrace"}

VARIABLES ctl,     \* control state
          stk,     \* open containers: "o","a" (example), "ro","ra" (rule object / rule array)
          ann,     \* "none" | "inline" | "multi": inside which kind of annotation
          ret,     \* control state to return to after a comment
          status,  \* "run" | "err"
          input    \* history: the classes fed so far
vars == <<ctl, stk, ann, ret, status, input>>

Init == ctl = "start" /\ stk = <<>> /\ ann = "none" /\ ret = "none" /\ status = "run" /\ input = <<>>

Top == IF stk = <<>> THEN "none" ELSE stk[Len(stk)]
Pop == SubSeq(stk, 1, Len(stk) - 1)
InRule == Top \in {"ro", "ra"}
AfterVal == IF stk = <<>> THEN "top" ELSE IF Top \in {"o", "a"} THEN "afterval" ELSE "rafterval"

S(c) == [ctl |-> c, stk |-> stk, ann |-> ann, ret |-> ret]
Dead == [ctl |-> "dead", stk |-> stk, ann |-> ann, ret |-> ret]
Push(c, k) == IF Len(stk) < MaxDepth THEN [ctl |-> c, stk |-> Append(stk, k), ann |-> ann, ret |-> ret] ELSE Dead
PopTo(c) == [ctl |-> c, stk |-> Pop, ann |-> ann, ret |-> ret]

\* states in which free text is consumed
FreeText == {"cline", "cblock", "cblock1", "cblock2", "ainote", "amnote", "amnote1", "str", "kstr", "rstr", "rkstr"}

\* ---- a value begins (example value or rule value)
BeginVal(c) ==
  CASE c = "lbrace" -> IF InRule \/ ann # "none" THEN Push("rkeyorend", "ro") ELSE Push("keyorend", "o")
    [] c = "lbrack" -> IF InRule \/ ann # "none" THEN Push("rvalorend", "ra") ELSE Push("valorend", "a")
    [] c = "quote"  -> S(IF InRule THEN "rstr" ELSE "str")
    [] c = "minus"  -> S("neg")
    [] c = "zero"   -> S("zero")
    [] c = "d19"    -> S("int")
    [] c = "t"      -> S("t1")
    [] c = "f"      -> S("f1")
    [] c = "n"      -> S("n1")
    [] c = "at"     -> S("scat")
    [] OTHER -> Dead

\* after a complete example value: separators, closers, annotations, comments
AfterExample(c) ==
  IF c \in Ws \/ c = "nl" THEN S(AfterVal)
  ELSE IF c = "slash" THEN S("a1")
  ELSE IF c = "hash" THEN [ctl |-> "c1", stk |-> stk, ann |-> ann, ret |-> AfterVal]
  ELSE IF Top = "o" /\ c = "comma" THEN S("key")
  ELSE IF Top = "o" /\ c = "rbrace" THEN PopTo(IF Pop = <<>> THEN "top" ELSE "afterval")
  ELSE IF Top = "a" /\ c = "comma" THEN S("val")
  ELSE IF Top = "a" /\ c = "rbrack" THEN PopTo(IF Pop = <<>> THEN "top" ELSE "afterval")
  ELSE Dead

TopOfPop == IF Len(stk) < 2 THEN "none" ELSE stk[Len(stk) - 1]
\* after a complete rule value inside an annotation
RuleClosed == IF ann = "inline" THEN "aiafter" ELSE "amafter"
AfterRule(c) ==
  IF c \in Ws THEN S("rafterval")
  ELSE IF c = "nl" THEN (IF ann = "multi" THEN S("rafterval") ELSE Dead)
  ELSE IF Top = "ro" /\ c = "comma" THEN S("rkey")
  ELSE IF Top = "ro" /\ c = "rbrace" THEN PopTo(IF TopOfPop \in {"ro", "ra"} THEN "rafterval" ELSE RuleClosed)
  ELSE IF Top = "ra" /\ c = "comma" THEN S("rval")
  ELSE IF Top = "ra" /\ c = "rbrack" THEN PopTo("rafterval")
  ELSE Dead

EndVal(c) == IF InRule THEN AfterRule(c) ELSE AfterExample(c)

Lit == [t1 |-> <<"r","t2">>, t2 |-> <<"u","t3">>, t3 |-> <<"e","">>,
        f1 |-> <<"a","f2">>, f2 |-> <<"l","f3">>, f3 |-> <<"s","f4">>, f4 |-> <<"e","">>,
        n1 |-> <<"u","n2">>, n2 |-> <<"l","n3">>, n3 |-> <<"l","">>]
EscC == {"b","f","n","r","t","bslash","slash","quote"}
StrBase(s) == IF s \in {"stre", "stru1", "stru2", "stru3", "stru4"} THEN "str"
              ELSE IF s \in {"kstre", "kstru1", "kstru2", "kstru3", "kstru4"} THEN "kstr"
              ELSE IF s \in {"rstre", "rstru1", "rstru2", "rstru3", "rstru4"} THEN "rstr" ELSE "rkstr"
StrEnd(base) == IF base = "str" THEN AfterVal ELSE IF base = "kstr" THEN "afterkey"
                ELSE IF base = "rstr" THEN "rafterval" ELSE "rafterkey"

Delta(c) ==
  LET ws == c \in Ws \/ c = "nl" IN
  CASE ctl \in {"start", "val"} ->
         IF ws THEN S(ctl) ELSE IF c = "hash" THEN [ctl |-> "c1", stk |-> stk, ann |-> ann, ret |-> ctl]
         ELSE IF c = "slash" /\ ctl = "val" THEN S("a1") ELSE BeginVal(c)
    [] ctl = "valorend" ->
         IF ws THEN S(ctl) ELSE IF c = "rbrack" THEN PopTo(IF Pop = <<>> THEN "top" ELSE "afterval")
         ELSE IF c = "slash" THEN S("a1")
         ELSE IF c = "hash" THEN [ctl |-> "c1", stk |-> stk, ann |-> ann, ret |-> "valorend"] ELSE BeginVal(c)
    [] ctl \in {"keyorend", "key"} ->
         IF ws THEN S(ctl)
         ELSE IF c = "rbrace" /\ ctl = "keyorend" THEN PopTo(IF Pop = <<>> THEN "top" ELSE "afterval")
         ELSE IF c = "quote" THEN S("kstr")
         ELSE IF c = "at" THEN S("kscat")
         ELSE IF c = "slash" THEN S("a1")
         ELSE IF c = "hash" THEN [ctl |-> "c1", stk |-> stk, ann |-> ann, ret |-> ctl]
         ELSE Dead
    \* strings (example, key, rule value, rule key)
    [] ctl \in {"str", "kstr", "rstr", "rkstr"} ->
         IF c = "quote" THEN S(StrEnd(ctl)) ELSE IF c = "bslash" THEN S(ctl \o "e")
         ELSE IF c \in {"ctl", "nl", "tab"} THEN Dead ELSE S(ctl)
    [] ctl \in {"stre", "kstre", "rstre", "rkstre"} ->
         IF c \in EscC THEN S(StrBase(ctl)) ELSE IF c = "u" THEN S(StrBase(ctl) \o "u1") ELSE Dead
    [] ctl \in {"stru1", "kstru1", "rstru1", "rkstru1"} -> IF c \in HexC THEN S(StrBase(ctl) \o "u2") ELSE Dead
    [] ctl \in {"stru2", "kstru2", "rstru2", "rkstru2"} -> IF c \in HexC THEN S(StrBase(ctl) \o "u3") ELSE Dead
    [] ctl \in {"stru3", "kstru3", "rstru3", "rkstru3"} -> IF c \in HexC THEN S(StrBase(ctl) \o "u4") ELSE Dead
    [] ctl \in {"stru4", "kstru4", "rstru4", "rkstru4"} -> IF c \in HexC THEN S(StrBase(ctl)) ELSE Dead
    [] ctl = "afterkey" -> IF ws THEN S(ctl) ELSE IF c = "colon" THEN S("val") ELSE Dead
    [] ctl = "top" -> IF ws THEN S(ctl) ELSE IF c = "slash" THEN S("a1")
                      ELSE IF c = "hash" THEN [ctl |-> "c1", stk |-> stk, ann |-> ann, ret |-> "top"] ELSE Dead
    [] ctl = "afterval"  -> AfterExample(c)
    [] ctl = "rafterval" -> AfterRule(c)
    \* numbers: no exponent in a schema (a defined diagnostic, not a state)
    [] ctl = "neg"  -> IF c = "zero" THEN S("zero") ELSE IF c = "d19" THEN S("int") ELSE Dead
    [] ctl = "int" /\ c \in Digit -> S("int")
    [] ctl \in {"zero", "int"} -> IF c = "dot" THEN S("dot") ELSE IF c \in {"e", "E"} THEN Dead ELSE EndVal(c)
    [] ctl = "dot"  -> IF c \in Digit THEN S("frac") ELSE Dead
    [] ctl = "frac" -> IF c \in Digit THEN S("frac") ELSE IF c \in {"e", "E"} THEN Dead ELSE EndVal(c)
    [] ctl \in DOMAIN Lit -> IF c = Lit[ctl][1] THEN (IF Lit[ctl][2] = "" THEN S(AfterVal) ELSE S(Lit[ctl][2])) ELSE Dead
    \* @name references, @a | @b choices
    [] ctl = "scat"   -> IF c \in Letter THEN S("scname") ELSE Dead
    [] ctl = "scname" -> IF c \in NameC THEN S("scname")
                         ELSE IF c \in Ws /\ ~InRule THEN S("scsp")
                         ELSE IF c = "pipe" /\ ~InRule THEN S("scpipe") ELSE EndVal(c)
    [] ctl = "scsp"   -> IF c \in Ws THEN S("scsp") ELSE IF c = "pipe" THEN S("scpipe") ELSE AfterExample(c)
    [] ctl = "scpipe" -> IF c \in Ws THEN S("scpipe") ELSE IF c = "at" THEN S("scat") ELSE Dead
    \* @name as an object key
    [] ctl = "kscat"   -> IF c \in Letter THEN S("kscname") ELSE Dead
    [] ctl = "kscname" -> IF c \in NameC THEN S("kscname") ELSE IF c \in Ws THEN S("afterkey")
                          ELSE IF c = "colon" THEN S("val") ELSE Dead
    \* user comments: "# ..." to the end of the line, "### ... ###" blocks (two look-aheads in the implementation)
    [] ctl = "c1"      -> IF c = "hash" THEN S("c2") ELSE IF c = "nl" THEN S(ret) ELSE S("cline")
    [] ctl = "c2"      -> IF c = "hash" THEN S("cblock") ELSE Dead
    [] ctl = "cline"   -> IF c = "nl" THEN S(ret) ELSE S("cline")
    [] ctl = "cblock"  -> IF c = "hash" THEN S("cblock1") ELSE S("cblock")
    [] ctl = "cblock1" -> IF c = "hash" THEN S("cblock2") ELSE S("cblock")
    [] ctl = "cblock2" -> IF c = "hash" THEN S(ret) ELSE S("cblock")
    \* annotations
    [] ctl = "a1" -> IF c = "slash" THEN [ctl |-> "ai0", stk |-> stk, ann |-> "inline", ret |-> ret]
                     ELSE IF c = "star" THEN [ctl |-> "am0", stk |-> stk, ann |-> "multi", ret |-> ret] ELSE Dead
    [] ctl = "ai0" -> IF c \in Ws THEN S("ai0") ELSE IF c = "lbrace" THEN Push("rkeyorend", "ro")
                      ELSE IF c = "nl" THEN [ctl |-> AfterVal, stk |-> stk, ann |-> "none", ret |-> ret] ELSE S("ainote")
    [] ctl = "aiafter" -> IF c \in Ws THEN S("aiafter") ELSE IF c = "minus" THEN S("ainote")
                          ELSE IF c = "nl" THEN [ctl |-> AfterVal, stk |-> stk, ann |-> "none", ret |-> ret] ELSE Dead
    [] ctl = "ainote"  -> IF c = "nl" THEN [ctl |-> AfterVal, stk |-> stk, ann |-> "none", ret |-> ret] ELSE S("ainote")
    [] ctl = "am0" -> IF c \in Ws \/ c = "nl" THEN S("am0") ELSE IF c = "lbrace" THEN Push("rkeyorend", "ro")
                      ELSE IF c = "star" THEN S("amnote1") ELSE S("amnote")
    [] ctl = "amafter" -> IF c \in Ws \/ c = "nl" THEN S("amafter") ELSE IF c = "minus" THEN S("amnote")
                          ELSE IF c = "star" THEN S("amnote1") ELSE Dead
    [] ctl = "amnote"  -> IF c = "star" THEN S("amnote1") ELSE S("amnote")
    [] ctl = "amnote1" -> IF c = "slash" THEN [ctl |-> AfterVal, stk |-> stk, ann |-> "none", ret |-> ret]
                          ELSE IF c = "star" THEN S("amnote1") ELSE S("amnote")
    \* rule objects: bare or quoted keys
    [] ctl \in {"rkeyorend", "rkey"} ->
         IF c \in Ws \/ (c = "nl" /\ ann = "multi") THEN S(ctl)
         ELSE IF c = "rbrace" /\ ctl = "rkeyorend" THEN PopTo(IF TopOfPop \in {"ro", "ra"} THEN "rafterval" ELSE RuleClosed)
         ELSE IF c = "quote" THEN S("rkstr")
         ELSE IF c \in Letter THEN S("rbare") ELSE Dead
    [] ctl = "rbare" -> IF c \in Letter \cup Digit THEN S("rbare") ELSE IF c \in Ws THEN S("rafterkey")
                        ELSE IF c = "colon" THEN S("rval") ELSE Dead
    [] ctl = "rafterkey" -> IF c \in Ws THEN S(ctl) ELSE IF c = "colon" THEN S("rval") ELSE Dead
    [] ctl = "rval" -> IF c \in Ws \/ (c = "nl" /\ ann = "multi") THEN S("rval") ELSE BeginVal(c)
    [] ctl = "rvalorend" -> IF c \in Ws \/ (c = "nl" /\ ann = "multi") THEN S(ctl)
                            ELSE IF c = "rbrack" THEN PopTo("rafterval") ELSE BeginVal(c)
    [] OTHER -> Dead

Feed(c) ==
  /\ status = "run" /\ Len(input) < MaxLen
  /\ (ctl \in FreeText => c \in TextC)
  /\ LET r == Delta(c) IN
     /\ (StayAlive => r.ctl # "dead")
     /\ ctl' = r.ctl /\ stk' = r.stk /\ ann' = r.ann /\ ret' = r.ret
     /\ status' = IF r.ctl = "dead" THEN "err" ELSE "run"
  /\ input' = Append(input, c)

Next == \E c \in Classes : Feed(c)
Spec == Init /\ [][Next]_vars

\* ---- structural invariants of the generator
TypeOK == /\ Len(stk) <= MaxDepth /\ Len(input) <= MaxLen
          /\ ann \in {"none", "inline", "multi"}
\* rule containers only exist inside an annotation and sit above the example containers
RuleContainersInsideAnnotation ==
  /\ (\E i \in 1..Len(stk) : stk[i] \in {"ro", "ra"}) => ann # "none"
  /\ \A i, j \in 1..Len(stk) : (i < j /\ stk[i] \in {"ro", "ra"}) => stk[j] \in {"ro", "ra"}
\* every state the implementation reads ahead from has an explicit end-of-input here: it is a state like any other
LookAheadStates == {"c1", "c2", "cblock", "cblock1", "cblock2", "amnote", "amnote1", "scsp", "scpipe"}

Emit == PrintT(ToJson([input |-> input, ctl |-> ctl, status |-> status]))
===============================================================================
