SPECIFICATION Spec
CONSTANTS
  MaxLen = 80
  MaxDepth = 4
  StayAlive = TRUE
INVARIANTS TypeOK RuleContainersInsideAnnotation Emit
CHECK_DEADLOCK FALSE
