----------------------------- MODULE EnumRuleLong -----------------------------
(* Enum rule files, long lists (property C17).  EnumRule explores the token    *)
(* automaton for lists of up to MaxItems items; this module states what the     *)
(* same specification says about lists far beyond that bound.                   *)
EXTENDS EnumRule

(* ---- long lists (the token automaton above is explored for <= MaxItems items).  A list of n distinct scalars,     *)
(* optionally with one more entry at position j that repeats the entry at position i < j: accepted iff there is no  *)
(* repeat, wherever the two occurrences stand and however long the list is.  Sizes stand around the lengths at      *)
(* which small arrays, slices and maps of an implementation change their representation.  Ordinals are spelled as  *)
(* integers, as strings, or alternately as an integer and the string that spells the previous integer.             *)
LongSizes == {2, 7, 8, 9, 10, 11, 15, 16, 17, 31, 32, 33, 63, 64, 65, 100}
LongModes == {"int", "str", "mixed"}
LongEntry(mode, k) ==
  IF mode = "int" \/ (mode = "mixed" /\ k % 2 = 1)
  THEN [text |-> ToString(k), kind |-> "integer", str |-> "", exp |-> FALSE]
  ELSE LET t == IF mode = "mixed" THEN ToString(k - 1) ELSE "s" \o ToString(k)
       IN [text |-> "\"" \o t \o "\"", kind |-> "string", str |-> t, exp |-> FALSE]
\* j = 0: no repeat
LongOrdinals(n, i, j) == IF j = 0 THEN [k \in 1..n |-> k]
                         ELSE [k \in 1..(n + 1) |-> IF k = j THEN i ELSE IF k < j THEN k ELSE k - 1]
SameEntry(a, b) == a.text = b.text \/ (a.kind = "string" /\ b.kind = "string" /\ a.str = b.str)
HasRepeat(es) == \E a, b \in 1..Len(es) : a < b /\ SameEntry(es[a], es[b])
\* positions explored for size n: every pair for the sizes up to 17, around the edges beyond
LongPairs(n) == IF n <= 17 THEN {<<i, j>> \in (1..n) \X (2..(n + 1)) : i < j}
                ELSE {<<i, j>> \in {1, 2, 7, 8, 9, 10, 16, 17, 32, 33, n - 1, n} \X {2, 3, 9, 10, 11, 17, 18, 33, 34, 65, n, n + 1} : i < j /\ i <= n /\ j <= n + 1}

VARIABLES long   \* the long-list case chosen (mode "none" before)
NoLong == [mode |-> "none", n |-> 0, i |-> 0, j |-> 0, entries |-> <<>>]
LongInit == Init /\ long = NoLong
LongPick(mode, n, i, j) ==
  /\ long.mode = "none"
  /\ UNCHANGED vars
  /\ long' = [mode |-> mode, n |-> n, i |-> i, j |-> j,
              entries |-> LET o == LongOrdinals(n, i, j) IN [k \in 1..Len(o) |-> LongEntry(mode, o[k])]]
LongNext == \E mode \in LongModes, n \in LongSizes :
              \/ LongPick(mode, n, 0, 0)
              \/ \E p \in LongPairs(n) : LongPick(mode, n, p[1], p[2])
LongSpec == LongInit /\ [][LongNext]_<<vars, long>>
\* the construction is what it says: a list has a repeated scalar exactly when a repeat was placed
LongRepeatIffPlaced == long.mode # "none" => (HasRepeat(long.entries) <=> long.j # 0)
EmitLong == long.mode # "none" => PrintT(ToJson([long |-> [mode |-> long.mode, n |-> long.n, i |-> long.i, j |-> long.j],
                                            entries |-> long.entries,
                                            expect |-> IF HasRepeat(long.entries) THEN "reject" ELSE "accept"]))
===============================================================================
