SPECIFICATION Spec
CONSTANTS
  MaxLen = 4
  MaxDepth = 2
  StayAlive = FALSE
INVARIANTS TypeOK RuleContainersInsideAnnotation Emit
CHECK_DEADLOCK FALSE
