---------------------------- MODULE JsonGrammarCheck ----------------------------
(* RFC 8259 written a second time, independently of the automaton in JsonDoc,  *)
(* as a recursive-descent *relation* over class strings; TLC checks that the    *)
(* automaton accepts a string iff the grammar derives it (AcceptIffGrammar),   *)
(* for every class string up to MaxLen.                                         *)
EXTENDS Integers, Sequences, FiniteSets, TLC
CONSTANTS MaxDepth, MaxLen
VARIABLES ctl, stk, status, out, acc, eofev, input
A == INSTANCE JsonDoc WITH AllowTrailing <- FALSE
\* ---------- RFC 8259 as a recursive-descent *relation*: Ends_X(w, i) = set of j such that w[i..j-1] derives X
Digit(c) == c \in {"zero","d19"}
HexC == {"zero","d19","e","E","f","a","b","hex"}
WsEnds(w, i) == {j \in i..(Len(w)+1) : \A k \in i..(j-1) : w[k] \in {"sp","tab","nl"}}
DigitsEnds(w, i) == {j \in (i+1)..(Len(w)+1) : \A k \in i..(j-1) : Digit(w[k])}      \* 1 or more digits
IntEnds(w, i) == IF i > Len(w) THEN {} ELSE IF w[i] = "zero" THEN {i+1}
                 ELSE IF w[i] = "d19" THEN {j \in (i+1)..(Len(w)+1) : \A k \in (i+1)..(j-1) : Digit(w[k])} ELSE {}
NumEnds(w, i) ==
  LET s == IF i <= Len(w) /\ w[i] = "minus" THEN i+1 ELSE i
      a == IntEnds(w, s)
      b == a \cup UNION {IF j <= Len(w) /\ w[j] = "dot" THEN DigitsEnds(w, j+1) ELSE {} : j \in a}
      ExpFrom(j) == IF j <= Len(w) /\ w[j] \in {"e","E"}
                    THEN LET t == IF j+1 <= Len(w) /\ w[j+1] \in {"plus","minus"} THEN j+2 ELSE j+1 IN DigitsEnds(w, t)
                    ELSE {}
  IN b \cup UNION {ExpFrom(j) : j \in b}
Word(w, i, cs) == IF i + Len(cs) - 1 <= Len(w) /\ \A k \in 1..Len(cs) : w[i+k-1] = cs[k] THEN {i + Len(cs)} ELSE {}
\* string body: chars and escapes
RECURSIVE CharsEnds(_, _)
CharsEnds(w, i) == {i} \cup
   (IF i > Len(w) THEN {}
    ELSE IF w[i] = "bslash"
         THEN (IF i+1 <= Len(w) /\ w[i+1] \in {"b","f","n","r","t","bslash","slash","quote"} THEN CharsEnds(w, i+2)
               ELSE IF i+5 <= Len(w) /\ w[i+1] = "u" /\ \A k \in 2..5 : w[i+k] \in HexC THEN CharsEnds(w, i+6) ELSE {})
         ELSE IF w[i] \in {"quote","ctl","nl","tab"} THEN {} ELSE CharsEnds(w, i+1))
StrEnds(w, i) == IF i <= Len(w) /\ w[i] = "quote"
                 THEN {j+1 : j \in {k \in CharsEnds(w, i+1) : k <= Len(w) /\ w[k] = "quote"}} ELSE {}
RECURSIVE ValEnds(_, _, _), MembersEnds(_, _, _), ElemsEnds(_, _, _)
\* value with surrounding ws (RFC "element"); d = remaining nesting budget
ElemEnds(w, i, d) == UNION {UNION {WsEnds(w, k) : k \in ValEnds(w, j, d)} : j \in WsEnds(w, i)}
ValEnds(w, i, d) ==
  NumEnds(w, i) \cup StrEnds(w, i) \cup Word(w, i, <<"t","r","u","e">>) \cup Word(w, i, <<"f","a","l","s","e">>)
  \cup Word(w, i, <<"n","u","l","l">>)
  \cup (IF d > 0 /\ i <= Len(w) /\ w[i] = "lbrack"
        THEN {j+1 : j \in {k \in (WsEnds(w, i+1) \cup ElemsEnds(w, i+1, d-1)) : k <= Len(w) /\ w[k] = "rbrack"}} ELSE {})
  \cup (IF d > 0 /\ i <= Len(w) /\ w[i] = "lbrace"
        THEN {j+1 : j \in {k \in (WsEnds(w, i+1) \cup MembersEnds(w, i+1, d-1)) : k <= Len(w) /\ w[k] = "rbrace"}} ELSE {})
ElemsEnds(w, i, d) == LET first == UNION {UNION {WsEnds(w, k) : k \in ValEnds(w, j, d)} : j \in WsEnds(w, i)} IN
  first \cup UNION {IF j <= Len(w) /\ w[j] = "comma" THEN ElemsEnds(w, j+1, d) ELSE {} : j \in first}
MemberEnds(w, i, d) ==
  UNION {UNION {UNION {IF c <= Len(w) /\ w[c] = "colon"
                       THEN UNION {UNION {WsEnds(w, k) : k \in ValEnds(w, j, d)} : j \in WsEnds(w, c+1)} ELSE {}
                       : c \in WsEnds(w, s)} : s \in StrEnds(w, a)} : a \in WsEnds(w, i)}
MembersEnds(w, i, d) == LET first == MemberEnds(w, i, d) IN
  first \cup UNION {IF j <= Len(w) /\ w[j] = "comma" THEN MembersEnds(w, j+1, d) ELSE {} : j \in first}
InLang(w) == (Len(w) + 1) \in UNION {UNION {WsEnds(w, k) : k \in ValEnds(w, j, MaxDepth)} : j \in WsEnds(w, 1)}
\* ---------- the automaton with a history variable
Init == A!Init /\ input = <<>>
Next == \E c \in A!Classes : A!Feed(c) /\ Len(input) < MaxLen /\ input' = Append(input, c)
Spec == Init /\ [][Next]_<<ctl, stk, status, out, acc, eofev, input>>
AcceptIffGrammar == (status # "deep") => (acc <=> InLang(input))
\* the events of an accepted text are balanced: as many begins as ends (with the end-of-input events)
View == <<ctl, stk, status, acc, input>>
===============================================================================
