-------------------------------- MODULE JsonDoc --------------------------------
(* Reference automaton for RFC 8259 JSON documents at byte-class level, with   *)
(* the lexeme events a conforming scanner reports.  Written from RFC 8259 and  *)
(* from the statement of property C12, not from formats/json/scanner.go.       *)
(*                                                                             *)
(* One action per input byte (Feed); end of input is a state predicate         *)
(* (acc, eofev), because the implementation is given the whole text and every  *)
(* prefix of a test is itself a test.                                          *)
(*                                                                             *)
(* Events: each step emits a sequence of records [t |-> type, e |-> "cur" |    *)
(* "prev"].  A "...-begin" event spans exactly the current byte.  An "...-end" *)
(* event spans from the begin of the matching open event (events nest, so the  *)
(* reader pairs them with a stack) to the current byte ("cur") or the byte     *)
(* before it ("prev": a number is only known to be over at its delimiter).     *)
EXTENDS Integers, Sequences, TLC

CONSTANTS MaxDepth,        \* nesting bound of the explored automaton
          AllowTrailing    \* the trailing-characters option

Classes == {"sp","tab","nl","lbrace","rbrace","lbrack","rbrack","colon","comma","quote","bslash","slash",
            "minus","plus","dot","zero","d19","e","E","t","r","u","f","a","l","s","n","b","hex",
            "ctl","other","hi"}
HexC  == {"zero","d19","e","E","f","a","b","hex"}
Digit == {"zero","d19"}
Ws    == {"sp","tab","nl"}

VARIABLES ctl,     \* control state
          stk,     \* open containers, "o" / "a"
          status,  \* "run" | "err" | "trail" (accepted, rest ignored) | "ambig" | "deep"
          out,     \* events emitted by the last step
          acc,     \* would end-of-input be accepted here?
          eofev    \* events end-of-input adds when acc
vars == <<ctl, stk, status, out, acc, eofev>>

Top == IF stk = <<>> THEN "none" ELSE stk[Len(stk)]
Pop(s) == SubSeq(s, 1, Len(s) - 1)
TopOf(s) == IF s = <<>> THEN "none" ELSE s[Len(s)]

Ev(t, e) == [t |-> t, e |-> e]
\* a value just completed inside container context s: close its wrapper
Wrap(s, e) == IF s = <<>> THEN <<>>
              ELSE IF TopOf(s) = "o" THEN <<Ev("value-end", e)>> ELSE <<Ev("item-end", e)>>
\* a value begins inside container context s: open its wrapper
Open(s) == IF s = <<>> THEN <<>>
           ELSE IF TopOf(s) = "o" THEN <<Ev("value-begin", "cur")>> ELSE <<Ev("item-begin", "cur")>>

AfterVal(s) == IF s = <<>> THEN "top" ELSE "afterval"
R(c, s, ev) == [ctl |-> c, stk |-> s, ev |-> ev]
Dead == R("dead", <<>>, <<>>)
Deep == R("deep", <<>>, <<>>)

NumDone == {"zero","int","frac","expd"}        \* number states in which the number is complete
NumOpen == {"neg","dot","exp","esign"}         \* number states that still need a byte

\* ---- a value begins with byte class c (context = stk)
BeginVal(c) ==
  CASE c = "lbrace" -> IF Len(stk) < MaxDepth THEN R("keyorend", Append(stk, "o"), Open(stk) \o <<Ev("object-begin","cur")>>) ELSE Deep
    [] c = "lbrack" -> IF Len(stk) < MaxDepth THEN R("valorend", Append(stk, "a"), Open(stk) \o <<Ev("array-begin","cur")>>) ELSE Deep
    [] c = "quote"  -> R("str",  stk, Open(stk) \o <<Ev("literal-begin","cur")>>)
    [] c = "minus"  -> R("neg",  stk, Open(stk) \o <<Ev("literal-begin","cur")>>)
    [] c = "zero"   -> R("zero", stk, Open(stk) \o <<Ev("literal-begin","cur")>>)
    [] c = "d19"    -> R("int",  stk, Open(stk) \o <<Ev("literal-begin","cur")>>)
    [] c = "t"      -> R("t1",   stk, Open(stk) \o <<Ev("literal-begin","cur")>>)
    [] c = "f"      -> R("f1",   stk, Open(stk) \o <<Ev("literal-begin","cur")>>)
    [] c = "n"      -> R("n1",   stk, Open(stk) \o <<Ev("literal-begin","cur")>>)
    [] OTHER -> Dead

\* ---- byte c arrives after a complete value in context stk; pre = events already due
\*      (e.g. the end of a number that c terminates)
EndVal(c, pre) ==
  IF c \in Ws THEN R(AfterVal(stk), stk, pre)
  ELSE IF Top = "o" /\ c = "comma"  THEN R("key", stk, pre)
  ELSE IF Top = "o" /\ c = "rbrace" THEN R(AfterVal(Pop(stk)), Pop(stk), pre \o <<Ev("object-end","cur")>> \o Wrap(Pop(stk), "cur"))
  ELSE IF Top = "a" /\ c = "comma"  THEN R("val", stk, pre)
  ELSE IF Top = "a" /\ c = "rbrack" THEN R(AfterVal(Pop(stk)), Pop(stk), pre \o <<Ev("array-end","cur")>> \o Wrap(Pop(stk), "cur"))
  ELSE Dead

NumEnd == <<Ev("literal-end","prev")>> \o Wrap(stk, "prev")   \* a number ended at the previous byte
LitEnd == <<Ev("literal-end","cur")>>  \o Wrap(stk, "cur")    \* a string / word ends at this byte

Lit == [t1 |-> <<"r","t2">>, t2 |-> <<"u","t3">>, t3 |-> <<"e","">>,
        f1 |-> <<"a","f2">>, f2 |-> <<"l","f3">>, f3 |-> <<"s","f4">>, f4 |-> <<"e","">>,
        n1 |-> <<"u","n2">>, n2 |-> <<"l","n3">>, n3 |-> <<"l","">>]
UNext == [stru1 |-> "stru2", stru2 |-> "stru3", stru3 |-> "stru4", stru4 |-> "str",
          kstru1 |-> "kstru2", kstru2 |-> "kstru3", kstru3 |-> "kstru4", kstru4 |-> "kstr"]
EscC == {"b","f","n","r","t","bslash","slash","quote"}

Delta(c) ==
  LET ws == c \in Ws IN
  CASE ctl \in {"start","val"} -> IF ws THEN R(ctl, stk, <<>>) ELSE BeginVal(c)
    [] ctl = "valorend" -> IF ws THEN R(ctl, stk, <<>>)
                           ELSE IF c = "rbrack" THEN R(AfterVal(Pop(stk)), Pop(stk), <<Ev("array-end","cur")>> \o Wrap(Pop(stk), "cur"))
                           ELSE BeginVal(c)
    [] ctl \in {"keyorend","key"} ->
         IF ws THEN R(ctl, stk, <<>>)
         ELSE IF c = "rbrace" /\ ctl = "keyorend" THEN R(AfterVal(Pop(stk)), Pop(stk), <<Ev("object-end","cur")>> \o Wrap(Pop(stk), "cur"))
         ELSE IF c = "quote" THEN R("kstr", stk, <<Ev("key-begin","cur")>>)
         ELSE Dead
    [] ctl = "str"  -> IF c = "quote" THEN R(AfterVal(stk), stk, LitEnd)
                       ELSE IF c = "bslash" THEN R("stre", stk, <<>>)
                       ELSE IF c \in {"ctl","nl","tab"} THEN Dead  \* raw control characters incl. LF, CR, TAB
                       ELSE R(ctl, stk, <<>>)
    [] ctl = "kstr" -> IF c = "quote" THEN R("afterkey", stk, <<Ev("key-end","cur")>>)
                       ELSE IF c = "bslash" THEN R("kstre", stk, <<>>)
                       ELSE IF c \in {"ctl","nl","tab"} THEN Dead
                       ELSE R(ctl, stk, <<>>)
    [] ctl \in {"stre","kstre"} ->
         LET base == IF ctl = "stre" THEN "str" ELSE "kstr" IN
         IF c \in EscC THEN R(base, stk, <<>>)
         ELSE IF c = "u" THEN R(IF ctl = "stre" THEN "stru1" ELSE "kstru1", stk, <<>>)
         ELSE Dead
    [] ctl \in DOMAIN UNext -> IF c \in HexC THEN R(UNext[ctl], stk, <<>>) ELSE Dead
    [] ctl = "afterkey" -> IF ws THEN R(ctl, stk, <<>>) ELSE IF c = "colon" THEN R("val", stk, <<>>) ELSE Dead
    [] ctl = "top"      -> IF ws THEN R(ctl, stk, <<>>) ELSE Dead
    [] ctl = "afterval" -> EndVal(c, <<>>)
    [] ctl = "neg"  -> IF c = "zero" THEN R("zero", stk, <<>>) ELSE IF c = "d19" THEN R("int", stk, <<>>) ELSE Dead
    [] ctl = "int" /\ c \in Digit -> R("int", stk, <<>>)
    [] ctl \in {"zero","int"} -> IF c = "dot" THEN R("dot", stk, <<>>)
                                 ELSE IF c \in {"e","E"} THEN R("exp", stk, <<>>)
                                 ELSE EndVal(c, NumEnd)
    [] ctl = "dot"  -> IF c \in Digit THEN R("frac", stk, <<>>) ELSE Dead
    [] ctl = "frac" -> IF c \in Digit THEN R("frac", stk, <<>>)
                       ELSE IF c \in {"e","E"} THEN R("exp", stk, <<>>)
                       ELSE EndVal(c, NumEnd)
    [] ctl = "exp"   -> IF c \in {"plus","minus"} THEN R("esign", stk, <<>>) ELSE IF c \in Digit THEN R("expd", stk, <<>>) ELSE Dead
    [] ctl = "esign" -> IF c \in Digit THEN R("expd", stk, <<>>) ELSE Dead
    [] ctl = "expd"  -> IF c \in Digit THEN R("expd", stk, <<>>) ELSE EndVal(c, NumEnd)
    [] ctl \in DOMAIN Lit -> IF c = Lit[ctl][1]
                             THEN (IF Lit[ctl][2] = "" THEN R(AfterVal(stk), stk, LitEnd) ELSE R(Lit[ctl][2], stk, <<>>))
                             ELSE Dead
    [] OTHER -> Dead

\* Is the top-level value complete in (ctl, stk)?  (then only blanks may follow)
TopComplete(cc, ss) == ss = <<>> /\ cc \in ({"top"} \cup NumDone)
\* Would the automaton die *inside the extension of a complete number* at top level?
\* ("1.x", "1ex", "1e+x": a non-greedy reader would stop after "1").
Ambiguous(cc, ss) == ss = <<>> /\ cc \in {"dot","exp","esign"}

AccOf(cc, ss, st) == \/ st = "trail"
                     \/ st = "run" /\ TopComplete(cc, ss)
EofEvOf(cc, ss, st) == IF st = "run" /\ ss = <<>> /\ cc \in NumDone THEN <<Ev("literal-end","prev")>> ELSE <<>>

Init == /\ ctl = "start" /\ stk = <<>> /\ status = "run" /\ out = <<>>
        /\ acc = FALSE /\ eofev = <<>>

Feed(c) ==
  /\ status = "run"
  /\ LET r == Delta(c)
         \* with the trailing option a dead byte after a complete top-level value ends the value
         trail == r.ctl = "dead" /\ AllowTrailing /\ TopComplete(ctl, stk)
         ambig == r.ctl = "dead" /\ AllowTrailing /\ Ambiguous(ctl, stk)
         st == IF trail THEN "trail" ELSE IF ambig THEN "ambig"
               ELSE IF r.ctl = "dead" THEN "err" ELSE IF r.ctl = "deep" THEN "deep" ELSE "run"
         ev == IF trail THEN (IF ctl \in NumDone THEN <<Ev("literal-end","prev")>> ELSE <<>>) \o <<Ev("end-top","cur")>>
               ELSE r.ev
         nc == IF trail THEN "trail" ELSE r.ctl
         ns == IF trail THEN <<>> ELSE r.stk
     IN /\ ctl' = nc /\ stk' = ns /\ status' = st /\ out' = ev
        /\ acc' = AccOf(nc, ns, st)
        /\ eofev' = EofEvOf(nc, ns, st)

Next == \E c \in Classes : Feed(c)
Spec == Init /\ [][Next]_vars

-------------------------------------------------------------------------------
TypeOK == /\ status \in {"run","err","trail","ambig","deep"}
          /\ Len(stk) <= MaxDepth
          /\ \A i \in 1..Len(stk) : stk[i] \in {"o","a"}
          /\ \A i \in 1..Len(out) : out[i].e \in {"cur","prev"}

\* Every step closes at most what is open: ends emitted in one step never exceed the depth before it + begins in the step.
Begins(s) == Len(SelectSeq(s, LAMBDA x : x.t \in {"object-begin","array-begin","literal-begin","key-begin","value-begin","item-begin"}))
Ends(s)   == Len(SelectSeq(s, LAMBDA x : x.t \in {"object-end","array-end","literal-end","key-end","value-end","item-end"}))

\* acceptance never coexists with an open container or an unfinished literal
AcceptingIsClosed == acc => (stk = <<>> /\ ctl \in ({"top","trail"} \cup NumDone))
\* an error state is absorbing and never accepting
ErrIsFinal == (status \in {"err","ambig","deep"}) => ~acc
===============================================================================
