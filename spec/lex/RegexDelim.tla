------------------------------ MODULE RegexDelim ------------------------------
(* Delimiter scan of a regex schema text `/pattern/` (property C18): the text  *)
(* must start with "/", and the pattern ends at the first later "/" that is    *)
(* not escaped, where a backslash escapes the next byte (so `\\/` ends the     *)
(* pattern and `\/` does not).  Written from the statement, not from regex.go. *)
(* Whether the delimited pattern is a valid regular expression is not modelled *)
(* (DESIGN §2.5): Go's regexp/syntax is the definition the property refers to. *)
EXTENDS Integers, Sequences, TLC

CONSTANTS Classes,   \* {"slash","bslash","other"} (the harness concretises "other")
          MaxLen

VARIABLES ctl,      \* "start" | "body" | "esc" | "done" | "err"
          pos,      \* bytes consumed
          patEnd    \* index (0-based) of the closing delimiter once done, else -1
vars == <<ctl, pos, patEnd>>

Init == ctl = "start" /\ pos = 0 /\ patEnd = -1

Feed(c) ==
  /\ pos < MaxLen
  /\ pos' = pos + 1
  /\ CASE ctl = "start" -> /\ ctl' = IF c = "slash" THEN "body" ELSE "err"
                           /\ UNCHANGED patEnd
       [] ctl = "body"  -> /\ ctl' = IF c = "slash" THEN "done" ELSE IF c = "bslash" THEN "esc" ELSE "body"
                           /\ patEnd' = IF c = "slash" THEN pos ELSE patEnd
       [] ctl = "esc"   -> ctl' = "body" /\ UNCHANGED patEnd        \* any escaped byte, incl. "/" and "\"
       [] OTHER         -> UNCHANGED <<ctl, patEnd>>                \* done / err are absorbing: the rest is not the schema

Next == \E c \in Classes : Feed(c)
Spec == Init /\ [][Next]_vars

\* observables the specification defines
DelimOK    == ctl = "done"
PatternLo  == 1                      \* pattern = text[1 .. patEnd-1] (0-based, half-open [1, patEnd) )
LenOf      == patEnd + 1             \* delimited length, both slashes included

TypeOK == /\ ctl \in {"start","body","esc","done","err"}
          /\ (ctl = "done") <=> (patEnd >= 1)
          /\ patEnd < pos
\* an empty or one-byte text is never accepted
ShortTextsRejected == pos <= 1 => ~DelimOK
===============================================================================
