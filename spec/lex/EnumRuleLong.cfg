\* Long enum lists with one repeated scalar at every / edge positions (EnumRule!LongSpec); the token automaton's
\* variables are not part of this specification.
SPECIFICATION LongSpec
CONSTANTS
  MaxItems = 3
  Use = {1}
INVARIANTS LongRepeatIffPlaced EmitLong
CHECK_DEADLOCK FALSE
