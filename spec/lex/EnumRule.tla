------------------------------- MODULE EnumRule -------------------------------
(* Enum rule files (property C17) at token level: `[` scalars `]` with blanks,  *)
(* newlines and annotations.  Written from the statement: accepted iff the text *)
(* is a bracketed, comma-separated list of distinct JSON scalars without        *)
(* exponent numbers, with optional annotations; the values are the scalars in   *)
(* order with their JSON kind; two entries are the same iff they denote the     *)
(* same string or are the same literal.                                         *)
(* Placement of annotations is the one the repository's tests show: after `[`,  *)
(* before an item, after an item or its comma, after `]`; an inline `// ...`    *)
(* annotation runs to the end of its line.  Anything else the specification     *)
(* marks "unknown" (no verdict) rather than guessing the language.              *)
EXTENDS Integers, Sequences, TLC, Json

CONSTANTS MaxItems,     \* bound on the number of items explored
          Use           \* the catalogue entries a configuration puts into lists

\* the scalar catalogue: text as written, JSON kind, denoted string (strings only), exponent form?
Cat == << [text |-> "1",          kind |-> "integer", str |-> "",    exp |-> FALSE],
          [text |-> "\"1\"",      kind |-> "string",  str |-> "1",   exp |-> FALSE],
          [text |-> "1.5",        kind |-> "float",   str |-> "",    exp |-> FALSE],
          [text |-> "\"1.5\"",    kind |-> "string",  str |-> "1.5", exp |-> FALSE],
          [text |-> "\"a.b\"",    kind |-> "string",  str |-> "a.b", exp |-> FALSE],
          [text |-> "\"a\"",      kind |-> "string",  str |-> "a",   exp |-> FALSE],
          [text |-> "\"\\u0061\"", kind |-> "string", str |-> "a",   exp |-> FALSE],
          [text |-> "1.0",        kind |-> "float",   str |-> "",    exp |-> FALSE],
          [text |-> "true",       kind |-> "boolean", str |-> "",    exp |-> FALSE],
          [text |-> "null",       kind |-> "null",    str |-> "",    exp |-> FALSE],
          [text |-> "-0",         kind |-> "integer", str |-> "",    exp |-> FALSE],
          [text |-> "1e2",        kind |-> "float",   str |-> "",    exp |-> TRUE],
          \* 13..: signs, a literal and the string that spells it, the other boolean
          [text |-> "-1",         kind |-> "integer", str |-> "",    exp |-> FALSE],
          [text |-> "\"-1\"",     kind |-> "string",  str |-> "-1",  exp |-> FALSE],
          [text |-> "-1.5",       kind |-> "float",   str |-> "",    exp |-> FALSE],
          [text |-> "0",          kind |-> "integer", str |-> "",    exp |-> FALSE],
          [text |-> "false",      kind |-> "boolean", str |-> "",    exp |-> FALSE],
          [text |-> "\"true\"",   kind |-> "string",  str |-> "true", exp |-> FALSE],
          [text |-> "\"null\"",   kind |-> "string",  str |-> "null", exp |-> FALSE],
          \* 20..: one string in two spellings, with characters some JSON writers escape (& < >) and with escapes only
          [text |-> "\"a&b\"",           kind |-> "string", str |-> "a&b", exp |-> FALSE],
          [text |-> "\"a\\u0026b\"",     kind |-> "string", str |-> "a&b", exp |-> FALSE],
          [text |-> "\"<\"",             kind |-> "string", str |-> "<",   exp |-> FALSE],
          [text |-> "\"\\u003c\"",       kind |-> "string", str |-> "<",   exp |-> FALSE],
          [text |-> "\"x>y\"",           kind |-> "string", str |-> "x>y", exp |-> FALSE],
          [text |-> "\"x\\u003ey\"",     kind |-> "string", str |-> "x>y", exp |-> FALSE],
          [text |-> "\"a\\/b\"",         kind |-> "string", str |-> "a/b", exp |-> FALSE],
          [text |-> "\"a/b\"",           kind |-> "string", str |-> "a/b", exp |-> FALSE],
          [text |-> "\"\\\"\"",         kind |-> "string", str |-> "q",   exp |-> FALSE],
          [text |-> "\"\\u0022\"",       kind |-> "string", str |-> "q",   exp |-> FALSE],
          \* 30..: numbers beyond the machine types: the kind is a matter of spelling, not of range
          [text |-> "9223372036854775807",  kind |-> "integer", str |-> "", exp |-> FALSE],
          [text |-> "9223372036854775808",  kind |-> "integer", str |-> "", exp |-> FALSE],
          [text |-> "-9223372036854775809", kind |-> "integer", str |-> "", exp |-> FALSE],
          [text |-> "18446744073709551616", kind |-> "integer", str |-> "", exp |-> FALSE],
          [text |-> "123456789012345678901234567890", kind |-> "integer", str |-> "", exp |-> FALSE],
          [text |-> "123456789012345678901234567890.5", kind |-> "float", str |-> "", exp |-> FALSE],
          [text |-> "0.000000000000000000000000000001", kind |-> "float", str |-> "", exp |-> FALSE],
          [text |-> "9223372036854775808.0", kind |-> "float", str |-> "", exp |-> FALSE] >>
Ids == 1..Len(Cat)

Same(i, j) == \/ Cat[i].text = Cat[j].text
              \/ Cat[i].kind = "string" /\ Cat[j].kind = "string" /\ Cat[i].str = Cat[j].str

\* tokens: structural ones by name, scalars by catalogue id
Plain == {"lb","rb","comma","sp","nl","ic","mc","lbrace","junk"}
\* ic = inline annotation `// note` (runs to end of line), mc = `/* note */`

VARIABLES ctl,     \* "start" | "first" | "val" | "after" | "done" | "eol:<ret>" ...
          ret,     \* state to return to after the line of an inline annotation ends
          items,   \* catalogue ids of the items so far
          status   \* "ok" | "err" | "unknown"
vars == <<ctl, ret, items, status>>

Init == ctl = "start" /\ ret = "none" /\ items = <<>> /\ status = "ok"

Dup(i) == \E k \in 1..Len(items) : Same(items[k], i)

Go(c)      == ctl' = c /\ UNCHANGED <<ret, items, status>>
Fail       == status' = "err" /\ UNCHANGED <<ctl, ret, items>>
Unknown    == status' = "unknown" /\ UNCHANGED <<ctl, ret, items>>
Inline     == ctl' = "eol" /\ ret' = ctl /\ UNCHANGED <<items, status>>

Tok(t) ==
  /\ status = "ok"
  /\ CASE ctl = "start" ->
            IF t \in {"sp","nl"} THEN Go("start")
            ELSE IF t = "lb" THEN Go("first")
            ELSE IF t \in {"ic","mc"} THEN Unknown          \* annotation before the list: not settled
            ELSE Fail
       [] ctl \in {"first","val"} ->
            IF t \in {"sp","nl"} THEN Go(ctl)
            ELSE IF t = "ic" THEN Inline
            ELSE IF t = "mc" THEN Go(ctl)
            ELSE IF t = "rb" THEN (IF ctl = "first" THEN Go("done") ELSE Fail)   \* `[1,]` is not a list
            ELSE Fail                                         \* scalars are handled by Scalar(i)
       [] ctl = "after" ->
            IF t \in {"sp","nl"} THEN Go("after")
            ELSE IF t = "ic" THEN Inline
            ELSE IF t = "mc" THEN Go("after")
            ELSE IF t = "comma" THEN Go("val")
            ELSE IF t = "rb" THEN Go("done")
            ELSE Fail
       [] ctl = "done" ->
            IF t \in {"sp","nl"} THEN Go("done")
            ELSE IF t = "ic" THEN Inline
            ELSE IF t = "mc" THEN Go("done")
            ELSE Fail                                         \* text after the list
       [] ctl = "eol" ->                                      \* an inline annotation ends with its line
            IF t = "nl" THEN ctl' = ret /\ ret' = "none" /\ UNCHANGED <<items, status>>
            ELSE Unknown                                      \* the printer never puts anything else here
       [] OTHER -> Fail

Scalar(i) ==
  /\ status = "ok"
  /\ IF ctl \in {"first","val"}
     THEN IF Cat[i].exp \/ Dup(i) THEN Fail
          ELSE IF Len(items) >= MaxItems THEN Unknown
          ELSE ctl' = "after" /\ items' = Append(items, i) /\ UNCHANGED <<ret, status>>
     ELSE IF ctl = "eol" THEN Unknown ELSE Fail

Next == (\E t \in Plain : Tok(t)) \/ (\E i \in Use : Scalar(i))
Spec == Init /\ [][Next]_vars

\* a refused prefix stays refused whatever follows (no action is enabled once status = "err"): the harness also
\* replays every refused path with a closing bracket appended, where a missed refusal shows as an accepted rule
ErrIsFinal == [][status = "err" => status' = "err"]_vars

\* end of input
Accepting == status = "ok" /\ (ctl = "done" \/ (ctl = "eol" /\ ret = "done"))
NoVerdict == status = "unknown" \/ (Accepting /\ items = <<>>)   \* the empty list `[]` is not settled by the statement

\* observables of an accepted rule
ValuesOf == [k \in 1..Len(items) |-> [text |-> Cat[items[k]].text, kind |-> Cat[items[k]].kind]]

TypeOK == /\ status \in {"ok","err","unknown"}
          /\ Len(items) <= MaxItems
          /\ \A a, b \in 1..Len(items) : a # b => ~Same(items[a], items[b])    \* an accepted prefix never holds duplicates
          /\ \A a \in 1..Len(items) : ~Cat[items[a]].exp
EmitCat == (ctl = "start" /\ status = "ok") => PrintT(ToJson([cat |-> Cat]))
===============================================================================
