-------------------------------- MODULE LineCol --------------------------------
(* 1-based line and column of a byte index, and the text of its line, under a   *)
(* consistent newline convention (property C16).  A text is a sequence of       *)
(* tokens "a" (a visible byte), "sp" (a blank) and "nl" (a line end, written    *)
(* LF, CR LF or CR by the convention).  For every byte of the concrete text the *)
(* specification gives (line, column, the line's text); the byte that is the    *)
(* second half of a CR LF pair has no verdict of its own.                       *)
EXTENDS Integers, Sequences, TLC, Json

CONSTANTS MaxLen

Toks == {"a", "sp", "nl"}
Convs == {"lf", "crlf", "cr"}

VARIABLES txt, conv
vars == <<txt, conv>>
Init == txt = <<>> /\ conv \in Convs
Feed(t) == Len(txt) < MaxLen /\ txt' = Append(txt, t) /\ UNCHANGED conv
Next == \E t \in Toks : Feed(t)
Spec == Init /\ [][Next]_vars

\* concrete bytes of a token
BytesOf(t) == IF t = "a" THEN <<"a">> ELSE IF t = "sp" THEN <<" ">>
              ELSE IF conv = "lf" THEN <<"LF">> ELSE IF conv = "cr" THEN <<"CR">> ELSE <<"CR", "LF">>

\* walk the tokens; produce one record per byte: [b, line, col, verdict]
RECURSIVE Walk(_, _, _)
Walk(i, line, col) ==
  IF i > Len(txt) THEN <<>>
  ELSE LET t == txt[i] IN
       IF t = "nl"
       THEN (IF conv = "crlf"
             THEN << [b |-> "CR", line |-> line, col |-> col, verdict |-> TRUE],
                     [b |-> "LF", line |-> line, col |-> col + 1, verdict |-> FALSE] >>
             ELSE << [b |-> BytesOf(t)[1], line |-> line, col |-> col, verdict |-> TRUE] >>)
            \o Walk(i + 1, line + 1, 1)
       ELSE << [b |-> BytesOf(t)[1], line |-> line, col |-> col, verdict |-> TRUE] >> \o Walk(i + 1, line, col + 1)
Bytes == Walk(1, 1, 1)

\* text of line n without its line end, as a sequence of byte names
LineText(n) == LET bs == Bytes IN SelectSeq(bs, LAMBDA r : r.line = n /\ r.b \notin {"CR", "LF"})

TypeOK == Len(txt) <= MaxLen
\* columns restart at 1 after every line end, lines never decrease
Monotone == \A i \in 1..(Len(Bytes) - 1) : Bytes[i + 1].line >= Bytes[i].line
ColumnsRestart == \A i \in 1..(Len(Bytes) - 1) : (Bytes[i + 1].line > Bytes[i].line) => Bytes[i + 1].col = 1
Emit == txt # <<>> => PrintT(ToJson([conv |-> conv, bytes |-> Bytes]))
===============================================================================
