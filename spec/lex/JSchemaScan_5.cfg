SPECIFICATION Spec
CONSTANTS
  MaxLen = 5
  MaxDepth = 2
  StayAlive = FALSE
INVARIANTS TypeOK RuleContainersInsideAnnotation Emit
CHECK_DEADLOCK FALSE
