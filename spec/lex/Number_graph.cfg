SPECIFICATION RecogSpec
CONSTANTS
  Chars = {"-","+",".","0","5","e","E","x"}
  MaxLen = 0
CHECK_DEADLOCK FALSE
