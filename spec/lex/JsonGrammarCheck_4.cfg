SPECIFICATION Spec
CONSTANTS
  MaxDepth = 2
  MaxLen = 4
INVARIANT AcceptIffGrammar
VIEW View
CHECK_DEADLOCK FALSE
