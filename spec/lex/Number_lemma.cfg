SPECIFICATION Spec
CONSTANTS
  Chars = {"-","+",".","0","1","2","e"}
  MaxLen = 4
INVARIANTS RecogniserIffAccepts NormOrderCorrect Antisymmetric EqualIffSameNorm ZeroHasNoSign
CHECK_DEADLOCK FALSE
