-------------------------------- MODULE Number --------------------------------
(* Decimal numbers as json.NewNumber must understand them (property C13):      *)
(*  - the JSON number grammar as a 9-state recogniser over characters,         *)
(*  - the denotation of an accepted text as a normal form                      *)
(*        Norm = [neg, int (no leading zeros), frac (no trailing zeros)]       *)
(*    computed on digit sequences, so that it works for numbers of any size,   *)
(*  - the exact order on normal forms (CmpNorm),                               *)
(*  - and, for a small scope where TLC's integers can follow, the exact value  *)
(*    as mantissa/scale with comparison by cross-multiplication (CmpExact).    *)
(* TLC checks NormOrderCorrect (CmpNorm = CmpExact on every pair of accepted   *)
(* texts up to MaxLen) - the lemma that licenses using Norm as the oracle for  *)
(* thousand-digit numbers in NumberTrace.                                      *)
EXTENDS Integers, Sequences, SequencesExt, FiniteSets, TLC

CONSTANTS Chars,     \* alphabet of the exploration, e.g. {"-","+",".","0","1","2","e"}
          MaxLen     \* bound on text length in the exploration

DigitVal == ("0" :> 0) @@ ("1" :> 1) @@ ("2" :> 2) @@ ("3" :> 3) @@ ("4" :> 4) @@
            ("5" :> 5) @@ ("6" :> 6) @@ ("7" :> 7) @@ ("8" :> 8) @@ ("9" :> 9)
IsDigit(c) == c \in DOMAIN DigitVal

\* ------------------------------------------------------------------ grammar
\* number = [ "-" ] int [ frac ] [ exp ];  int = "0" / ( digit1-9 *DIGIT )
\* frac = "." 1*DIGIT ;  exp = ("e" / "E") [ "-" / "+" ] 1*DIGIT          (RFC 8259 §6)
Delta(s, c) ==
  CASE s = "start" -> IF c = "-" THEN "neg" ELSE IF c = "0" THEN "zero" ELSE IF IsDigit(c) THEN "int" ELSE "dead"
    [] s = "neg"   -> IF c = "0" THEN "zero" ELSE IF IsDigit(c) THEN "int" ELSE "dead"
    [] s = "zero"  -> IF c = "." THEN "dot" ELSE IF c \in {"e","E"} THEN "exp" ELSE "dead"
    [] s = "int"   -> IF IsDigit(c) THEN "int" ELSE IF c = "." THEN "dot" ELSE IF c \in {"e","E"} THEN "exp" ELSE "dead"
    [] s = "dot"   -> IF IsDigit(c) THEN "frac" ELSE "dead"
    [] s = "frac"  -> IF IsDigit(c) THEN "frac" ELSE IF c \in {"e","E"} THEN "exp" ELSE "dead"
    [] s = "exp"   -> IF c \in {"+","-"} THEN "esign" ELSE IF IsDigit(c) THEN "expd" ELSE "dead"
    [] s = "esign" -> IF IsDigit(c) THEN "expd" ELSE "dead"
    [] s = "expd"  -> IF IsDigit(c) THEN "expd" ELSE "dead"
    [] OTHER -> "dead"
Final == {"zero","int","frac","expd"}

\* (FoldLeft, SelectInSeq and SelectLastInSeq of SequencesExt are evaluated natively by TLC, which
\*  keeps thousand-digit numbers cheap; a RECURSIVE scan over indices is quadratic in TLC.)
Accepts(t) == FoldLeft(LAMBDA s, c : Delta(s, c), "start", t) \in Final

\* --------------------------------------------------------------- denotation
Zeros(n) == [i \in 1..n |-> "0"]
\* first index whose element is in S (Len+1 if none)
FirstIdx(t, S) == LET i == SelectInSeq(t, LAMBDA c : c \in S) IN IF i = 0 THEN Len(t) + 1 ELSE i
StripLeft(d)  == LET i == SelectInSeq(d, LAMBDA c : c # "0") IN IF i = 0 THEN <<>> ELSE SubSeq(d, i, Len(d))
StripRight(d) == SubSeq(d, 1, SelectLastInSeq(d, LAMBDA c : c # "0"))
RECURSIVE NatOf(_)
NatOf(d) == IF d = <<>> THEN 0 ELSE NatOf(SubSeq(d, 1, Len(d) - 1)) * 10 + DigitVal[d[Len(d)]]

\* components of an accepted text
Parts(t) ==
  LET neg  == t[1] = "-"
      s    == IF neg THEN 2 ELSE 1
      ePos == FirstIdx(t, {"e","E"})
      dHit == FirstIdx(t, {"."})
      dPos == IF dHit < ePos THEN dHit ELSE ePos
      expT == SubSeq(t, ePos + 1, Len(t))
      expD == IF expT # <<>> /\ expT[1] \in {"+","-"} THEN Tail(expT) ELSE expT
  IN [neg  |-> neg,
      int  |-> SubSeq(t, s, dPos - 1),
      frac |-> IF dPos < ePos THEN SubSeq(t, dPos + 1, ePos - 1) ELSE <<>>,
      exp  |-> (IF expT # <<>> /\ expT[1] = "-" THEN -1 ELSE 1) * NatOf(StripLeft(expD))]

\* normal form: shift the decimal point by the exponent, drop insignificant zeros, -0 = 0
Norm(t) ==
  LET p   == Parts(t)
      all == p.int \o p.frac
      pt  == Len(p.int) + p.exp                     \* digits before the point after the shift
      i0  == IF pt <= 0 THEN <<>> ELSE IF pt >= Len(all) THEN all \o Zeros(pt - Len(all)) ELSE SubSeq(all, 1, pt)
      f0  == IF pt <= 0 THEN Zeros(-pt) \o all ELSE IF pt >= Len(all) THEN <<>> ELSE SubSeq(all, pt + 1, Len(all))
      i1  == StripLeft(i0)
      f1  == StripRight(f0)
  IN [neg |-> p.neg /\ (i1 # <<>> \/ f1 # <<>>), int |-> i1, frac |-> f1]

\* lexicographic comparison of digit sequences of equal length / padded with zeros on the right
CmpDigits(x, y) ==
  LET n == IF Len(x) > Len(y) THEN Len(x) ELSE Len(y)
      d == [i \in 1..n |-> LET a == IF i <= Len(x) THEN DigitVal[x[i]] ELSE 0
                               b == IF i <= Len(y) THEN DigitVal[y[i]] ELSE 0
                           IN IF a < b THEN -1 ELSE IF a > b THEN 1 ELSE 0]
      k == SelectInSeq(d, LAMBDA v : v # 0)
  IN IF k = 0 THEN 0 ELSE d[k]
CmpAbs(a, b) == IF Len(a.int) < Len(b.int) THEN -1 ELSE IF Len(a.int) > Len(b.int) THEN 1
                ELSE LET c == CmpDigits(a.int, b.int) IN IF c # 0 THEN c ELSE CmpDigits(a.frac, b.frac)
CmpNorm(a, b) == IF a.neg /\ ~b.neg THEN -1 ELSE IF ~a.neg /\ b.neg THEN 1
                 ELSE IF a.neg THEN -CmpAbs(a, b) ELSE CmpAbs(a, b)

\* ------------------------------------------------- exact value (small scope)
Pow10(n) == IF n = 0 THEN 1 ELSE IF n = 1 THEN 10 ELSE IF n = 2 THEN 100 ELSE IF n = 3 THEN 1000
            ELSE IF n = 4 THEN 10000 ELSE IF n = 5 THEN 100000 ELSE IF n = 6 THEN 1000000 ELSE 10000000
\* value = mant * 10^(-scale)
Exact(t) == LET p == Parts(t) IN
            [mant |-> (IF p.neg THEN -1 ELSE 1) * NatOf(p.int \o p.frac), scale |-> Len(p.frac) - p.exp]
CmpExact(ta, tb) ==
  LET a == Exact(ta) b == Exact(tb)
      S == IF a.scale > b.scale THEN a.scale ELSE b.scale
      x == a.mant * Pow10(S - a.scale)
      y == b.mant * Pow10(S - b.scale)
  IN IF x < y THEN -1 ELSE IF x > y THEN 1 ELSE 0

\* ------------------------------------------------------ exploration (TLC)
VARIABLES ctl,    \* recogniser state of the text being typed
          txt,    \* the text being typed
          first,  \* the first text of the pair, once chosen
          phase   \* "a": typing the first text, "b": typing the second
vars == <<ctl, txt, first, phase>>

Init == ctl = "start" /\ txt = <<>> /\ first = <<>> /\ phase = "a"

Feed(c) == /\ Len(txt) < MaxLen
           /\ ctl # "dead"
           /\ ctl' = Delta(ctl, c)
           /\ txt' = Append(txt, c)
           /\ UNCHANGED <<first, phase>>

\* the first text is complete: keep it and start the second
PickSecond == /\ phase = "a" /\ ctl \in Final
              /\ first' = txt /\ phase' = "b" /\ ctl' = "start" /\ txt' = <<>>

Next == (\E c \in Chars : Feed(c)) \/ PickSecond
Spec == Init /\ [][Next]_vars

\* the recogniser alone (its 10-state graph is dumped by TLC and walked against json.NewNumber)
RecogFeed(c) == ctl # "dead" /\ ctl' = Delta(ctl, c) /\ UNCHANGED <<txt, first, phase>>
RecogSpec == Init /\ [][\E c \in Chars : RecogFeed(c)]_vars

\* ---- design-level properties
RecogniserIffAccepts == (ctl \in Final) <=> (ctl # "dead" /\ txt # <<>> /\ Accepts(txt))

PairReady == phase = "b" /\ ctl \in Final
\* the exact value is computed with TLC's 32-bit integers: keep the cross-multiplication in range
Small(t) == Parts(t).exp \in -3..3
NormOrderCorrect == (PairReady /\ Small(first) /\ Small(txt)) => CmpNorm(Norm(first), Norm(txt)) = CmpExact(first, txt)
Antisymmetric    == PairReady => CmpNorm(Norm(first), Norm(txt)) = -CmpNorm(Norm(txt), Norm(first))
EqualIffSameNorm == PairReady => ((CmpNorm(Norm(first), Norm(txt)) = 0) <=> (Norm(first) = Norm(txt)))
\* -0 and 0 in every spelling are the same number
ZeroHasNoSign == ctl \in Final =>
                   LET p == Parts(txt) d == p.int \o p.frac
                   IN (\A i \in 1..Len(d) : d[i] = "0") => (Norm(txt) = [neg |-> FALSE, int |-> <<>>, frac |-> <<>>])
===============================================================================
