\* strings in two spellings: characters that some JSON writers escape, escape-only spellings
SPECIFICATION Spec
CONSTANTS
  MaxItems = 3
  Use = {1, 6, 20, 21, 22, 23, 24, 25, 26, 27, 28, 29}
INVARIANTS TypeOK EmitCat
PROPERTIES ErrIsFinal
CHECK_DEADLOCK FALSE
