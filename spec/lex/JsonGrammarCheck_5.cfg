SPECIFICATION Spec
CONSTANTS
  MaxDepth = 2
  MaxLen = 5
INVARIANT AcceptIffGrammar
VIEW View
CHECK_DEADLOCK FALSE
