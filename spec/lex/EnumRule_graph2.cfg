\* the second half of the catalogue: signs, literals next to the strings that spell them
SPECIFICATION Spec
CONSTANTS
  MaxItems = 3
  Use = {1, 2, 6, 9, 11, 13, 14, 15, 16, 17, 18, 19}
INVARIANTS TypeOK EmitCat
PROPERTIES ErrIsFinal
CHECK_DEADLOCK FALSE
