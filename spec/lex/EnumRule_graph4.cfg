\* numbers beyond int64 / uint64 / float64 precision
SPECIFICATION Spec
CONSTANTS
  MaxItems = 2
  Use = {1, 2, 30, 31, 32, 33, 34, 35, 36, 37}
INVARIANTS TypeOK EmitCat
PROPERTIES ErrIsFinal
CHECK_DEADLOCK FALSE
