SPECIFICATION Spec
CONSTANTS
  Classes = {"slash","bslash","other"}
  MaxLen = 8
INVARIANTS TypeOK ShortTextsRejected
CHECK_DEADLOCK FALSE
