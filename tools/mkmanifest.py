#!/usr/bin/env python3
"""Writes /verif/MANIFEST.json from the table below (single source of truth for the interface)."""
import json, subprocess

ALL = ["C%02d" % i for i in range(1, 21)]

CHECKS = {
 "C19": dict(
   category="model_checking", design_ref="DESIGN.md §3 C19",
   technique="TLA+ reference dictionary (OrderedMap.tla), TLC state-graph dump, every path replayed on the real containers",
   text="OrderedMap.tla is the reference insertion-ordered dictionary; TLC checks its design invariants (order is a permutation of the keys, relative order stable) and dumps the complete labelled state graph (79 states, 3 keys x 2 values); OrderedMap_sim.cfg adds TLC-simulated behaviours over six keys (long enough for the containers to grow and shrink). The harness replays, from every state, every action sequence up to a bound, seeded random walks and the simulated behaviours on the real RuleASTNodes/ASTNodes/Constraints/StringSet (six constructions incl. pre-sized maps) and compares Len, Has/Get, Each/EachSafe/Find order and MarshalJSON with the model state after every step.",
   note="Small-scope: 3 keys exhaustively, 6 keys by simulation, 2 values (the container code never looks inside keys or values). TLC, the DOT dump and the harness's observation code are trusted. Constraints.MarshalJSON is not compared."),
 "C12": dict(
   category="model_checking", design_ref="DESIGN.md §3 C12",
   technique="TLA+ reference automaton (JsonDoc.tla) checked equal to an independent TLA+ grammar; TLC graph dump walked against formats/json (all strings <= N, W-method, random walks) and recorded traces validated by TLC (JsonDocTrace)",
   text="JsonDoc.tla is an RFC 8259 automaton with lexeme events, TLC proves it equal to a recursive-descent grammar relation for all class strings up to a bound (AcceptIffGrammar). Direction 1: the dumped state graph (nesting <= 3, ~600 states x 32 byte classes, plain and trailing option) yields all strings <= N, the W-method suite and random walks with random member bytes; each is run through Check, NextLexeme, Len and a tree rebuild compared with encoding/json. Direction 2: corpus literals, generated and mutated documents are traced byte by byte and validated by TLC against JsonDocTrace (spans computed in TLA+).",
   note="Trusted: TLC, the byte->class map, encoding/json for the tree comparison. Greedy reading of the trailing option; inputs like 1.x are inconclusive. Nesting beyond 3 only through traces/random documents."),
 "C13": dict(
   category="model_checking", design_ref="DESIGN.md §3 C13",
   technique="TLA+ number recogniser + normal-form order (Number.tla) with TLC-checked lemma Norm order = exact order; recogniser graph walked against NewNumber; recorded Cmp/Equal/String observations validated by TLC (NumberTrace)",
   text="Number.tla gives the JSON number grammar as a recogniser and the denotation as a digit-sequence normal form; TLC checks NormOrderCorrect/Antisymmetric/ZeroHasNoSign on all pairs of accepted texts up to length 4 with exact integer arithmetic. All strings up to length 7/9 over the number alphabet are compared with NewNumber's verdict; tens of thousands of num/cmp observations (small exhaustive set pairs, thousand-digit numbers respelled with exponent shifts up to 2500, last-digit neighbours, and for every digit length up to 40 and every machine word size the smallest/largest/neighbouring numbers in all pairs, both signs, with and without fraction) are validated line by line by TLC.",
   note="Trusted: TLC and SequencesExt overrides. Exponents beyond +-2500 are outside the value oracle. Known finding: '0e5' rejected (pinned by the repository's own test)."),
 "C18": dict(
   category="model_checking", design_ref="DESIGN.md §3 C18",
   technique="TLA+ delimiter automaton (RegexDelim.tla), TLC graph dump, every class string concretised over a regex alphabet and replayed on notations/regex, the OpenAPI converter and referring schemas",
   text="RegexDelim.tla defines which texts are properly delimited and where the pattern ends (escape parity); TLC checks its invariants and dumps the graph. Every class string up to length 5/6, with class 'other' expanded over {a ( ) [ ] * + . |}, and generated well-formed patterns with trailing text are replayed: verdict = delimOK and regexp.Compile, positioned rejection, Len, Pattern, Example matches, AST value, OpenAPI pattern, referring schema verdict per the pattern.",
   note="Go's regexp is the definition of pattern validity and matching (DESIGN §2.5). Referring-schema values judged only where anchored and unanchored matching agree."),
 "C20": dict(
   category="model_checking", design_ref="DESIGN.md §3 C20",
   technique="TLA+ vocabulary model (TypeVocab.tla): TLC checks reflexivity/symmetry/exact families and emits every pair and literal with its expectation; all emitted cases replayed on type.go / json.Guess",
   text="TypeVocab.tla states the documented families; TLC checks Reflexive, Symmetric, UndefinedUnrelated, ExactlyFamilies over all 17x17 pairs and emits each pair with SoftEq, every accepted number literal up to length 5/7 with its kind, every quoted text of up to three pieces out of 13 (plain characters, language punctuation, every escape kind: 2380 string literals) and the vocabulary tables. The harness replays all of them: IsEqualSoft, IsValidType (names and near misses), IsScalar, token-type agreement of schema and JSON types, GuessSchemaType 60x per literal against the scanner's classifier.",
   note="The 'comment' type is outside the domain. Known finding: null~array one-directional (pinned by the repository's table-derived test)."),
 "C17": dict(
   category="model_checking", design_ref="DESIGN.md §3 C17",
   technique="TLA+ token-level reference (EnumRule.tla), TLC graph dump, token paths printed to text and replayed on rules/enum and on schemas using the rule by name vs inline",
   text="EnumRule.tla defines acceptance (bracketed list of distinct non-exponent scalars, annotations where the repository's tests place them), the value list and the duplicate relation over a 29-scalar catalogue (\"1\" vs 1, \"a\" vs \"\\u0061\", 1.0 vs 1, -0, 1e2, -1 vs \"-1\", false vs \"true\" ...) explored in three parts. TLC checks that an accepted prefix never holds duplicates and dumps the three graphs; the harness replays the access sequence of every state followed by every token sequence <= k and seeded random walks (Check, Values with kinds), and for every distinct accepted item list compares `v // {enum: @rule}` with `v // {enum: [list]}` (verdict, error code, example) and with membership for every catalogue value; one annotated rule object is also shared by many schemas and its Values()/GetAST() re-read afterwards.",
   note="Annotation placements outside those shown by the repository's tests, the empty list and merged number tokens have no verdict (counted inconclusive). Comment-only entries of Values() are ignored."),
 "C10": dict(
   category="model_checking", design_ref="DESIGN.md §3 C10",
   technique="TLA+ model of the public API as a system (SchemaApi.tla) enumerated by TLC into call histories replayed on the real library; pool refinement (Pools.tla) model-checked; pool events recorded through verif hooks validated by TLC (PoolsTrace)",
   text="SchemaApi.tla enumerates every history of object creation, AddType and Check/Example/GetAST/Len/UsedUserTypes/OpenAPI calls over 2-3 objects and a 13-text catalogue (valid shallow/nested/deeper, scanner/loader/checker failures, type references, an `or` rule-set with format types, an annotated object with enum/uuid/choice, value-less texts: blank and comment only). Each history is replayed sequentially in a worker process: every result is compared with the fresh-object reference, every result still held is re-read after every later call. Pools.tla (buffer pool with ReturnCopy) satisfies HeldStable/NoLiveAlias, its ReturnAlias variant is the negative control. A stride sample of histories also records pool Get/Put/return events (with buffer identity and result-memory aliasing) through the hooks; TLC validates them against PoolsTrace.",
   note="Contents limited to the catalogue; one object is the type of at most one root. When a project has two independent defects only error-vs-value is compared (which defect wins is C09)."),
 "C11": dict(
   category="model_checking", design_ref="DESIGN.md §3 C11",
   technique="TLA+ model of goroutines at hook granularity (Concurrent.tla) model-checked over all interleavings; its work assignments run free in a -race build; hook traces with goroutine ids validated by TLC (PoolsTrace)",
   text="Concurrent.tla splits every public call at the sync.Once guard and the buffer pool (the verif hook points); TLC checks NoBufferSharedByTwoProcesses, NothingHeldOutsideCalls, ResultsAreSequential and OnceRunsOnce over all interleavings of 2 goroutines x programs of <= 2 calls in three modes: own objects, one shared object whose first Check() has returned, one shared fresh object (the goroutines race for the first call). Every initial state (work assignment) is executed for several rounds in a race-instrumented build with GOMAXPROCS 2/4/16: no race report, results equal to sequential references, held results intact; sampled runs record hook events with goroutine ids and TLC validates them against PoolsTrace (a buffer is never handed to two goroutines, results never alias pooled memory).",
   note="The race detector judges only the schedules that ran (free-running; gates are not imposed). Catalogue of three contents. Go race detector and sync.Pool are trusted."),
 "C09": dict(
   category="model_checking", design_ref="DESIGN.md §3 C09",
   technique="TLA+ model with explicit map-iteration nondeterminism (Determinism.tla): TLC shows confluence under sorted iteration and its failure under map iteration, and lists every (root, type set, registration order); all of them observed on the real code by repetition, fresh processes and all orders",
   text="Determinism.tla makes every range-over-map an explicit choice; a type may carry several defects in source order (each `@a | @b` choice and `or` rule-set is an internal type in the same map) and the objects of a project may be used again (registered on a second root, or checked on their own first). With Iteration=\"sorted\" TLC proves Confluent and Repeatable over 4 roots x <=3 of 11 types x all registration orders x 3 reuse modes (13k configurations), with \"map\" it produces the counterexample (negative control) and marks the order-sensitive configurations. Each configuration and ~600-4000 texts for the enum, regex, JSON-document, guessing and schema entry points are observed R times in-process and in P worker processes; error (code, message, index, line, column, offending type), Len, AST, example, used types, OpenAPI, enum values, lexeme streams are compared byte-for-byte across repetitions, processes and registration orders.",
   note="Map orders and heap addresses cannot be enumerated: a 2-way order dependence survives R repetitions with probability 2^(1-R) (R >= 40 per process on sensitive configurations). Type catalogue of eleven types."),
 "C06": dict(
   category="model_checking", design_ref="DESIGN.md §3 C06",
   technique="TLA+ type-reference graphs (TypeGraph.tla): TLC checks SelfRequiring => ~Finite on every graph and emits each graph with both predicates; graphs printed as projects and replayed (Check 104 iff demanded, Example terminates with valid JSON)",
   text="TypeGraph.tla defines Finite (least fixpoint, choices are OR) and SelfRequiring (root reaches itself through mandatory plain references) over graphs of 3 types with up to 2 properties out of 16 kinds, 4 types with requirement edges only, rings with chords of 4-6 types, and graphs whose types may be nullable at their own root or plain/nullable aliases of another type (RootForms); TLC checks the theorem, the fixpoint lemmas and NullableRootsAreFinite on all of them (~860k quick) and emits every graph. Every graph with a cycle or an infinite/self-requiring root (others sampled) is printed as a project with the root registered under its own name: Check() must not return 104 when the root is finite, must return it when the root is self-requiring, and Example() of an accepted project must return RFC 8259 JSON within 5 s.",
   note="Key-shortcut properties are not edges. Nothing is demanded for infinite roots that are not self-requiring through plain references. The printer and the 104 classification (error code) are trusted."),
 "C01": dict(
   category="model_checking", design_ref="DESIGN.md §3 C01",
   technique="TLA+ project builder with rule semantics (SchemaModel.tla, RuleSemantics.tla, SchemaModelExtra.tla): TLC enumerates every project with its demanded verdict; each printed and Check()ed",
   text="RuleSemantics.tla gives the documented meaning of min/max (with exclusivity), precision, minLength/maxLength, regex, minItems/maxItems over catalogues with exact decimal denotations (boundary neighbours 9.99/10/10.0/10.00/10.01/10.001, -0/0, lengths around limits, escapes) and sanity lemmas; SchemaModel.tla builds, by builder actions, every project skeleton (root, property, array item, `or` rule-set, type reference, type reference inside `or`, reference to a type that carries the `or`) x value x canonical rule subset and computes the verdict over every example value (the type's own example included); SchemaModelExtra.tla does the same for enum, const, nullable, string formats, two-alternative `or` and `or` over the whole type vocabulary in name and rule-set form, printing the schema text in TLA+. ~225k (quick) / ~1M (thorough) projects are replayed, and 80k (600k) pairs of finished projects composed as independent parts of one root object (ComposeExpect: accepted iff both are): a violating example accepted, or a satisfying one rejected with a value-reason code, is a violation.",
   note="Accept-expected projects answered with a structural code are inconclusive (the model's compatibility table was calibrated until they are 0.01%). A value referring to a type is generated with the JSON kind of the type's example; null examples of nullable nodes have no verdict. Regex/format semantics on catalogue samples only."),
 "C03": dict(
   category="model_checking", design_ref="DESIGN.md §3 C03",
   technique="TLA+ pushdown generator of well-formed JSON documents (JsonGen.tla) with TLC-checked balance invariants; every document rendered under whitespace layouts and replayed as a schema, compared with encoding/json",
   text="JsonGen.tla is a pushdown machine whose finished behaviours are exactly the well-formed documents (no exponents, no duplicate keys) over catalogues of scalars and keys covering every escape form, surrogate pairs, non-ASCII, -0, 0.10, empty containers; TLC checks Balanced/NoDanglingKey and emits ~50k (quick) / ~2M (thorough) documents from a deep configuration (8-17 scalars, 7 tokens, depth 3) plus a wide one (all 46 scalars - word-size edges, 30-digit numbers, escape-only strings - and all 13 keys in the four smallest document shapes). Each is rendered under 7 whitespace layouts (none, space, tab, LF, CRLF, CR, mixed) and given to jschema: accepted; Example() decoded order-preservingly equals the input value (keys incl. escapes, order, literals as exact decimals); GetAST() has the same shape with decoded keys and values. The repository's own RFC 8259 literals are replayed too.",
   note="encoding/json is the independent decoder the property names. Two non-ASCII catalogue entries are substituted by the harness (TLC cannot print non-ASCII)."),
 "C04": dict(
   category="model_checking", design_ref="DESIGN.md §3 C04",
   technique="TLA+ project builder with the expected AST (SchemaText.tla: AstOf) emitted by TLC; harness printer renders each project under all annotation placements; GetAST() compared with AstOf",
   text="SchemaText.tla builds projects from menus of values (scalars, references, choices, nested arrays/objects, key shortcuts, escaped keys) and annotations (every rule kind, nested or/enum/allOf lists, 2^64+1 values, notes) and defines AstOf: one node per example element in source order with kind, key, shortcut flag, decoded value or reference text, note and the ordered rule list with values. TLC checks OneNodePerElement and emits every project with its AST; the harness prints each under inline //, /* */ and multi-line placements x quoted/bare rule names and compares GetAST() (normalised; library-generated reference rules excluded) field by field.",
   note="The printer (model.Layout.Print) is trusted. Projects the library rejects (e.g. values above the integer range after the fix) have no AST and are counted inconclusive. A type name as rule value may be reported as string or reference."),
 "C14": dict(
   category="model_checking", design_ref="DESIGN.md §3 C14",
   technique="TLA+ layout space (Layout.tla, 2700 layouts reached by toggle actions) x SchemaText.tla projects; metamorphic comparison of all observables within each orbit, plus context-free transformations of the repository corpus",
   text="Layout.tla enumerates the presentation vectors (line ends x annotation style x five ways of quoting rule names - none, all, top level only, nested only, alternating - x padding x # and ### user comments x leading/trailing blank lines); every SchemaText project is printed under the plain layout and a seeded sample (24 quick / 160 thorough) of the others: verdict and error code, AST (notes modulo blank runs), example, used types and OpenAPI JSON must be identical. Every schema-like literal of the repository's tests is compared with its CRLF, CR, leading-blank, trailing-blank and trailing-space variants.",
   note="The printer only produces layouts that keep each annotated element alone on its line and comments on their own line or after an unannotated value. Texts that stop in the middle of an element (code 303) are excluded from the trailing transformations."),
 "C15": dict(
   category="model_checking", design_ref="DESIGN.md §3 C15",
   technique="laws stated in TLA+ (LenLaws.tla); observations (S, T) recorded from the real code validated line by line by TLC",
   text="For each schema text S (printed SchemaText projects under 5 layouts incl. comments and CRLF/CR, root forms: references, choices, annotated scalars, containers; schema literals of the repository's tests) and follow-up T (every first byte except / and # x 8 rests) the harness records len(S), Len(S), verdicts and ASTs of S and S[:Len(S)], Len of the prefix and Len(S.newline.T); TLC validates every record against the four laws of LenLaws.tla.",
   note="S without a root value (blank, comment or annotation only) is skipped. The prefix law is demanded of accepted S and of rejected S that Len() covers entirely (a rejected S with text after the value is itself 'a larger text'). S that stops inside a user comment is not complete."),
 "C07": dict(
   category="model_checking", design_ref="DESIGN.md §3 C07",
   technique="TLA+ inheritance model (AllOf.tla: Merge, refusal classes, TLC-checked merge lemmas) emitting every project with its merged key list; replay on Check/Example/compiled tree/OpenAPI property listing",
   text="AllOf.tla defines Merge (own keys then the listed types' keys, transitively, in list order, with origin and optional flag) and the refusal classes (missing, non-object, cyclic, duplicate key, conflicting additionalProperties with true = any) over a root object and 2-3 named types each withheld / non-object / object with allOf lists that may name themselves and each other; an own key may itself be an heir ({ // {allOf: \"@x\"} \"n\": 0 }): nested lists take part in the refusal classes and in Merge (NestedHeirGains). TLC checks MergeHasNoDuplicateKeys, MergeStable, NoListNoChange on all ~520k (quick) projects. Replay: refused iff a class applies, with the code of a present class; otherwise Example() keys, the compiled root's properties (key, InheritedFrom, optional) and openapi.Dereference's PropertiesInfos (keys, optional) equal the merged list, nested heirs included; every project is judged on a fresh object and after a call prefix from SchemaApi_orders.cfg.",
   note="With a structural defect present a duplicate/conflict code is also accepted (the merge of the remaining objects is then undefined). Cycle-only projects are replayed 1 in 8 (quick). Inherited keys may be marked with the listed parent or the declaring type."),
 "C05": dict(
   category="model_checking", design_ref="DESIGN.md §3 C05",
   technique="TLA+ reference-position model (RefPositions.tla: Used, Reach, Missing) emitting every hygienic project x registration subset; replay on UsedUserTypes/Check with and without an unused type",
   text="RefPositions.tla lets the root mention @a/@b/@c in all eight positions (value shortcut, @a | @b, key shortcut, type, or by name, or rule-set, allOf, additionalProperties), lets type definitions mention each other one level further, registers every subset of the definitions and optionally an unused valid type; TLC checks UsedIsReached / MissingOnlyIfWithheld and emits ~75k (quick) projects with Used and Missing. Replay: UsedUserTypes() as a set without duplicates = Used; Check() returns 1302 naming a member of Missing iff Missing is not empty; every observable is identical with and without the unused type. Every project is judged twice: on a fresh object and on one that has already answered one of the 42 call prefixes TLC enumerates from SchemaApi.tla (SchemaApi_orders.cfg).",
   note="Generator hygiene: kinds fit positions, mentions among types are acyclic, unreached registered types mention registered names only, no additionalProperties conflict through allOf."),
 "C08": dict(
   category="model_checking", design_ref="DESIGN.md §3 C08",
   technique="accepted projects enumerated by TLC from the TLA+ models (SchemaModel, SchemaModelExtra, SchemaText, AllOf, RefPositions) with RuleSemantics-derived accepted variations; OpenAPI conversions judged by an independent JSON Schema validator (jsonschema via tools/oas_validate.py)",
   text="Programs are the accepted projects the other specifications emit (rule families on seven skeletons, enum/const/nullable/formats/or incl. the whole type vocabulary as `or` elements, annotated objects with references, choices, key shortcuts, nested containers and escaped keys, inheritance projects, reference-position projects). For each the library produces Example(), the OpenAPI conversion of the root and of every registered type (assembled as #/components/schemas/*). The validator (jsonschema, Draft 4 vocabulary + nullable, numbers as exact decimals, hand-written OpenAPI 3.0 Schema Object meta-schema) checks well-formed JSON, well-formed Schema Object, example is an instance, and every variation that RuleSemantics says the rules accept (the other values of the same skeleton+rules group, same JSON number kind) is an instance. SchemaApi.tla's call-history independence is asserted on every program: a second conversion and a conversion after a TLC-enumerated call prefix give the same bytes, GetAST() and Example() are unchanged by converting.",
   note="Instance-of for Schema Objects is delegated to jsonschema (DESIGN §2.5); format is an annotation. Quick tier stride-samples the programs. Known finding: the allOf conversion."),
 "C02": dict(
   category="model_checking", design_ref="DESIGN.md §3 C02",
   technique="inputs generated from the TLA+ specifications (JSchemaScan byte-class automaton with viable-prefix enumeration and TLC simulation, JsonDoc/Number/RegexDelim/EnumRule graphs, truncations and mutations of printed SchemaText projects, TypeGraph cycles) run through every public operation in isolated worker processes",
   text="JSchemaScan.tla is a byte-class automaton of the schema language (JSON values, @references and choices, key shortcuts, # and ### comments, // and /* */ annotations with rule objects and notes) used as a generator: every viable class string up to length 4/5 (with end of input after every prefix) and TLC-simulated behaviours of 80 bytes, as root schema and as registered type; plus every class string of the JsonDoc, Number, RegexDelim automata, EnumRule token paths with every truncation, every truncation and seeded single-byte mutations of printed SchemaText projects, reference cycles in every position (TypeGraph graphs and listed cases, root registered under its own name), CycleGraph.tla's cyclic mention graphs (one mention per type in any fitting position), nesting/size to 10^4 (10^6 thorough), extreme exponents, and pumped variants of the generated texts (one byte replaced by a run of its class: malformed and truncated UTF-8, multi-byte characters, escapes, digits). Each case runs Len, Check, Example (also before Check), GetAST, UsedUserTypes, AddType, AddRule, NextLexeme, Values, NewNumber, GuessSchemaType and OpenAPI/Dereference of accepted schemas in worker processes: an escaped panic, a dead worker (stack overflow, fatal error) or no answer in 3 s (15 s for large inputs) is a violation.",
   note="JSchemaScan is a generator, not an acceptance oracle (DESIGN §2.1). Bounded time is a wall-clock bound; stack depth is explored to the stated nesting, not proved."),
 "C16": dict(
   category="model_checking", design_ref="DESIGN.md §3 C16",
   technique="TLA+ line/column reference (LineCol.tla) replayed on kit.JSchemaError; every rejection produced by the C02 generators judged against the diagnostic contract, positions checked with the LineCol semantics",
   text="LineCol.tla gives line, column and line text of every byte of every text of <= 6 tokens under the LF, CR LF and CR conventions (TLC checks Monotone/ColumnsRestart); all are replayed on kit.JSchemaError through its public constructor (Line, Column, Error never panics) and on the harness's own position function. Every error returned by the entry-point operations on the C02 inputs is judged: a library diagnostic type (never runtime.Error or a bare error), code > 1, no formatting debris or pointers in the message, and if positioned: index inside the text of the file it names, line/column per LineCol, rendering succeeds and quotes the line.",
   note="Texts that mix newline conventions, and the LF of a CR LF pair, have no line/column verdict. OpenAPI conversion errors of accepted schemas are outside the statement."),
}

REASON_PENDING = "check not built yet in this round (design in DESIGN.md §3); no claim is made"

def main():
    checks = []
    for pid in ALL:
        if pid not in CHECKS: continue
        c = CHECKS[pid]
        checks.append({
            "property_id": pid,
            "quick_cmd": f"bin/check {pid} quick",
            "thorough_cmd": f"bin/check {pid} thorough",
            "evidence_file": f"/verif/evidence/{pid}.json",
            "replay_cmd_template": f"bin/check {pid} --replay {{path}}",
            "engine": "vcheck",
            "level_claimed": {"category": c["category"], "text": c["text"], "design_ref": c["design_ref"]},
            "level_note": c["note"],
            "technique": c["technique"],
        })
    na = [{"property_id": p, "reason": REASON_PENDING} for p in ALL if p not in CHECKS]
    hooks = subprocess.run(["git","-C","/repo","log","--format=%h %s","--grep=^verif hook"],capture_output=True,text=True).stdout.split("\n")
    m = {
      "version": 1,
      "setup_cmd": "sh /verif/bin/setup",
      "hooks": {"guard": "verif", "enable": "go build -tags verif (bin/check does this)",
                "baseline_off_cmd": "cd /repo && GOFLAGS=-mod=mod GOPROXY=off GOSUMDB=off GOTOOLCHAIN=local go test -json -vet=off -count=1 -timeout 25m ./...",
                "source_commits": [h.split()[0] for h in hooks if h.strip()], "add_only": True},
      "engines": [{"name": "vcheck", "path": "/verif/harness", "serves_properties": sorted(CHECKS),
                   "kind_free_text": "Go harness: runs TLC on /verif/spec/**, parses state graphs / emitted cases, replays them on the real library and validates recorded traces with TLC"}],
      "checks": checks,
      "not_applicable": na,
      "notes": "All checks: bin/check <id> quick|thorough [--replay file]; honours VERIF_SEED and VERIF_TIER; exit 0/1/2 (2 = infrastructure problem, never a verdict).",
    }
    json.dump(m, open("/verif/MANIFEST.json","w"), indent=1)
    print("wrote MANIFEST.json with", len(checks), "checks")
main()
