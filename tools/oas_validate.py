#!/usr/bin/env python3
"""C08 validator driver (run with python3-vt): reads ndjson programs on stdin
   {"id":..., "schema": <text>, "components": {name: <text>}, "instances": [<text>...]}
and writes one ndjson result per program {"id":..., "problems": [{"kind":..., "msg":...}]}.
The independent validator is the jsonschema package (Draft 4 vocabulary, which is what the OpenAPI 3.0
Schema Object is based on) with `nullable` applied as "null is accepted before anything else at this level".
All numbers are parsed as decimal.Decimal so that multipleOf / minimum / maximum are evaluated exactly."""
import sys, json, copy
from decimal import Decimal
import jsonschema
from jsonschema import Draft4Validator, RefResolver

def loads(t):
    return json.loads(t, parse_float=Decimal)

SCHEMA_OR_REF = {"$ref": "#/definitions/schemaOrRef"}
META = {
  "definitions": {
    "schemaOrRef": {"oneOf": [{"$ref": "#/definitions/reference"}, {"$ref": "#/definitions/schema"}]},
    "reference": {"type": "object", "required": ["$ref"], "properties": {"$ref": {"type": "string"}}, "additionalProperties": False},
    "schema": {
      "type": "object",
      "properties": {
        "title": {"type": "string"}, "multipleOf": {"type": "number", "minimum": 0, "exclusiveMinimum": True},
        "maximum": {"type": "number"}, "exclusiveMaximum": {"type": "boolean"},
        "minimum": {"type": "number"}, "exclusiveMinimum": {"type": "boolean"},
        "maxLength": {"type": "integer", "minimum": 0}, "minLength": {"type": "integer", "minimum": 0},
        "pattern": {"type": "string"},
        "maxItems": {"type": "integer", "minimum": 0}, "minItems": {"type": "integer", "minimum": 0},
        "uniqueItems": {"type": "boolean"},
        "maxProperties": {"type": "integer", "minimum": 0}, "minProperties": {"type": "integer", "minimum": 0},
        "required": {"type": "array", "items": {"type": "string"}, "minItems": 1, "uniqueItems": True},
        "enum": {"type": "array", "minItems": 1},
        "type": {"enum": ["array", "boolean", "integer", "number", "object", "string"]},
        "allOf": {"type": "array", "minItems": 1, "items": SCHEMA_OR_REF},
        "oneOf": {"type": "array", "minItems": 1, "items": SCHEMA_OR_REF},
        "anyOf": {"type": "array", "minItems": 1, "items": SCHEMA_OR_REF},
        "not": SCHEMA_OR_REF, "items": SCHEMA_OR_REF,
        "properties": {"type": "object", "additionalProperties": SCHEMA_OR_REF},
        "additionalProperties": {"oneOf": [{"type": "boolean"}, SCHEMA_OR_REF]},
        "description": {"type": "string"}, "format": {"type": "string"}, "default": {},
        "nullable": {"type": "boolean"}, "discriminator": {"type": "object"}, "readOnly": {"type": "boolean"},
        "writeOnly": {"type": "boolean"}, "xml": {"type": "object"}, "externalDocs": {"type": "object"},
        "example": {}, "deprecated": {"type": "boolean"},
      },
      "patternProperties": {"^x-": {}},
      "additionalProperties": False,
    },
  },
  "$ref": "#/definitions/schemaOrRef",
}
META_VALIDATOR = Draft4Validator(META)

def to_draft4(s):
    """OpenAPI 3.0 Schema Object -> JSON Schema draft 4: nullable, and drop annotations."""
    if isinstance(s, list):
        return [to_draft4(x) for x in s]
    if not isinstance(s, dict):
        return s
    if "$ref" in s:
        return {"$ref": s["$ref"]}
    out = {}
    for k, v in s.items():
        if k in ("example", "description", "format", "nullable", "default", "title", "deprecated", "readOnly", "writeOnly", "xml", "externalDocs", "discriminator"):
            continue
        if k in ("properties",):
            out[k] = {pk: to_draft4(pv) for pk, pv in v.items()}
        elif k in ("items", "not", "additionalProperties", "allOf", "anyOf", "oneOf"):
            out[k] = to_draft4(v)
        else:
            out[k] = v
    if s.get("nullable") is True:
        return {"anyOf": [{"type": "null"}, out]}
    return out

def main():
    for line in sys.stdin:
        line = line.strip()
        if not line:
            continue
        prog = json.loads(line)
        problems = []
        def add(kind, msg):
            problems.append({"kind": kind, "msg": str(msg)[:400]})
        try:
            schema = loads(prog["schema"])
        except Exception as e:
            add("schema-not-json", e); schema = None
        comps = {}
        for name, text in prog.get("components", {}).items():
            try:
                comps[name] = loads(text)
            except Exception as e:
                add("component-not-json:" + name, e)
        if schema is not None:
            for what, s in [("schema", schema)] + [("component " + n, c) for n, c in comps.items()]:
                errs = sorted(META_VALIDATOR.iter_errors(s), key=lambda e: list(e.absolute_path))
                if errs:
                    e = errs[0]
                    add("not-a-schema-object", "%s at %s: %s" % (what, "/".join(map(str, e.absolute_path)), e.message))
            doc = {"components": {"schemas": {n: to_draft4(c) for n, c in comps.items()}}, "schema": to_draft4(schema)}
            resolver = RefResolver.from_schema(doc)
            validator = Draft4Validator({"$ref": "#/schema"}, resolver=resolver)
            for i, itext in enumerate(prog.get("instances", [])):
                try:
                    inst = loads(itext)
                except Exception as e:
                    add("instance-not-json", "instance %d %r: %s" % (i, itext[:80], e)); continue
                try:
                    errs = list(validator.iter_errors(inst))
                except jsonschema.exceptions.RefResolutionError as e:
                    add("unresolved-ref", e); break
                except Exception as e:
                    add("validator-error", "%s: %s" % (type(e).__name__, e)); break
                if errs:
                    e = errs[0]
                    add("instance-invalid:" + str(e.validator), "instance %d %s at /%s: %s" % (i, itext[:120], "/".join(map(str, e.absolute_path)), e.message))
        sys.stdout.write(json.dumps({"id": prog["id"], "problems": problems}) + "\n")
    sys.stdout.flush()

if __name__ == "__main__":
    main()
