#!/usr/bin/env python3
"""tools/addfixed.py <property> <commit> <what failed>: appends a `fixed` entry to known_findings.json."""
import json, sys
p = '/verif/known_findings.json'
d = json.load(open(p))
prop, commit, what = sys.argv[1], sys.argv[2], sys.argv[3]
d['fixed'].append({"property": prop, "commit": commit, "what": "fixed: property=%s %s" % (prop, what)})
json.dump(d, open(p, 'w'), indent=1, ensure_ascii=False)
open(p, 'a').write("\n")
